(* Extraction of the executable query models (engine "query", property C13).
   ExtrOcamlBasic only; nat, N, Z, positive stay extracted inductives. No Extract Constant.
   Besides the matchers and the filter stages, the IR model's init/step (to rebuild netlists from
   `ir` op histories) and the whole queries of Query/Enum.v (candidate enumeration + stages). *)
From Coq Require Extraction ExtrOcamlBasic.
From SV Require Import Base.Base IR.State IR.NS IR.Ops Hier.Paths Hier.Enum Hier.Trace
  Query.Glob Query.Regex Query.Patterns Query.Filter Query.Enum.
Extraction Language OCaml.
Extraction "query_model.ml" value_matches is_pattern_absolute glob_match escape_brackets fnmatchcase
  parse_re rmatch regex_escape regex_prefix re_escape_str lower
  Filter.scan_lookup lookup_lower run_query run_netlists run_hier
  State.init Ops.step
  query_instances query_definitions query_libraries query_ports query_netlists query_pins query_cables query_wires.
