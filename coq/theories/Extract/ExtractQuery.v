(* Extraction of the executable query models (engine "query", property C13).
   ExtrOcamlBasic only; nat, N, positive stay extracted inductives. No Extract Constant. *)
From Coq Require Extraction ExtrOcamlBasic.
From SV Require Import Base.Base Query.Glob Query.Regex Query.Patterns Query.Filter.
Extraction Language OCaml.
Extraction "query_model.ml" value_matches is_pattern_absolute glob_match escape_brackets fnmatchcase
  parse_re rmatch regex_escape regex_prefix re_escape_str lower
  scan_lookup lookup_lower lookup_none run_query run_netlists run_hier.
