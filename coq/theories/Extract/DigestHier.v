(* Queries of the `hier` engine (C11, C12) as a datatype, and their answers in one canonical form,
   for the cross-check of extraction + driver glue against the kernel's own evaluator
   (harness/coq_eval.py).

   [hanswer] dispatches a query to the kernels of Hier/{Enum,Trace}.v exactly as the hand-written
   [answer] of ocaml/driver_hier.ml does (command `q`); it is (a) extracted and served by the driver
   under the command `qd`, (b) evaluated by `Eval vm_compute` inside coqc on the same op histories
   and queries, written as constructor terms by an independent printer in Python. The three answers
   (vm_compute, extracted [hanswer], the driver's own dispatch on the memoised state) must agree.

   Canonical answer: a list of rows of numbers. First row = tag: [0] = out of fuel, [1] = answered;
   then one row per hierarchical reference (ids LEAF FIRST, as in the model) or one row of values.
   Test infrastructure only: no theorem depends on this file. No proofs in this file. *)
From Coq Require Import List Arith NArith ZArith Bool.
From SV Require Import Base.Base IR.State IR.NS IR.Ops Hier.Paths Hier.Enum Hier.Trace Hier.Conn Hier.TraceRoots Query.Patterns Extract.Digest.
Import ListNotations.
Local Open Scope N_scope.

Inductive hkind := HKInst | HKPort | HKPin | HKCable | HKWire.

Inductive hq :=
| HWf (n : id)
| HEnum (k : hkind) (n : id) (r : bool)
| HBelow (k : hkind) (r : bool) (h : href)
| HHrefs (q : qitem)
| HHrefsIn (n : id) (l : list id)
| HValid (h : href)
| HUnique (h : href)
| HName (h : href)
| HIpaths (n : id)
| HPrep (n : id)
| HHwires (n : id) (x : sel) (r : bool) (h : href)
| HHcables (n : id) (x : sel) (r : bool) (h : href)
| HHpins (r : bool) (h : href)
| HInner (h : href)
| HOuter (h : href)
(* a collection of roots with patterns (is_case = true, is_re = false): Hier/TraceRoots.v *)
| HRoots (k : hkind) (n : id) (x : sel) (r : bool) (pats : list str) (roots : list root)
(* the answer IN YIELD ORDER from one instance reference through the name map (tag row [2] = the code raises) *)
| HOrdered (k : okind) (r : bool) (pats : list str) (h : href).

Definition fuel_out : list (list N) := [[0]].
Definition rows (o : option (list href)) : list (list N) :=
  match o with None => fuel_out | Some l => [1] :: map (map nn) l end.
Definition one_row (l : list N) : list (list N) := [[1]; l].

(* the closure fuel the driver computes once per netlist: pin weight of all hierarchical wires *)
Definition usum (s : state) (n : id) : option nat :=
  match all_hwires s n with Some u => Some (pin_weight s u) | None => None end.

Definition hanswer (s : state) (q : hq) : list (list N) :=
  match q with
  | HWf n =>
      one_row (map ser_bool [inv1a_b s; inv2a_b s; wfk_b s; acyclic_b s; wfc_b s; top_standalone_b s n])
  | HEnum k n r =>
      rows match k with
           | HKInst => get_hinstances_netlist s n r
           | HKPort => get_hports_netlist s n r
           | HKPin => get_hpins_netlist s n r
           | HKCable => get_hcables_netlist s n r
           | HKWire => get_hwires_netlist s n r
           end
  | HBelow k r h =>
      if negb (is_valid s h) then [[1]] else
      rows match k with
           | HKInst => hinstances_below s r h
           | HKPort => hports_below s r h
           | HKPin => hpins_below s r h
           | HKCable => hcables_below s r h
           | HKWire => hwires_below s r h
           end
  | HHrefs q => rows (hrefs_of_item s q)
  | HHrefsIn n l => rows (hrefs_of_instances_in s l n)
  | HValid h => one_row [ser_bool (is_valid s h)]
  | HUnique h =>
      match is_unique s (depth_fuel s) h with Some b => one_row [ser_bool b] | None => fuel_out end
  | HName h =>
      match href_name s h with Some nm => one_row (1 :: nm) | None => one_row [0] end
  | HIpaths n => rows (all_ipaths s n)
  | HPrep n => match usum s n with Some u => one_row [nn u] | None => fuel_out end
  | HHwires n x r h =>
      match usum s n with Some u => rows (get_hwires s x r u h) | None => fuel_out end
  | HHcables n x r h =>
      match usum s n with Some u => rows (get_hcables s x r u h) | None => fuel_out end
  | HHpins r h => rows (get_hpins s r h)
  | HInner h => rows (Some (opt_list (inner_hwire s h)))
  | HOuter h => rows (Some (opt_list (outer_hwire s h)))
  | HRoots k n x r pats roots =>
      let pat := pat_sel (absolute_b true false) (matches_b true false) pats in
      let dpat := pat_any_of (matches_b true false) pats in
      match k with
      | HKPin => rows (get_hpins_roots s r pat dpat roots)
      | HKPort => rows (get_hports_roots s r pat dpat roots)
      | HKWire => match usum s n with Some u => rows (get_hwires_roots s x r pat dpat u roots) | None => fuel_out end
      | HKCable => match usum s n with Some u => rows (get_hcables_roots s x r pat dpat u roots) | None => fuel_out end
      | HKInst => [[1]]
      end
  | HOrdered k r pats h =>
      match get_ordered s k r (absolute_b true false) (matches_b true false) pats h with
      | None => fuel_out
      | Some None => [[2]]
      | Some (Some l) => rows (Some l)
      end
  end.

(* one session with the driver: ops rebuild / edit the netlist, queries are answered on the current
   state; an op is answered by its outcome code *)
Inductive hitem := HOp (o : op) | HQ (q : hq).

Definition hstep (a : state * list (list (list N))) (i : hitem) : state * list (list (list N)) :=
  let '(s, acc) := a in
  match i with
  | HOp o => let '(s1, out) := step (clear_log s) o in (s1, one_row [exn_code out] :: acc)
  | HQ q => (s, hanswer s q :: acc)
  end.

Definition hcase (items : list hitem) : list (list (list N)) :=
  rev (snd (fold_left hstep items (init, []))).
