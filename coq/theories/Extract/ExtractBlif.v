(* Extraction of the EBLIF reader/writer models for the correspondence runs (engine "eblif").
   ExtrOcamlBasic only; nat, N, positive stay extracted inductives; no Extract Constant. *)
From Coq Require Extraction ExtrOcamlBasic.
From SV Require Import Base.Base Fmt.Blif Fmt.BlifRead Fmt.BlifWrite Fmt.BlifSpec.
Extraction Language OCaml.
Extraction "eblif_model.ml" classify elab_stmts elab emit pni split_eq dec supported roundtrippable equiv_b rt_check.
