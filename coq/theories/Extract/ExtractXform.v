(* Extraction of the IR model together with clone / uniquify / flatten (engine "xform"). *)
From Coq Require Extraction ExtrOcamlBasic.
From SV Require Import Base.Base IR.State IR.NS IR.Ops Xform.Clone Xform.Xform Extract.Digest.
Extraction Language OCaml.
Extraction "xform_model.ml" xinit xstep read_scalar
  (* cross-check of extraction + driver glue against vm_compute (harness/coq_eval.py): *)
  ev0 xev_more xstate_digest x_case.
