(* Extraction of the `hier` engine (C11, C12): the IR model's init/step (to rebuild netlists from
   `ir` op histories) together with the hierarchical-reference kernels, into one module.
   ExtrOcamlBasic only; nat, N, Z, positive stay extracted inductives. No Extract Constant. *)
From Coq Require Extraction ExtrOcamlBasic.
From SV Require Import Base.Base IR.State IR.NS IR.Ops Hier.Paths Hier.Enum Hier.Trace Hier.Conn Hier.TraceRoots Query.Patterns Extract.DigestHier.
Extraction Language OCaml.
Extraction "hier_model.ml" init step
  inv1a_b inv2a_b wfk_b acyclic_b wfc_b top_standalone_b
  is_valid is_unique href_name depth_fuel
  get_hinstances_netlist get_hports_netlist get_hpins_netlist get_hcables_netlist get_hwires_netlist
  hinstances_below hports_below hpins_below hcables_below hwires_below
  hrefs_of_instances hrefs_of_instances_in hrefs_of_item all_ipaths all_hwires
  pin_weight get_hwires get_hcables get_hpins get_hwires_ALL
  inner_hwire outer_hwire hpins_of_hwire
  (* collections of roots, patterns (Hier/TraceRoots.v; matcher of Query/Patterns.v): *)
  get_hwires_roots get_hcables_roots get_hpins_roots get_hports_roots pat_sel pat_any_of matches_b absolute_b get_ordered
  (* cross-check of extraction + driver glue against vm_compute (harness/coq_eval.py): *)
  hanswer.
