(* Extraction of the executable EDIF mechanism models for the correspondence runs of engine
   `edif` (C03, C05). ExtrOcamlBasic only; nat, N, positive stay extracted inductives. *)
From Coq Require Extraction ExtrOcamlBasic.
From SV Require Import Base.Base Fmt.EdifTopo Fmt.EdifLex Fmt.EdifName Fmt.EdifCable Fmt.EdifBus Fmt.EdifNets Fmt.EdifFile Fmt.EdifEmit.
Extraction Language OCaml.
Extraction "edif_model.ml"
  topological_sort topo_outer topo_fuel deps_of
  tokenize flatten print read sexp_ok
  sep_bracket sep_underscore net_bit dec int_of bit_ident bit_name
  mb_add mb_merge assemble wire_of cab_is_array member_outer member_inner member_read
  emit_cable read_cable read_nets emit_nets norm_entry
  elab_text elab_tokens elab_file read_first
  emit_file emit_text prepass norm_file rt_status rt_check file_eqb ordered writable params_w.
