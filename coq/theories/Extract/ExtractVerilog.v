(* Extraction of the executable Verilog models for the correspondence runs (engine `verilog`): the index
   mechanisms (VBits, VExpr, VTop) the document-level reader (VElab.elab) and the document-level
   writer with the round-trip checker (VEmit.emit, VEmit.rt_check).
   ExtrOcamlBasic only; nat, N, Z, positive stay extracted inductives. No Extract Constant. *)
From Coq Require Extraction ExtrOcamlBasic.
From SV Require Import Fmt.VBits Fmt.VExpr Fmt.VTop Fmt.VDoc Fmt.VElab Fmt.VEmit Fmt.VLex.
Extraction Language OCaml.
Extraction "verilog_model.ml" get_wires write_brackets read_brackets write_decl populate
  group write_concat read_concat read_piece sort_desc align
  update_cable update_port new_bundle item_at
  is_pinset_concatenated write_plain_port emit_port read_port reader_expr expr_bits read_assign write_assign brk_atom elect
  elab emit rt_check writable
  tokenize_raw_loop tokenize_loop.
