(* Extraction of the comparer model (engine "cmp", property C20).
   ExtrOcamlBasic only; nat, N, Z, positive stay extracted inductives. No Extract Constant. *)
From Coq Require Extraction ExtrOcamlBasic.
From SV Require Import Base.Base Cmp.Comparer.
Extraction Language OCaml.
Extraction "cmp_model.ml" cmp_run compare wf_namedb no_asgb nv_keys.
