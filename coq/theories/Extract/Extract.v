(* Extraction of the executable models for the correspondence runs.
   ExtrOcamlBasic only: bool, option, unit, list, prod, sumbool map to OCaml natives;
   nat, N, Z, positive stay extracted inductives. No Extract Constant. *)
From Coq Require Extraction ExtrOcamlBasic.
From SV Require Import Base.Base IR.State IR.NS IR.Ops Extract.Digest.
Extraction Language OCaml.
Extraction "model.ml" init step pin_wire read_scalar fast_lookup scan_lookup str_NAME str_IDENT str_NS
  check_edif_identifier lower
  (* cross-check of extraction + driver glue against vm_compute (harness/coq_eval.py): *)
  ev0 ev_more state_digest ir_case.
