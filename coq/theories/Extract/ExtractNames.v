(* Extraction of the "names" engine (C17). ExtrOcamlBasic only; nat, N, positive stay inductives. *)
From Coq Require Extraction ExtrOcamlBasic.
From SV Require Import Base.Base IR.State IR.NS Names.Edifify.
Extraction Language OCaml.
Extraction "names_model.ml" make_valid assign_all fuel_for length_fix characters_fix sdn_suffix dec
  conflicts_fix check_edif_identifier lower c17_ok all_assigned_legal idents_distinct_caseless.
