(* Digests of model runs, for the cross-check of extraction + driver glue against the kernel's own
   evaluator (harness/coq_eval.py).

   The same Gallina functions are (a) extracted to OCaml and called by ocaml/driver_ir.ml /
   driver_xform.ml on the command `digest`, and (b) evaluated by `Eval vm_compute` inside coqc on
   the same op histories, written as constructor terms by an independent printer in Python.
   A run is summarised by
     - the outcome code of every op (0 = ok, 1.. = the exception classes),
     - a running hash of the event log of every op (in the order the model emits the events),
     - a hash of a canonical serialisation (list N) of every field the drivers' dumps print, for
       every object id below [next].
   The hash is a polynomial hash modulo the Mersenne prime 2^61 - 1 (reduction by shift-and-add, so
   that it stays cheap under vm_compute); collisions are not a soundness concern of any theorem -
   this file is test infrastructure, no theorem depends on it. No proofs in this file. *)
From Coq Require Import List Arith NArith ZArith Bool.
From RecordUpdate Require Import RecordSet.
From SV Require Import Base.Base IR.State IR.NS IR.Ops Xform.Clone Xform.Xform.
Import ListNotations RecordSetNotations.
Local Open Scope N_scope.

(* ------------------------------------------------------------------------------------------ *)
(* hash                                                                                        *)

Definition hP : N := 2305843009213693951.          (* 2^61 - 1 *)
Definition hB : N := 1099511758849.                (* 2^40 + 2^17 + 1: sparse, so B * h is cheap *)

Definition hred (x : N) : N :=
  let y := N.land x hP + N.shiftr x 61 in
  let z := N.land y hP + N.shiftr y 61 in
  if hP <=? z then z - hP else z.

Definition hmore (h : N) (l : list N) : N :=
  fold_left (fun h x => hred (hB * h + hred x + 1)) l h.

Definition ev0 : N := 7.                             (* start value of every running hash *)
Definition hashN (l : list N) : N := hmore ev0 l.

(* ------------------------------------------------------------------------------------------ *)
(* canonical serialisation                                                                     *)

Definition nn (x : nat) : N := N.of_nat x.
Definition ser_bool (b : bool) : N := if b then 1 else 0.
Definition ser_list {A} (f : A -> list N) (l : list A) : list N := nn (length l) :: flat_map f l.
Definition ser_oid (o : option id) : list N := match o with None => [0] | Some x => [1; nn x] end.
Definition ser_id (x : id) : list N := [nn x].
Definition ser_str (s : str) : list N := ser_list (fun c => [c]) s.
Definition ser_z (z : Z) : list N :=
  match z with Z0 => [0] | Zpos p => [1; Npos p] | Zneg p => [2; Npos p] end.
Definition ser_val (v : val) : list N :=
  match v with
  | VStr s => 1 :: ser_str s
  | VInt z => 2 :: ser_z z
  | VBool b => [3; ser_bool b]
  | VNone => [4]
  end.
Definition ser_pin (p : pin) : list N :=
  match p with PIn i => [1; nn i] | POut n i => [2; nn n; nn i] | PDet => [3] end.
Definition kind_code (k : kind) : N :=
  match k with
  | KNetlist => 1 | KLibrary => 2 | KDefinition => 3 | KPort => 4
  | KCable => 5 | KWire => 6 | KPin => 7 | KInstance => 8
  end.
Definition rel_code (r : rel) : N :=
  match r with
  | RLibs => 1 | RDefs => 2 | RPorts => 3 | RCables => 4 | RChildren => 5 | RPins => 6 | RWires => 7
  end.
Definition dir_code (d : dir) : N :=
  match d with DUndef => 0 | DInout => 1 | DIn => 2 | DOut => 3 end.
Definition pol_code (p : pol) : N := match p with PolDefault => 0 | PolEdif => 1 end.
Definition ser_toparg (a : toparg) : list N :=
  match a with TopInst x => [1; nn x] | TopDef d => [2; nn d] | TopNone => [3] end.

Definition ser_event (e : event) : list N :=
  match e with
  | ECreate k x => [1; kind_code k; nn x]
  | EAdd r p c => [2; rel_code r; nn p; nn c]
  | ERemove r p c => [3; rel_code r; nn p; nn c]
  | EReference n d => 4 :: nn n :: ser_oid d
  | ETop n a => 5 :: nn n :: ser_toparg a
  | EConnect w p => 6 :: nn w :: ser_pin p
  | EDisconnect w p => 7 :: nn w :: ser_pin p
  | EDictSet e k v => 8 :: nn e :: ser_str k ++ ser_val v
  | EDictDel e k => 9 :: nn e :: ser_str k
  | EDictPop e k => 10 :: nn e :: ser_str k
  end.

Definition ser_data (l : list (str * val)) : list N :=
  ser_list (fun kv => ser_str (fst kv) ++ ser_val (snd kv)) l.

Definition all_kinds : list kind :=
  [KNetlist; KLibrary; KDefinition; KPort; KCable; KWire; KPin; KInstance].

Definition ser_tab (f : kind -> list (str * id)) : list N :=
  flat_map (fun k => ser_list (fun e => ser_str (fst e) ++ [nn (snd e)]) (f k)) all_kinds.

Definition ser_ns (o : option nstable) : list N :=
  match o with
  | None => [0]
  | Some t => 1 :: pol_code (ns_pol t) :: ser_tab (ns_names t) ++ ser_tab (ns_idents t)
  end.

Definition ser_ids (l : list id) : list N := ser_list ser_id l.

(* the fields ocaml/driver_ir.ml [dump_obj] prints, per kind, in the same order; lists are kept in
   the model's order (the dump sorts reference sets, data and tables for the comparison with the
   implementation; here both sides run the same function, so no sorting is needed) *)
Definition ser_bundle (s : state) (x : id) : list N :=
  [ser_bool (bdownto s x); ser_bool (read_scalar s x); ser_bool (bscalar s x)] ++ ser_z (blower s x).

Definition ser_obj (s : state) (x : id) : list N :=
  match kind_of s x with
  | None => [0]
  | Some k =>
      kind_code k ::
      match k with
      | KNetlist => ser_ids (kids s RLibs x) ++ ser_oid (top s x) ++ ser_data (data s x) ++ ser_ns (nstab s x)
      | KLibrary => ser_oid (par s RLibs x) ++ ser_ids (kids s RDefs x) ++ ser_data (data s x) ++ ser_ns (nstab s x)
      | KDefinition =>
          ser_oid (par s RDefs x) ++ ser_ids (kids s RPorts x) ++ ser_ids (kids s RCables x)
          ++ ser_ids (kids s RChildren x) ++ ser_ids (drefs s x) ++ ser_data (data s x) ++ ser_ns (nstab s x)
      | KPort =>
          ser_oid (par s RPorts x) ++ ser_ids (kids s RPins x) ++ ser_bundle s x
          ++ [dir_code (pdir s x)] ++ ser_data (data s x)
      | KCable =>
          ser_oid (par s RCables x) ++ ser_ids (kids s RWires x) ++ ser_bundle s x ++ ser_data (data s x)
      | KWire => ser_oid (par s RWires x) ++ ser_list ser_pin (wpins s x)
      | KPin => ser_oid (par s RPins x) ++ ser_oid (ipwire s x)
      | KInstance =>
          ser_oid (par s RChildren x) ++ ser_oid (iref s x) ++ [ser_bool (istop s x)]
          ++ ser_list (fun e => nn (fst e) :: ser_oid (snd e)) (ipins s x) ++ ser_data (data s x)
      end
  end.

Definition ser_state (s : state) : list N :=
  nn (next s) :: pol_code (policy s) :: flat_map (ser_obj s) (seq 0 (next s)).

Definition state_digest (s : state) : N := hashN (ser_state s).

(* ------------------------------------------------------------------------------------------ *)
(* runs of the `ir` engine                                                                     *)

Definition exn_code (o : option exn) : N :=
  match o with
  | None => 0
  | Some XAssert => 1 | Some XValue => 2 | Some XKey => 3 | Some XRuntime => 4
  | Some XType => 5 | Some XStuck => 6
  end.

(* what the driver does before every op: the event log is per call *)
Definition clear_log (s : state) : state := s <| log := [] |>.

(* running hash of the per-call event logs: fed with the state after the call and its outcome *)
Definition ev_more (h : N) (s1 : state) (out : option exn) : N :=
  hmore h (exn_code out :: ser_list ser_event (log s1)).

(* accumulator of a run: state, outcome codes (latest first), event hash *)
Definition ir_acc := (state * list N * N)%type.
Definition ir_acc0 : ir_acc := (init, [], ev0).

Definition ir_dstep (a : ir_acc) (o : op) : ir_acc :=
  let '(s, outs, h) := a in
  let '(s1, out) := step (clear_log s) o in
  (s1, exn_code out :: outs, ev_more h s1 out).

(* the summary of a whole history from the empty state: (outcome codes, event hash, state digest) *)
Definition ir_case (ops : list op) : list N * N * N :=
  let '(s, outs, h) := fold_left ir_dstep ops ir_acc0 in
  (rev outs, h, state_digest s).

(* ------------------------------------------------------------------------------------------ *)
(* runs of the `xform` engine                                                                  *)

Definition xexn_code (o : option xexn) : N :=
  match o with
  | None => 0
  | Some (XE e) => exn_code (Some e)
  | Some XOutOfFuel => 7
  | Some XAttr => 8
  end.

Definition xclear_log (x : xstate) : xstate := mkX (clear_log (st x)) (uniq_ctr x) (flat_ctr x).

Definition xstate_digest (x : xstate) : N :=
  hmore (state_digest (st x)) [nn (uniq_ctr x); nn (flat_ctr x)].

Definition xev_more (h : N) (x1 : xstate) (out : option xexn) : N :=
  hmore h (xexn_code out :: ser_list ser_event (log (st x1))).

Definition x_acc := (xstate * list N * N)%type.
Definition x_acc0 : x_acc := (xinit, [], ev0).

Definition x_dstep (a : x_acc) (o : xop) : x_acc :=
  let '(x, outs, h) := a in
  let '(x1, out) := xstep (xclear_log x) o in
  (x1, xexn_code out :: outs, xev_more h x1 out).

Definition x_case (ops : list xop) : list N * N * N :=
  let '(x, outs, h) := fold_left x_dstep ops x_acc0 in
  (rev outs, h, xstate_digest x).
