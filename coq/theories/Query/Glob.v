(* Query/Glob.v - model of spydrnet/util/patterns.py in non-regex mode.

   _value_matches_pattern(value, pattern, is_case, is_re=False):
       value = "" if value is None
       pattern = pattern.replace("[", "[[]")
       fnmatch.fnmatchcase(value, pattern)                      (is_case)
       fnmatch.fnmatchcase(value.lower(), pattern.lower())      (not is_case)

   fnmatch.fnmatchcase(name, pat) = re.compile(fnmatch.translate(pat)).match(name) is not None.
   CPython 3.12 fnmatch.translate reads the pattern left to right:
       '*'            -> STAR        (runs of stars are compressed; any sequence, newline included: (?s))
       '?'            -> '.'         (exactly one character)
       '[' ... ']'    -> a character class; '[' without a closing ']' -> the literal '['
       any other c    -> re.escape(c) (the literal character: ']' '!' '-' '\' newline included)
   and the whole is anchored at both ends (match + \Z).
   After the '[' -> '[[]' rewriting every '[' of the translated text starts the three characters
   "[[]", which translate reads as the class containing exactly '['  ([\[]).  The tokenizer below is
   translate restricted to that fragment (a '[' that is not followed by "[]" is read as a literal,
   which is what translate does when no ']' follows at all; such texts never reach it here, see
   tokenize_escape in Proofs/QueryGlob.v).

   No proofs in this file. *)
From Coq Require Import List NArith Bool.
From SV Require Import Base.Base.
Import ListNotations.

Definition STAR : N := 42.      (* '*' *)
Definition QUEST : N := 63.     (* '?' *)
Definition LBRACK : N := 91.    (* '[' *)
Definition RBRACK : N := 93.    (* ']' *)

(* ------------------------------------------------------------------------------------------ *)
(* the matcher on raw patterns: '*' any sequence, '?' one character, anything else itself       *)

Definition is_wild (c : N) : bool := N.eqb c STAR || N.eqb c QUEST.

Fixpoint glob_match (p v : str) : bool :=
  match p with
  | [] => match v with [] => true | _ :: _ => false end
  | c :: p' =>
      if N.eqb c STAR then
        (fix star (w : str) : bool :=
           glob_match p' w || match w with [] => false | _ :: w' => star w' end) v
      else
        match v with
        | [] => false
        | x :: v' => (N.eqb c QUEST || N.eqb c x) && glob_match p' v'
        end
  end.

(* ------------------------------------------------------------------------------------------ *)
(* the code path: str.replace("[", "[[]") ; fnmatch.translate ; match                           *)

Fixpoint escape_brackets (p : str) : str :=
  match p with
  | [] => []
  | c :: p' => if N.eqb c LBRACK then LBRACK :: LBRACK :: RBRACK :: escape_brackets p'
               else c :: escape_brackets p'
  end.

Inductive tok := TStar | TAny | TLit (c : N).

(* fnmatch.translate on the fragment; [skip] = number of characters still to be dropped (the "[]"
   that closes a "[[]" class) - keeps the recursion structural *)
Fixpoint tokenize_aux (skip : nat) (p : str) : list tok :=
  match p with
  | [] => []
  | c :: p' =>
      match skip with
      | S k => tokenize_aux k p'
      | O =>
          if N.eqb c STAR then TStar :: tokenize_aux 0 p'
          else if N.eqb c QUEST then TAny :: tokenize_aux 0 p'
          else if N.eqb c LBRACK then
            match p' with
            | a :: b :: _ => if N.eqb a LBRACK && N.eqb b RBRACK
                             then TLit LBRACK :: tokenize_aux 2 p'
                             else TLit LBRACK :: tokenize_aux 0 p'
            | _ => TLit LBRACK :: tokenize_aux 0 p'
            end
          else TLit c :: tokenize_aux 0 p'
      end
  end.

Definition tokenize (p : str) : list tok := tokenize_aux 0 p.

(* the compiled regular expression (?s: ... )\Z matched from the start *)
Fixpoint tok_match (ts : list tok) (v : str) : bool :=
  match ts with
  | [] => match v with [] => true | _ :: _ => false end
  | TStar :: ts' =>
      (fix star (w : str) : bool :=
         tok_match ts' w || match w with [] => false | _ :: w' => star w' end) v
  | TAny :: ts' => match v with [] => false | _ :: v' => tok_match ts' v' end
  | TLit c :: ts' => match v with [] => false | x :: v' => N.eqb c x && tok_match ts' v' end
  end.

Definition fnmatchcase (name pat : str) : bool := tok_match (tokenize pat) name.

(* ------------------------------------------------------------------------------------------ *)
(* patterns.py                                                                                 *)

(* _is_pattern_absolute(pattern, is_case, is_re) *)
Definition is_pattern_absolute (p : str) (is_case is_re : bool) : bool :=
  if negb is_case || is_re then false
  else negb (existsb is_wild p).

(* the non-regex branch of _value_matches_pattern; value None is "" *)
Definition value_or_empty (v : option str) : str :=
  match v with Some s => s | None => [] end.

Definition value_matches_glob (value : option str) (pattern : str) (is_case : bool) : bool :=
  let value := value_or_empty value in
  let pattern := escape_brackets pattern in
  if is_case then fnmatchcase value pattern
  else fnmatchcase (lower value) (lower pattern).
