(* Query/Regex.v - model of the regex branch of spydrnet/util/patterns.py:

       re.fullmatch(pattern, value, flags=0 if is_case else re.IGNORECASE)

   for the fragment of Python's `re` syntax that the property's patterns use:
   literal characters, backslash-escaped punctuation (what re.escape produces), '.', character
   classes [..] / [^..] with ranges, groups ( ), alternation |, and the quantifiers * + ?.
   Everything else (anchors, {m,n}, lazy/possessive quantifiers, (?...) extensions, \d \w \b \1 ...)
   is reported as "outside the fragment" (None) and is never compared with the implementation.

   - [re]         abstract syntax
   - [rmatch]     Brzozowski-derivative matcher, [ci] = re.IGNORECASE on ASCII
   - [parse_re]   pattern text -> abstract syntax (one left-to-right pass, structural on the text)
   - [re_escape_str] re.escape (CPython 3.12), [regex_escape] the syntax tree it denotes

   No proofs in this file. *)
From Coq Require Import List NArith Bool.
From SV Require Import Base.Base.
Import ListNotations.

Inductive re :=
| Void                                   (* matches nothing *)
| Eps                                    (* the empty string *)
| Chr (c : N)
| Any                                    (* '.' : any character except newline (no DOTALL) *)
| Cls (neg : bool) (items : list (N * N))  (* [..] as inclusive ranges; a single char is (c,c) *)
| Cat (a b : re)
| Alt (a b : re)
| Star (a : re).

Definition NL : N := 10.
Definition upper_c (c : N) : N := if is_lower c then (c - 32)%N else c.

Definition in_ranges (items : list (N * N)) (c : N) : bool :=
  existsb (fun it => N.leb (fst it) c && N.leb c (snd it)) items.

(* one character against a leaf; ci = IGNORECASE *)
Definition leaf_chr (ci : bool) (a c : N) : bool :=
  if ci then N.eqb (lower_c a) (lower_c c) else N.eqb a c.

Definition leaf_cls (ci : bool) (neg : bool) (items : list (N * N)) (c : N) : bool :=
  xorb neg (if ci then in_ranges items (lower_c c) || in_ranges items (upper_c c)
            else in_ranges items c).

Fixpoint nullable (r : re) : bool :=
  match r with
  | Void | Chr _ | Any | Cls _ _ => false
  | Eps | Star _ => true
  | Cat a b => nullable a && nullable b
  | Alt a b => nullable a || nullable b
  end.

Fixpoint deriv (ci : bool) (c : N) (r : re) : re :=
  match r with
  | Void | Eps => Void
  | Chr a => if leaf_chr ci a c then Eps else Void
  | Any => if N.eqb c NL then Void else Eps
  | Cls neg items => if leaf_cls ci neg items c then Eps else Void
  | Cat a b => if nullable a then Alt (Cat (deriv ci c a) b) (deriv ci c b)
               else Cat (deriv ci c a) b
  | Alt a b => Alt (deriv ci c a) (deriv ci c b)
  | Star a => Cat (deriv ci c a) (Star a)
  end.

(* re.fullmatch *)
Fixpoint rmatch (ci : bool) (r : re) (v : str) : bool :=
  match v with
  | [] => nullable r
  | c :: v' => rmatch ci (deriv ci c r) v'
  end.

(* ------------------------------------------------------------------------------------------ *)
(* re.escape                                                                                   *)

(* _special_chars_map of CPython 3.12:  ()[]{}?*+-|^$\.&~# \t\n\r\v\f  *)
Definition re_specials : list N :=
  [40; 41; 91; 93; 123; 125; 63; 42; 43; 45; 124; 94; 36; 92; 46; 38; 126; 35; 32; 9; 10; 13; 11; 12]%N.

Definition is_re_special (c : N) : bool := existsb (N.eqb c) re_specials.

Definition BSLASH : N := 92.

Fixpoint re_escape_str (s : str) : str :=
  match s with
  | [] => []
  | c :: s' => if is_re_special c then BSLASH :: c :: re_escape_str s' else c :: re_escape_str s'
  end.

(* concatenation of a list of atoms *)
Definition seq_re (l : list re) : re := fold_right Cat Eps l.

(* the expression that matches exactly the string s *)
Definition regex_escape (s : str) : re := seq_re (map Chr s).

(* escape(s) followed by ".*" *)
Definition regex_prefix (s : str) : re := seq_re (map Chr s ++ [Star Any]).

(* ------------------------------------------------------------------------------------------ *)
(* parser                                                                                      *)

Record frame := mkF { f_alts : list re;   (* finished alternatives of this group, latest first *)
                      f_seq : list re;    (* atoms of the current alternative, latest first *)
                      f_q : bool }.       (* the latest atom may take a quantifier *)

Inductive mode :=
| MNorm
| MEsc                                                  (* just read a backslash *)
| MCls (neg : bool) (first : bool)                      (* inside [ ]: first = '^' still possible *)
       (items : list (N * N)) (pend : option N)         (* pend = last item, may start a range *)
       (dash : bool) (esc : bool).                      (* saw pend '-' ; saw a backslash *)

Record pst := mkP { cur : frame; stack : list frame; md : mode }.

Definition alt_re (alts_rev : list re) : re :=
  match alts_rev with
  | [] => Eps
  | a :: rest => fold_left (fun acc x => Alt x acc) rest a
  end.

(* the expression of a finished group: alternatives in source order, each a concatenation *)
Definition frame_re (f : frame) : re :=
  match f_alts f with
  | [] => seq_re (rev (f_seq f))
  | _ => alt_re (seq_re (rev (f_seq f)) :: f_alts f)
  end.

Definition push_atom (f : frame) (a : re) : frame := mkF (f_alts f) (a :: f_seq f) true.

Definition quantify (f : frame) (q : re -> re) : option frame :=
  if f_q f then
    match f_seq f with
    | a :: rest => Some (mkF (f_alts f) (q a :: rest) false)
    | [] => None
    end
  else None.

Definition empty_frame : frame := mkF [] [] false.

Definition commit (items : list (N * N)) (pend : option N) : list (N * N) :=
  match pend with Some c => items ++ [(c, c)] | None => items end.

(* one item character x inside a class (escaped = it was written \x) *)
Definition cls_item (st : pst) (neg : bool) (items : list (N * N)) (pend : option N) (dash : bool)
           (x : N) (escaped : bool) : option pst :=
  if dash then
    match pend with
    | Some lo => if N.leb lo x
                 then Some (mkP (cur st) (stack st) (MCls neg false (items ++ [(lo, x)]) None false false))
                 else None                                   (* bad character range *)
    | None => None
    end
  else
    match pend with
    | Some lo =>
        if N.eqb x 45 && negb escaped
        then Some (mkP (cur st) (stack st) (MCls neg false items pend true false))
        else Some (mkP (cur st) (stack st) (MCls neg false (items ++ [(lo, lo)]) (Some x) false false))
    | None => Some (mkP (cur st) (stack st) (MCls neg false items (Some x) false false))
    end.

Definition step (st : pst) (c : N) : option pst :=
  match md st with
  | MEsc =>
      if is_alnum c then None                              (* \d \w \b \1 ... : outside the fragment *)
      else Some (mkP (push_atom (cur st) (Chr c)) (stack st) MNorm)
  | MCls neg first items pend dash esc =>
      if esc then
        if is_alnum c then None else cls_item st neg items pend dash c true
      else if N.eqb c 92 then Some (mkP (cur st) (stack st) (MCls neg false items pend dash true))
      else if N.eqb c 94 && first then Some (mkP (cur st) (stack st) (MCls true false items pend dash false))
      else if N.eqb c 93 && negb (match items, pend with [], None => true | _, _ => false end) then
        (* closing bracket (a ']' is a literal while the set is still empty) *)
        let items' := if dash then commit items pend ++ [(45, 45)%N] else commit items pend in
        Some (mkP (push_atom (cur st) (Cls neg items')) (stack st) MNorm)
      else cls_item st neg items pend dash c false
  | MNorm =>
      if N.eqb c 92 then Some (mkP (cur st) (stack st) MEsc)
      else if N.eqb c 46 then Some (mkP (push_atom (cur st) Any) (stack st) MNorm)
      else if N.eqb c 91 then Some (mkP (cur st) (stack st) (MCls false true [] None false false))
      else if N.eqb c 40 then Some (mkP empty_frame (cur st :: stack st) MNorm)
      else if N.eqb c 41 then
        match stack st with
        | parent :: rest => Some (mkP (push_atom parent (frame_re (cur st))) rest MNorm)
        | [] => None                                       (* unbalanced parenthesis *)
        end
      else if N.eqb c 124 then
        Some (mkP (mkF (seq_re (rev (f_seq (cur st))) :: f_alts (cur st)) [] false) (stack st) MNorm)
      else if N.eqb c 42 then
        match quantify (cur st) Star with Some f => Some (mkP f (stack st) MNorm) | None => None end
      else if N.eqb c 43 then
        match quantify (cur st) (fun a => Cat a (Star a)) with
        | Some f => Some (mkP f (stack st) MNorm) | None => None end
      else if N.eqb c 63 then
        match quantify (cur st) (fun a => Alt Eps a) with
        | Some f => Some (mkP f (stack st) MNorm) | None => None end
      else if N.eqb c 123 || N.eqb c 94 || N.eqb c 36 then None   (* { ^ $ : outside the fragment *)
      else Some (mkP (push_atom (cur st) (Chr c)) (stack st) MNorm)
  end.

Fixpoint run (st : pst) (p : str) : option pst :=
  match p with
  | [] => Some st
  | c :: p' => match step st c with Some st' => run st' p' | None => None end
  end.

Definition init_pst : pst := mkP empty_frame [] MNorm.

Definition finish (st : pst) : option re :=
  match md st, stack st with
  | MNorm, [] => Some (frame_re (cur st))
  | _, _ => None
  end.

Definition parse_re (p : str) : option re :=
  match run init_pst p with Some st => finish st | None => None end.
