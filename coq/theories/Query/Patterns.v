(* Query/Patterns.v - spydrnet/util/patterns.py as a whole.

   def _value_matches_pattern(value, pattern, is_case, is_re):
       if value is None: value = ""
       if is_re:
           try:    if re.fullmatch(pattern, value, flags=0 if is_case else re.IGNORECASE): return True
           except re.error: return False
           (falls through: None, i.e. false)
       else:  (Glob.value_matches_glob)

   The regex branch is modelled on the fragment of Query/Regex.v; a pattern text outside that
   fragment (or one that Python rejects with re.error) gives None and is excluded from every
   statement and from the comparison with the implementation. No proofs in this file. *)
From Coq Require Import List NArith Bool.
From SV Require Import Base.Base Query.Glob Query.Regex.
Import ListNotations.

Definition value_matches (value : option str) (pattern : str) (is_case is_re : bool) : option bool :=
  if is_re then
    match parse_re pattern with
    | Some r => Some (rmatch (negb is_case) r (value_or_empty value))
    | None => None
    end
  else Some (value_matches_glob value pattern is_case).

(* truth value used by the callers (a pattern outside the fragment counts as no match; such
   patterns are never produced by the generators of the correspondence check) *)
Definition matches_b (is_case is_re : bool) (pattern value : str) : bool :=
  match value_matches (Some value) pattern is_case is_re with Some b => b | None => false end.

Definition absolute_b (is_case is_re : bool) (pattern : str) : bool :=
  is_pattern_absolute pattern is_case is_re.
