(* Query/Filter.v - the pattern-filter stages shared by the 13 query functions
   spydrnet/util/get_*.py, as higher-order functions over candidate lists.

   Elements are ids; [key e] is the value stored under the chosen key (None: key absent or None);
   [mt pattern value] is _value_matches_pattern and [ab pattern] is _is_pattern_absolute for the
   chosen is_case / is_re (see Query/Patterns.v: matches_b, absolute_b).  Python sets are lists
   iterated in list order; the theorems only speak about membership and duplicates.
   A function returns the list of elements it yields, in yield order.

   Stage A  (get_libraries: Netlist; get_definitions: Library; get_instances/get_ports/get_cables:
             Definition):  per parent, per pattern: absolute -> lookup(parent, T, key, pattern),
             else scan the children; a shared [found] set suppresses repeats.
   Stage B  (elements reached from other root kinds, collected first):
     stageB_found   get_instances, get_libraries   (namemap for absolute patterns, [found] for the rest;
                    every yield removes the element from [found])
     stageB_names   get_definitions, get_ports, get_cables (namemap; every yield deletes the name)
     stageB_netlists get_netlists
     stageB_hier    get_hinstances / get_hports / get_hpins / get_hcables / get_hwires
   The enumeration of the candidates (which parents / other elements a root object leads to) is the
   argument of these functions; for the eight non-hierarchical query functions it is modelled in
   Query/Enum.v (which applies these stages to it), for the hierarchical ones it is not modelled.
   No proofs in this file. *)
From Coq Require Import List NArith Bool.
From SV Require Import Base.Base Query.Glob Query.Patterns.
Import ListNotations.

(* insertion-ordered dict  name -> list of elements  (namemap[name].append(e)) *)
Section NameMap.
Context {K : Type}.
Variable keqb : K -> K -> bool.

Fixpoint nm_add (n : K) (e : id) (nm : list (K * list id)) : list (K * list id) :=
  match nm with
  | [] => [(n, [e])]
  | (n', es) :: nm' => if keqb n n' then (n', es ++ [e]) :: nm' else (n', es) :: nm_add n e nm'
  end.

Fixpoint nm_get (n : K) (nm : list (K * list id)) : list id :=
  match nm with
  | [] => []
  | (n', es) :: nm' => if keqb n n' then es else nm_get n nm'
  end.

Definition nm_del (n : K) (nm : list (K * list id)) : list (K * list id) :=
  filter (fun ne => negb (keqb n (fst ne))) nm.
End NameMap.

Definition ostr_eqb (a b : option str) : bool :=
  match a, b with
  | Some x, Some y => str_eqb x y
  | None, None => true
  | _, _ => false
  end.

(* keys of the name maps: (compared case-insensitively?, name) *)
Definition xk_eqb (a b : bool * str) : bool := Bool.eqb (fst a) (fst b) && str_eqb (snd a) (snd b).
Definition xko_eqb (a b : bool * option str) : bool := Bool.eqb (fst a) (fst b) && ostr_eqb (snd a) (snd b).

Section Filter.
Variable key : id -> option str.
Variable fold : id -> bool.              (* patterns._folds_case(element, key): the key is EDIF.identifier and
                                            the element is under the EDIF policy (element[".NS"] == "EDIF") *)
Variable mt : str -> str -> bool.        (* mt pattern value *)
Variable ab : str -> bool.

Definition val (e : id) : str := value_or_empty (key e).          (* e[key] if key in e else "" *)
Definition has_key (e : id) : bool := match key e with Some _ => true | None => false end.
Definition em (p : str) (e : id) : bool := mt p (val e).
(* patterns._value_equals_pattern(element, key, value, pattern): an exact pattern is compared the way the
   namespace of the element compares - EDIF identifiers case-insensitively under the EDIF policy *)
Definition xeq (p : str) (e : id) : bool :=
  if fold e then str_eqb (lower p) (lower (val e)) else str_eqb p (val e).
(* does the pattern select the element: exact patterns by xeq, the others by _value_matches_pattern *)
Definition sm (p : str) (e : id) : bool := if ab p then xeq p e else em p e.
Definition any_match (pats : list str) (e : id) : bool := existsb (fun p => sm p e) pats.

(* patterns._exact_key(element, key, value): the key under which an element is filed for exact patterns *)
Definition xkey (e : id) : bool * str := (fold e, if fold e then lower (val e) else val e).
(* patterns._name_key(element, key, value): the key of the name maps that wildcard patterns walk too *)
Definition nkey (e : id) : bool * str := (fold e, val e).
(* does an exact pattern equal a name key *)
Definition xm (p : str) (k : bool * str) : bool :=
  if fst k then str_eqb (lower p) (lower (snd k)) else str_eqb p (snd k).
(* does a pattern select a name key *)
Definition nmt (p : str) (k : bool * str) : bool := if ab p then xm p k else mt p (snd k).

(* global_service.lookup returns a list. When no fast lookup is registered for the key: every child
   with  key in child and _value_equals_pattern(child, key, child[key], value)  (in child order) *)
Definition scan_lookup (children : list id) (p : str) : list id :=
  filter (fun c => has_key c && xeq p c) children.

(* a registered lookup answers with the one element its index holds, or None:
   "return [] if result is None else [result]" *)
Definition opt_list (o : option id) : list id := match o with Some e => [e] | None => [] end.

(* what the namespace manager's registered lookup answers, by policy and key:
   - DEFAULT or EDIF policy, key .NAME: the child with that name              (= scan_lookup under C10's invariant)
   - EDIF policy, key EDIF.identifier: the child whose identifier is equal up to letter case
   - DEFAULT policy, key EDIF.identifier: NotImplemented, and global_service.lookup scans (= scan_lookup) *)
Definition lookup_lower (children : list id) (p : str) : list id :=
  opt_list (find (fun c => match key c with Some w => str_eqb (lower p) (lower w) | None => false end) children).

(* ------------------------------------------------------------------------------------------ *)
(* stage A *)

(* nk: get_instances scans only the children that have the key ("if key in instance") *)
Fixpoint scan_children (nk : bool) (children : list id) (p : str) (found : list id) : list id :=
  match children with
  | [] => []
  | c :: cs =>
      if (negb nk || has_key c) && negb (memb c found) && em p c
      then c :: scan_children nk cs p (c :: found)
      else scan_children nk cs p found
  end.

(* "for result in lookup(obj, T, key, pattern): if result not in found: found.add(result); yield result" *)
Fixpoint yield_new (es : list id) (found : list id) : list id :=
  match es with
  | [] => []
  | e :: rest => if memb e found then yield_new rest found else e :: yield_new rest (e :: found)
  end.

Definition stageA_pattern (nk : bool) (lk : str -> list id) (children : list id) (p : str)
           (found : list id) : list id :=
  if ab p then yield_new (lk p) found
  else scan_children nk children p found.

Fixpoint stageA_parent (nk : bool) (lk : str -> list id) (children : list id) (pats : list str)
         (found : list id) : list id :=
  match pats with
  | [] => []
  | p :: ps => let y := stageA_pattern nk lk children p found in
               y ++ stageA_parent nk lk children ps (y ++ found)
  end.

(* the parents reached from the root objects, each with its lookup function and its children *)
Fixpoint stageA (nk : bool) (parents : list ((str -> list id) * list id)) (pats : list str)
         (found : list id) : list id :=
  match parents with
  | [] => []
  | (lk, ch) :: rest => let y := stageA_parent nk lk ch pats found in
                        y ++ stageA nk rest pats (y ++ found)
  end.

(* ------------------------------------------------------------------------------------------ *)
(* stage B: collection  "for o in others: if o in found: continue; found.add(o);
                          namemap[name].append(o)" *)

Fixpoint collect (others : list id) (found : list id) (nm : list ((bool * str) * list id))
  : list id * list ((bool * str) * list id) :=
  match others with
  | [] => (found, nm)
  | e :: rest => if memb e found then collect rest found nm
                 else collect rest (e :: found) (nm_add xk_eqb (nkey e) e nm)
  end.

(* get_instances, get_libraries:
     "yielded, found = found, set()
      for o in others: if o in yielded or o in found: continue; found.add(o); namemap[name].append(o)"
   [found] restarts empty: it holds the collected elements that no pattern has selected yet *)
Fixpoint collect_fresh (others : list id) (yielded found : list id) (nm : list ((bool * str) * list id))
  : list id * list ((bool * str) * list id) :=
  match others with
  | [] => (found, nm)
  | e :: rest => if memb e yielded || memb e found then collect_fresh rest yielded found nm
                 else collect_fresh rest yielded (e :: found) (nm_add xk_eqb (xkey e) e nm)
  end.

(* "for x in result: if x in live: live.remove(x); yield x" *)
Fixpoint take (es : list id) (live : list id) : list id * list id :=
  match es with
  | [] => ([], live)
  | e :: rest => if memb e live
                 then let '(y, live') := take rest (remove_all_in [e] live) in (e :: y, live')
                 else take rest live
  end.

(* the exact keys an absolute pattern is looked up under (patterns._exact_keys): as it stands, and
   lower-cased among the elements that compare case-insensitively *)
Definition xlookup (p : str) (nm : list ((bool * str) * list id)) : list id :=
  nm_get xk_eqb (false, p) nm ++ nm_get xk_eqb (true, lower p) nm.

(* absolute -> the elements of namemap[k], k an exact key of the pattern, that are still in [found],
   removed from it; otherwise every element of [found] that matches, removed from found *)
Fixpoint stageB_found_pats (pats : list str) (found : list id) (nm : list ((bool * str) * list id)) : list id :=
  match pats with
  | [] => []
  | p :: ps =>
      if ab p then
        let '(y, found') := take (xlookup p nm) found in
        y ++ stageB_found_pats ps found' nm
      else filter (em p) found ++ stageB_found_pats ps (filter (fun e => negb (em p e)) found) nm
  end.

Definition stageB_found (others : list id) (pats : list str) (yielded : list id) : list id :=
  match others with
  | [] => []                                              (* "if other_instances:" *)
  | _ => let '(found', nm) := collect_fresh others yielded [] [] in stageB_found_pats pats found' nm
  end.

(* get_definitions, get_ports, get_cables: the name map is keyed by _name_key = (folds, name);
   absolute -> the keys equal to the pattern (the key (False, pattern), and the case-insensitive keys
   equal up to case): their elements, and the keys are deleted;
   otherwise every key of the namemap whose name matches: its elements, and the key is deleted *)
Fixpoint stageB_names_pats (pats : list str) (nm : list ((bool * str) * list id)) : list id :=
  match pats with
  | [] => []
  | p :: ps =>
      concat (map snd (filter (fun ne => nmt p (fst ne)) nm))
      ++ stageB_names_pats ps (filter (fun ne => negb (nmt p (fst ne))) nm)
  end.

Definition stageB_names (others : list id) (pats : list str) (found : list id) : list id :=
  match others with
  | [] => []
  | _ => let '(_, nm) := collect others found [] in stageB_names_pats pats nm
  end.

(* get_netlists: every netlist reached is collected once; namemap keyed by the exact key of
   obj.get(key, None) *)
Definition xkeyo (e : id) : bool * option str :=
  (fold e, match key e with Some v => Some (if fold e then lower v else v) | None => None end).

Fixpoint collect_netlists (objs : list id) (found : list id) (nm : list ((bool * option str) * list id))
  : list id * list ((bool * option str) * list id) :=
  match objs with
  | [] => (found, nm)
  | e :: rest => if memb e found then collect_netlists rest found nm
                 else collect_netlists rest (e :: found) (nm_add xko_eqb (xkeyo e) e nm)
  end.

Fixpoint stageB_netlists_pats (pats : list str) (found : list id) (nm : list ((bool * option str) * list id)) : list id :=
  match pats with
  | [] => []
  | p :: ps =>
      if ab p then
        let '(y, found') := take (nm_get xko_eqb (false, Some p) nm ++ nm_get xko_eqb (true, Some (lower p)) nm) found in
        y ++ stageB_netlists_pats ps found' nm
      else filter (em p) found ++ stageB_netlists_pats ps (filter (fun e => negb (em p e)) found) nm
  end.

Definition stageB_netlists (objs : list id) (pats : list str) : list id :=
  let '(found, nm) := collect_netlists objs [] [] in stageB_netlists_pats pats found nm.

(* hierarchical queries: [nm] maps a hierarchical name to the references carrying it, [live] is
   in_namemap minus what was already yielded without looking at the patterns (in_yield) *)
Fixpoint take_names (names : list (str * list id)) (live : list id) : list id * list id :=
  match names with
  | [] => ([], live)
  | (_, es) :: rest => let '(y, live') := take es live in
                       let '(y2, live2) := take_names rest live' in (y ++ y2, live2)
  end.

Fixpoint stageB_hier_pats (pats : list str) (live : list id) (nm : list (str * list id)) : list id :=
  match pats with
  | [] => []
  | p :: ps =>
      let '(y, live') :=
        if ab p then take (nm_get str_eqb p nm) live
        else take_names (filter (fun ne => mt p (fst ne)) nm) live in
      y ++ stageB_hier_pats ps live' nm
  end.

(* hname: the hierarchical name of a reference relative to the root *)
Definition build_hier_nm (hname : id -> str) (refs : list id) : list (str * list id) :=
  fold_left (fun nm e => nm_add str_eqb (hname e) e nm) refs [].

Definition stageB_hier (hname : id -> str) (refs : list id) (in_yield : list id) (pats : list str) : list id :=
  stageB_hier_pats pats (remove_all_in in_yield refs) (build_hier_nm hname refs).

(* ------------------------------------------------------------------------------------------ *)
(* whole queries: stage A over the parents, then stage B over the other elements *)

Inductive bkind := BFound | BNames.

Definition query (nk : bool) (bk : bkind) (parents : list ((str -> list id) * list id))
           (others : list id) (pats : list str) : list id :=
  let ya := stageA nk parents pats [] in
  ya ++ match bk with
        | BFound => stageB_found others pats ya
        | BNames => stageB_names others pats ya
        end.

End Filter.

(* ------------------------------------------------------------------------------------------ *)
(* the stages with patterns.py plugged in (what the correspondence run executes) *)

Definition run_query (is_case is_re : bool) (key : id -> option str) (fold : id -> bool) (nk : bool) (bk : bkind)
           (parents : list ((str -> list id) * list id)) (others : list id) (pats : list str) : list id :=
  query key fold (matches_b is_case is_re) (absolute_b is_case is_re) nk bk parents others pats.

Definition run_netlists (is_case is_re : bool) (key : id -> option str) (fold : id -> bool) (objs : list id) (pats : list str) : list id :=
  stageB_netlists key fold (matches_b is_case is_re) (absolute_b is_case is_re) objs pats.

Definition run_hier (is_case is_re : bool) (hname : id -> str) (refs in_yield : list id) (pats : list str) : list id :=
  stageB_hier (matches_b is_case is_re) (absolute_b is_case is_re) hname refs in_yield pats.
