(* Query/EnumSpec.v - DECLARATIVE specification of which elements a root object leads to, for each
   non-hierarchical query function and each kind of root, independent of Query/Enum.v (no loop, no
   stack, no dispatch table: closed formulas over the back pointers of the heap and reflexive /
   transitive closures of two relations of the design hierarchy).

   reachA_<f> : the candidates of the first filter stage (children of a container the root stands
                for), reachB_<f> : the elements collected for the name-map stage.
   [inside] = selection INSIDE (false: OUTSIDE) for the functions that accept only those two.
   No proofs in this file. *)
From Coq Require Import List Arith Bool Relations.
From SV Require Import Base.Base IR.State Hier.Paths Hier.Trace Query.Enum.
Import ListNotations.

Section Spec.
Variable s : state.

(* ---- vocabulary ---- *)

(* definition d instantiates definition d' *)
Definition uses (d d' : id) : Prop :=
  exists c, par s RChildren c = Some d /\ iref s c = Some d'.
Definition used_by (d d' : id) : Prop := uses d' d.

(* instance c sits directly inside (the definition instantiated by) instance x *)
Definition inside_of (c x : id) : Prop :=
  exists d, iref s x = Some d /\ par s RChildren c = Some d.

(* "zero or more" / "one or more" steps *)
Definition star {A} (R : A -> A -> Prop) (rec : bool) (a b : A) : Prop :=
  if rec then clos_refl_trans A R a b else a = b.
Definition plus {A} (R : A -> A -> Prop) (rec : bool) (a b : A) : Prop :=
  if rec then clos_trans A R a b else R a b.

(* the definitions a definition / library / netlist root stands for *)
Definition scope_defs (x d : id) : Prop :=
  match kind_of s x with
  | Some KDefinition => d = x
  | Some KLibrary => par s RDefs d = Some x
  | Some KNetlist => exists l, par s RDefs d = Some l /\ par s RLibs l = Some x
  | _ => False
  end.

(* the definition a port / cable / inner pin / wire belongs to *)
Definition home (x d : id) : Prop :=
  match kind_of s x with
  | Some KPort => par s RPorts x = Some d
  | Some KCable => par s RCables x = Some d
  | Some KPin => exists p, par s RPins x = Some p /\ par s RPorts p = Some d
  | Some KWire => exists c, par s RWires x = Some c /\ par s RCables c = Some d
  | _ => False
  end.

(* a valid hierarchical reference and the item it refers to *)
Definition href_to (h : href) (x : id) : Prop := is_href s h /\ hd_error h = Some x.

(* the element a root item stands for where the function simply continues with it: an outer pin
   stands for its inner pin, a valid reference for its item *)
Definition item_elem (it : item) (x : id) : Prop :=
  match it with
  | IE y => x = y
  | IO _ i => x = i
  | IDet => False
  | IH h => href_to h x
  end.

(* the inner pin behind a pin object *)
Definition inner_of (p : pin) : option id :=
  match p with PIn i => Some i | POut _ i => Some i | PDet => None end.

(* inner pin i (itself, or through an outer pin of an instance) is attached to wire w *)
Definition on_wire (w i : id) : Prop := exists p, pin_wire s p = Some w /\ inner_of p = Some i.

(* definition d belongs to netlist n *)
Definition def_netlist (d n : id) : Prop := exists l, par s RDefs d = Some l /\ par s RLibs l = Some n.

(* instance n carries an outer pin for inner pin i: i is a pin of a port of n's definition *)
Definition opin_of (n i : id) : Prop :=
  exists d p, iref s n = Some d /\ par s RPorts p = Some d /\ par s RPins i = Some p.

(* ---- get_instances ---- *)

(* first stage: from a definition / library / netlist, INSIDE: the children of the definitions in
   scope; recursive: also of every definition they (transitively) instantiate *)
Definition instA_elem (rec inside : bool) (x e : id) : Prop :=
  inside = true /\
  exists d d', scope_defs x d /\ star uses rec d d' /\ par s RChildren e = Some d'.

(* name-map stage:
   - definition / library / netlist, OUTSIDE: the instances OF the definitions in scope; recursive:
     also the instances of every definition that (transitively) instantiates them;
   - instance, INSIDE: the instances directly inside it (recursive: anywhere below it);
     OUTSIDE: the instances it sits directly inside (recursive: anywhere above it);
   - port / cable / inner pin / wire: the instances of the definition it belongs to *)
Definition instB_elem (rec inside : bool) (x e : id) : Prop :=
  match kind_of s x with
  | Some KDefinition | Some KLibrary | Some KNetlist =>
      inside = false /\ exists d d', scope_defs x d /\ star used_by rec d d' /\ iref s e = Some d'
  | Some KInstance =>
      if inside then plus inside_of rec e x else plus inside_of rec x e
  | Some KPort | Some KCable | Some KPin | Some KWire =>
      exists d, home x d /\ iref s e = Some d
  | None => False
  end.

Definition reachA_instances (rec inside : bool) (root : item) (e : id) : Prop :=
  match root with
  | IE x => instA_elem rec inside x e
  | _ => False
  end.

(* an outer pin leads to its instance; a valid reference to an instance leads to that instance,
   any other valid reference to what its item leads to *)
Definition reachB_instances (rec inside : bool) (root : item) (e : id) : Prop :=
  match root with
  | IE x => instB_elem rec inside x e
  | IO n _ => e = n
  | IDet => False
  | IH h => exists x, href_to h x /\
                      (if kind_is s x KInstance then e = x else instB_elem rec inside x e)
  end.

(* ---- get_ports ---- *)

(* first stage: the ports of the definitions in scope, or of the definition an instance instantiates *)
Definition portsA_elem (x e : id) : Prop :=
  exists d, (scope_defs x d \/ iref s x = Some d) /\ par s RPorts e = Some d.

(* name-map stage: a port itself; the port of an inner pin; the ports of the pins attached to a
   wire (through outer pins too) / to the wires of a cable *)
Definition portsB_elem (x e : id) : Prop :=
  match kind_of s x with
  | Some KPort => e = x
  | Some KPin => par s RPins x = Some e
  | Some KWire => exists i, on_wire x i /\ par s RPins i = Some e
  | Some KCable => exists w i, par s RWires w = Some x /\ on_wire w i /\ par s RPins i = Some e
  | _ => False
  end.

Definition reachA_ports (root : item) (e : id) : Prop := exists x, item_elem root x /\ portsA_elem x e.
Definition reachB_ports (root : item) (e : id) : Prop := exists x, item_elem root x /\ portsB_elem x e.

(* ---- get_netlists ---- *)

(* the netlist an element belongs to; an INSTANCE leads to the netlist of the definition it
   instantiates (not of the definition it sits in) *)
Definition netl_elem (x n : id) : Prop :=
  match kind_of s x with
  | Some KNetlist => n = x
  | Some KLibrary => par s RLibs x = Some n
  | Some KDefinition => def_netlist x n
  | Some KInstance => exists d, iref s x = Some d /\ def_netlist d n
  | Some KPort | Some KCable | Some KPin | Some KWire => exists d, home x d /\ def_netlist d n
  | None => False
  end.

Definition reach_netlists (root : item) (n : id) : Prop := exists x, item_elem root x /\ netl_elem x n.

(* ---- get_pins ---- *)

(* the pin objects a root stands for *)
Definition pins_elem (x : id) (q : pin) : Prop :=
  match kind_of s x with
  | Some KDefinition | Some KLibrary | Some KNetlist =>
      exists d p i, scope_defs x d /\ par s RPorts p = Some d /\ par s RPins i = Some p /\ q = PIn i
  | Some KInstance => exists i, opin_of x i /\ q = POut x i
  | Some KPort => exists i, par s RPins i = Some x /\ q = PIn i
  | Some KPin => q = PIn x
  | Some KWire => pin_wire s q = Some x
  | Some KCable => exists w, par s RWires w = Some x /\ pin_wire s q = Some w
  | None => False
  end.

Definition pins_item (root : item) (q : pin) : Prop :=
  match root with
  | IE x => pins_elem x q
  | IO n i => q = POut n i
  | IDet => q = PDet
  | IH h => exists x, href_to h x /\
              (if kind_is s x KPin then exists p n rest, h = x :: p :: n :: rest /\ q = POut n x
               else pins_elem x q)
  end.

(* INSIDE: the inner pin behind the pin object; OUTSIDE: the outer pin itself, and for an inner pin
   its outer pins on every instance of its definition *)
Definition pin_side (inside : bool) (q r : pin) : Prop :=
  if inside then exists i, inner_of q = Some i /\ r = PIn i
  else match q with
       | PIn i => exists n, opin_of n i /\ r = POut n i
       | _ => r = q
       end.

Definition reach_pins (inside : bool) (root : item) (r : pin) : Prop :=
  exists q, pins_item root q /\ pin_side inside q r.

(* ---- get_definitions ---- *)

(* the element a root item stands for in get_definitions / get_libraries: an outer pin stands for
   its instance *)
Definition item_owner (it : item) (x : id) : Prop :=
  match it with
  | IE y => x = y
  | IO n _ => x = n
  | IDet => False
  | IH h => href_to h x
  end.

(* the libraries a library / netlist root stands for *)
Definition lib_scope (x l : id) : Prop :=
  match kind_of s x with
  | Some KLibrary => l = x
  | Some KNetlist => par s RLibs l = Some x
  | _ => False
  end.

(* first stage: from a library / netlist, INSIDE: the definitions of the libraries in scope *)
Definition reachA_definitions (inside : bool) (root : item) (e : id) : Prop :=
  exists x, item_owner root x /\ inside = true /\ exists l, lib_scope x l /\ par s RDefs e = Some l.

(* INSIDE follows "instantiates", OUTSIDE follows "is instantiated by" *)
Definition dir_uses (inside : bool) : id -> id -> Prop := if inside then uses else used_by.

(* name-map stage:
   - definition: the definitions it instantiates / is instantiated by (recursive: transitively);
   - library / netlist: the same from every definition in scope - except INSIDE without recursive,
     where only the first stage answers;
   - instance: the definition it instantiates (INSIDE) / sits in (OUTSIDE); recursive: also
     everything that definition leads to;
   - port / cable / inner pin / wire: the definition it belongs to *)
Definition defsB_elem (rec inside : bool) (x e : id) : Prop :=
  match kind_of s x with
  | Some KDefinition => plus (dir_uses inside) rec x e
  | Some KLibrary | Some KNetlist =>
      (inside = false \/ rec = true) /\ exists d, scope_defs x d /\ plus (dir_uses inside) rec d e
  | Some KInstance =>
      exists d0, (if inside then iref s x = Some d0 else par s RChildren x = Some d0) /\
                 star (dir_uses inside) rec d0 e
  | Some KPort | Some KCable | Some KPin | Some KWire => home x e
  | None => False
  end.

Definition reachB_definitions (rec inside : bool) (root : item) (e : id) : Prop :=
  exists x, item_owner root x /\ defsB_elem rec inside x e.

(* ---- get_libraries ---- *)

(* first stage: from a netlist, its libraries *)
Definition reachA_libraries (root : item) (e : id) : Prop :=
  exists x, item_owner root x /\ kind_of s x = Some KNetlist /\ par s RLibs e = Some x.

(* library l holds a definition that instantiates (INSIDE) / is instantiated by (OUTSIDE) a definition
   of library l' *)
Definition lib_rel (inside : bool) (l l' : id) : Prop :=
  exists d d', par s RDefs d = Some l /\ dir_uses inside d d' /\ par s RDefs d' = Some l'.

(* the libraries a definition leads to: INSIDE its own library and (recursive) the libraries of
   everything it instantiates; OUTSIDE the libraries of the definitions that instantiate it *)
Definition libs_of_def (rec inside : bool) (d e : id) : Prop :=
  exists d', (if inside then star uses rec d d' else plus used_by rec d d') /\ par s RDefs d' = Some e.

(* name-map stage:
   - library: the libraries it uses / is used by (recursive: transitively);
   - definition: see libs_of_def;
   - instance: INSIDE what the definition it instantiates leads to (its library included);
     OUTSIDE the library of the definition it sits in, and (recursive) of everything above it;
   - port / cable / inner pin / wire: what the definition it belongs to leads to *)
Definition libsB_elem (rec inside : bool) (x e : id) : Prop :=
  match kind_of s x with
  | Some KLibrary => plus (lib_rel inside) rec x e
  | Some KDefinition => libs_of_def rec inside x e
  | Some KInstance =>
      if inside then exists d0, iref s x = Some d0 /\ libs_of_def rec true d0 e
      else exists p d', par s RChildren x = Some p /\ star used_by rec p d' /\ par s RDefs d' = Some e
  | Some KPort | Some KCable | Some KPin | Some KWire => exists d, home x d /\ libs_of_def rec inside d e
  | Some KNetlist | None => False
  end.

Definition reachB_libraries (rec inside : bool) (root : item) (e : id) : Prop :=
  exists x, item_owner root x /\ libsB_elem rec inside x e.

(* ---- get_cables (selections INSIDE, OUTSIDE, BOTH; ALL = cross-hierarchy closure is not specified here) ---- *)

(* the wire on the inner / outer side of a pin object: for an inner pin the outer side is on every
   instance of its definition *)
Definition inner_wire (q : pin) (w : id) : Prop :=
  exists i, inner_of q = Some i /\ ipwire s i = Some w.
Definition outer_wire (q : pin) (w : id) : Prop :=
  match q with
  | PIn i => exists n, opin_of n i /\ pin_wire s (POut n i) = Some w
  | POut _ _ => pin_wire s q = Some w
  | PDet => False
  end.
Definition pin_wires (x : sel) (q : pin) (w : id) : Prop :=
  (sel_in x = true /\ inner_wire q w) \/ (sel_out x = true /\ outer_wire q w).
Definition pin_cables (x : sel) (q : pin) (c : id) : Prop :=
  exists w, pin_wires x q w /\ par s RWires w = Some c.

(* OUTSIDE from a wire: across each of its pins *)
Definition other_side (q : pin) (c : id) : Prop :=
  match q with
  | POut _ _ => pin_cables SInside q c
  | PIn _ => pin_cables SOutside q c
  | PDet => False
  end.
Definition wire_cables (x : sel) (w c : id) : Prop :=
  match x with
  | SInside => par s RWires w = Some c
  | SOutside => exists q, pin_wire s q = Some w /\ other_side q c
  | _ => exists q, pin_wire s q = Some w /\ pin_cables x q c
  end.

Definition reachA_cables (x : sel) (root : item) (e : id) : Prop :=
  match root with
  | IE r => sel_ia x = true /\ exists d, scope_defs r d /\ par s RCables e = Some d
  | _ => False
  end.

Definition cablesB_elem (rec : bool) (x : sel) (r e : id) : Prop :=
  match kind_of s r with
  | Some KDefinition | Some KLibrary | Some KNetlist =>
      (x = SInside /\ rec = true /\ exists d d', scope_defs r d /\ clos_trans id uses d d' /\ par s RCables e = Some d') \/
      (sel_out x = true /\ exists d p i, scope_defs r d /\ par s RPorts p = Some d /\ par s RPins i = Some p /\ pin_cables x (PIn i) e)
  | Some KInstance =>
      (x = SInside /\ exists d0 d', iref s r = Some d0 /\ star uses rec d0 d' /\ par s RCables e = Some d') \/
      (sel_out x = true /\ exists i, opin_of r i /\ pin_cables x (POut r i) e)
  | Some KPort => exists i, par s RPins i = Some r /\ pin_cables x (PIn i) e
  | Some KPin => pin_cables x (PIn r) e
  | Some KWire => wire_cables x r e
  | Some KCable => match x with SInside => e = r | _ => exists w, par s RWires w = Some r /\ wire_cables x w e end
  | None => False
  end.

Definition reachB_cables (rec : bool) (x : sel) (root : item) (e : id) : Prop :=
  match root with
  | IE r => cablesB_elem rec x r e
  | IO n i => pin_cables x (POut n i) e
  | IDet => False
  | IH h => exists r, href_to h r /\ cablesB_elem rec x r e
  end.

(* ---- get_wires (selections INSIDE, OUTSIDE, BOTH) ---- *)

(* wire w belongs to (a cable of) definition d *)
Definition wire_in_def (w d : id) : Prop := exists c, par s RWires w = Some c /\ par s RCables c = Some d.

(* OUTSIDE from wire r: the wire on the other side of one of its pins - for an inner pin, on the
   instances of the wire's own definition that carry the pin *)
Definition across (r : id) (q : pin) (w : id) : Prop :=
  match q with
  | POut _ i => ipwire s i = Some w
  | PIn i => exists n d, wire_in_def r d /\ iref s n = Some d /\ opin_of n i /\ pin_wire s (POut n i) = Some w
  | PDet => False
  end.

Definition wire_yield (x : sel) (r w : id) : Prop :=
  match x with
  | SInside => w = r
  | SOutside => exists q, pin_wire s q = Some r /\ across r q w
  | _ => False
  end.

(* the wires yielded by the first loop: INSIDE, the wires inside the definitions the root stands for
   (recursive: and inside everything they instantiate); a wire / the wires of a cable by themselves *)
Definition wiresY_elem (rec : bool) (x : sel) (r w : id) : Prop :=
  match kind_of s r with
  | Some KDefinition | Some KLibrary | Some KNetlist =>
      x = SInside /\ exists d d', scope_defs r d /\ star uses rec d d' /\ wire_in_def w d'
  | Some KInstance => x = SInside /\ exists d0 d', iref s r = Some d0 /\ star uses rec d0 d' /\ wire_in_def w d'
  | Some KWire => wire_yield x r w
  | Some KCable => exists w0, par s RWires w0 = Some r /\ wire_yield x w0 w
  | _ => False
  end.

(* the pins collected for the second loop *)
Definition wiresP_elem (x : sel) (r : id) (q : pin) : Prop :=
  match kind_of s r with
  | Some KDefinition | Some KLibrary | Some KNetlist =>
      sel_out x = true /\ exists d p i, scope_defs r d /\ par s RPorts p = Some d /\ par s RPins i = Some p /\ q = PIn i
  | Some KInstance =>
      sel_out x = true /\ exists d p i, iref s r = Some d /\ par s RPorts p = Some d /\ par s RPins i = Some p /\ q = PIn i
  | Some KPort => exists i, par s RPins i = Some r /\ q = PIn i
  | Some KPin => q = PIn r
  | Some KWire => x = SBoth /\ pin_wire s q = Some r
  | Some KCable => x = SBoth /\ exists w0, par s RWires w0 = Some r /\ pin_wire s q = Some w0
  | None => False
  end.

Definition wiresY_item (rec : bool) (x : sel) (root : item) (w : id) : Prop :=
  match root with
  | IE r => wiresY_elem rec x r w
  | IH h => exists r, href_to h r /\ wiresY_elem rec x r w
  | _ => False
  end.
Definition wiresP_item (x : sel) (root : item) (q : pin) : Prop :=
  match root with
  | IE r => wiresP_elem x r q
  | IO n i => q = POut n i
  | IDet => q = PDet
  | IH h => exists r, href_to h r /\ wiresP_elem x r q
  end.

(* second loop: the wires on the selected side(s) of every collected pin *)
Definition reach_wires (rec : bool) (x : sel) (root : item) (w : id) : Prop :=
  wiresY_item rec x root w \/ exists q, wiresP_item x root q /\ pin_wires x q w.

End Spec.
