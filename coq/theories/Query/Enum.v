(* Query/Enum.v - the CANDIDATE ENUMERATION of the non-hierarchical query functions
   spydrnet/util/get_{instances,definitions,libraries,ports,netlists,pins,cables,wires}.py over the
   heap model of IR/State.v, and the whole queries (enumeration, then the filter stages of
   Query/Filter.v).

   Every function is the same loop

       while object_collection:
           obj = object_collection.pop()
           <dispatch on the class of obj, on selection and on recursive>

   whose body appends to object_collection, records a parent for the first filter stage, collects
   an "other" element for the name-map stage, or yields. The model keeps that shape:

   * [item]: what object_collection can hold - an element (by id; its class is kind_of), an outer
     pin (a value), a detached outer pin, a hierarchical reference;
   * [act]: the effect of one statement of the dispatch, in source order:
       APush y          object_collection.append(y)       ("+= l" is one APush per member, in order)
       AOut o           record / yield o
       AMark c os ys    "if c not in <set>: <set>.add(c); <record os>; <append ys>"
   * [wl]: the loop. The stack is a list whose HEAD is the END of the Python list (pop() takes the
     head, append conses). It takes explicit fuel (one unit per pop; None = out of fuel): the
     recursive settings have no visited set, they terminate only because the hierarchy is acyclic.
   * Python sets are lists in insertion order; iteration over a set is modelled in list order and
     the theorems speak about membership and duplicates only.
   * [bad]: the items at which the code raises (instance.pins[pin] for a pin the instance does not
     carry, .wire of a detached pin): the whole call fails, result WErr. Excluded by the invariant.

   No proofs in this file. *)
From Coq Require Import List Arith NArith Bool.
From SV Require Import Base.Base IR.State IR.NS Hier.Paths Hier.Enum Hier.Trace
  Query.Glob Query.Patterns Query.Filter.
Import ListNotations.

Inductive item := IE (x : id) | IO (n i : id) | IDet | IH (h : href).

Definition item_of_pin (p : pin) : item :=
  match p with PIn i => IE i | POut n i => IO n i | PDet => IDet end.

Inductive wres (A : Type) := WOk (a : A) | WFuel | WErr.
Arguments WOk {A} a.
Arguments WFuel {A}.
Arguments WErr {A}.

(* ------------------------------------------------------------------------------------------ *)
(* the loop *)

Section WL.
Context {T : Type}.

Inductive act := APush (y : item) | AOut (o : T) | AMark (c : id) (os : list T) (ys : list item).

(* marks: the visited set (insertion order, newest first); outs: what was recorded / yielded,
   newest first *)
Record wst := mkW { w_marks : list id; w_outs : list T }.

Variable acts : item -> list act.
Variable bad : item -> bool.

Fixpoint run_acts (al : list act) (stack : list item) (st : wst) : list item * wst :=
  match al with
  | [] => (stack, st)
  | APush y :: al' => run_acts al' (y :: stack) st
  | AOut o :: al' => run_acts al' stack (mkW (w_marks st) (o :: w_outs st))
  | AMark c os ys :: al' =>
      if memb c (w_marks st) then run_acts al' stack st
      else run_acts al' (rev ys ++ stack) (mkW (c :: w_marks st) (rev os ++ w_outs st))
  end.

Fixpoint wl (fuel : nat) (stack : list item) (st : wst) : wres wst :=
  match stack with
  | [] => WOk st
  | x :: rest =>
      match fuel with
      | O => WFuel
      | S f => if bad x then WErr
               else let '(stack', st') := run_acts (acts x) rest st in wl f stack' st'
      end
  end.

(* object_collection = list(roots): pop() takes the LAST root first; result in recording order *)
Definition wl_run (fuel : nat) (roots : list item) : wres (list T) :=
  match wl fuel (rev roots) (mkW [] []) with
  | WOk st => WOk (rev (w_outs st))
  | WFuel => WFuel
  | WErr => WErr
  end.
End WL.

Arguments act T : clear implicits.
Arguments wst T : clear implicits.

Definition no_bad (x : item) : bool := false.

(* ------------------------------------------------------------------------------------------ *)
(* helpers shared by the dispatch tables *)

(* what the two-stage queries record: a parent for the first stage, an element for the second *)
Inductive qout := OPar (p : id) | OOth (e : id).

Definition pars (l : list qout) : list id :=
  flat_map (fun o => match o with OPar p => [p] | OOth _ => [] end) l.
Definition oths (l : list qout) : list id :=
  flat_map (fun o => match o with OOth e => [e] | OPar _ => [] end) l.

Definition push_ids {T} (l : list id) : list (act T) := map (fun x => APush (IE x)) l.
Definition push_pins {T} (l : list pin) : list (act T) := map (fun p => APush (item_of_pin p)) l.
Definition oth_ids (l : list id) : list (act qout) := map (fun x => AOut (OOth x)) l.
Definition push_opt {T} (o : option id) : list (act T) :=
  match o with Some x => [APush (IE x)] | None => [] end.

(* a set built by "if x not in S: S.add(x)": first occurrences, in order *)
Fixpoint dedup_acc (seen l : list id) : list id :=
  match l with
  | [] => []
  | x :: l' => if memb x seen then dedup_acc seen l' else x :: dedup_acc (x :: seen) l'
  end.
Definition dedup (l : list id) : list id := dedup_acc [] l.

(* Definition.is_leaf *)
Definition is_leaf (s : state) (d : id) : bool :=
  match kids s RChildren d, kids s RCables d with [], [] => true | _, _ => false end.

(* "if obj.is_valid: ... obj.item" *)
Definition href_item (s : state) (h : href) : option id :=
  if is_valid s h then hd_error h else None.

(* the outer pins of an instance, in the order of Instance._pins *)
Definition opins (s : state) (n : id) : list item := map (fun kv => IO n (fst kv)) (ipins s n).

(* ------------------------------------------------------------------------------------------ *)
(* get_instances.py :: _get_instances_raw *)

Definition acts_instances (s : state) (rec inside : bool) (x : item) : list (act qout) :=
  match x with
  | IE x =>
      match kind_of s x with
      | Some KDefinition =>
          if inside then
            AOut (OPar x) ::
            (if rec then
               flat_map (fun c => match iref s c with
                                  | Some r => if is_leaf s r then [] else [APush (IE r)]
                                  | None => []
                                  end) (kids s RChildren x)
             else [])
          else
            oth_ids (drefs s x) ++
            (if rec then
               flat_map (fun i => match par s RChildren i with
                                  | Some p => [APush (IE p)]
                                  | None => [AOut (OOth i)]
                                  end) (drefs s x)
             else [])
      | Some KNetlist => flat_map (fun l => push_ids (kids s RDefs l)) (kids s RLibs x)
      | Some KLibrary => push_ids (kids s RDefs x)
      | Some KInstance =>
          if inside then
            match iref s x with
            | Some r => oth_ids (kids s RChildren r) ++ (if rec then push_ids (kids s RChildren r) else [])
            | None => []
            end
          else
            match par s RChildren x with
            | Some p => oth_ids (drefs s p) ++ (if rec then push_ids (drefs s p) else [])
            | None => []
            end
      | Some KPort => match par s RPorts x with Some d => oth_ids (drefs s d) | None => [] end
      | Some KCable => match par s RCables x with Some d => oth_ids (drefs s d) | None => [] end
      | Some KPin => push_opt (par s RPins x)
      | Some KWire => push_opt (par s RWires x)
      | None => []
      end
  | IO n _ => [AOut (OOth n)]
  | IDet => []
  | IH h =>
      match href_item s h with
      | Some x => match kind_of s x with
                  | Some KInstance => [AOut (OOth x)]
                  | _ => [APush (IE x)]
                  end
      | None => []
      end
  end.

(* ------------------------------------------------------------------------------------------ *)
(* get_definitions.py :: _get_definitions_raw   (other_definitions is the set of marks) *)

Definition mark_def (rec : bool) (d : id) (ys : list item) : act qout :=
  AMark d [OOth d] (if rec then ys else []).

Definition acts_definitions (s : state) (rec inside : bool) (x : item) : list (act qout) :=
  match x with
  | IE x =>
      match kind_of s x with
      | Some KLibrary =>
          if inside then AOut (OPar x) :: (if rec then push_ids (kids s RDefs x) else [])
          else push_ids (kids s RDefs x)
      | Some KNetlist => push_ids (kids s RLibs x)
      | Some KDefinition =>
          if inside then
            flat_map (fun c => match iref s c with
                               | Some r => [mark_def rec r [IE r]]
                               | None => []
                               end) (kids s RChildren x)
          else
            flat_map (fun i => match par s RChildren i with
                               | Some p => [mark_def rec p [IE p]]
                               | None => []
                               end) (drefs s x)
      | Some KInstance =>
          if inside then
            match iref s x with
            | Some r => [mark_def rec r (map IE (kids s RChildren r))]
            | None => []
            end
          else
            match par s RChildren x with
            | Some p => [mark_def rec p [IE p]]
            | None => []
            end
      | Some KPort => match par s RPorts x with Some d => [mark_def false d []] | None => [] end
      | Some KCable => match par s RCables x with Some d => [mark_def false d []] | None => [] end
      | Some KPin => push_opt (par s RPins x)
      | Some KWire => push_opt (par s RWires x)
      | None => []
      end
  | IO n _ => [APush (IE n)]
  | IDet => []
  | IH h => push_opt (href_item s h)
  end.

(* ------------------------------------------------------------------------------------------ *)
(* get_libraries.py :: _get_libraries_raw   (other_libraries is the set of marks) *)

Definition mark_lib_of (s : state) (rec : bool) (d : id) : list (act qout) :=
  match par s RDefs d with
  | Some l => [AMark l [OOth l] (if rec then [IE l] else [])]
  | None => []
  end.

Definition acts_libraries (s : state) (rec inside : bool) (x : item) : list (act qout) :=
  match x with
  | IE x =>
      match kind_of s x with
      | Some KNetlist => [AOut (OPar x)]
      | Some KLibrary =>
          if inside then
            flat_map (fun d =>
              flat_map (fun c => match iref s c with
                                 | Some r => mark_lib_of s rec r
                                 | None => []
                                 end) (kids s RChildren d)) (kids s RDefs x)
          else
            flat_map (fun d =>
              flat_map (fun i => match par s RChildren i with
                                 | Some p => mark_lib_of s rec p
                                 | None => []
                                 end) (drefs s d)) (kids s RDefs x)
      | Some KDefinition =>
          if inside then
            mark_lib_of s false x ++ (if rec then push_ids (kids s RChildren x) else [])
          else
            flat_map (fun i => match par s RChildren i with
                               | Some p => mark_lib_of s false p ++ (if rec then [APush (IE p)] else [])
                               | None => []
                               end) (drefs s x)
      | Some KInstance =>
          if inside then
            match iref s x with
            | Some r => mark_lib_of s false r ++ (if rec then push_ids (kids s RChildren r) else [])
            | None => []
            end
          else
            (* "if recursive: object_collection.append(parent)" (repaired: was "+= parent", which
               iterated the keys of the definition's dictionary and pushed nothing useful) *)
            match par s RChildren x with
            | Some p => mark_lib_of s false p ++ (if rec then [APush (IE p)] else [])
            | None => []
            end
      | Some KPort => push_opt (par s RPorts x)
      | Some KCable => push_opt (par s RCables x)
      | Some KPin => push_opt (par s RPins x)
      | Some KWire => push_opt (par s RWires x)
      | None => []
      end
  | IO n _ => [APush (IE n)]
  | IDet => []
  | IH h => push_opt (href_item s h)
  end.

(* ------------------------------------------------------------------------------------------ *)
(* get_ports.py :: _get_ports_raw   (other_ports is a set) *)

Definition acts_ports (s : state) (x : item) : list (act qout) :=
  match x with
  | IE x =>
      match kind_of s x with
      | Some KDefinition => [AOut (OPar x)]
      | Some KNetlist => flat_map (fun l => push_ids (kids s RDefs l)) (kids s RLibs x)
      | Some KLibrary => push_ids (kids s RDefs x)
      | Some KInstance => push_opt (iref s x)
      | Some KPort => [AOut (OOth x)]
      | Some KPin => match par s RPins x with Some p => [AOut (OOth p)] | None => [] end
      | Some KWire => push_pins (wpins s x)
      | Some KCable => push_ids (kids s RWires x)
      | None => []
      end
  | IO _ i => [APush (IE i)]
  | IDet => []
  | IH h => push_opt (href_item s h)
  end.

(* ------------------------------------------------------------------------------------------ *)
(* get_netlists.py :: _get_netlists_raw *)

Definition acts_netlists (s : state) (x : item) : list (act id) :=
  match x with
  | IE x =>
      match kind_of s x with
      | Some KNetlist => [AOut x]
      | Some KLibrary => push_opt (par s RLibs x)
      | Some KDefinition => push_opt (par s RDefs x)
      | Some KInstance => push_opt (iref s x)
      | Some KPort => push_opt (par s RPorts x)
      | Some KPin => push_opt (par s RPins x)
      | Some KCable => push_opt (par s RCables x)
      | Some KWire => push_opt (par s RWires x)
      | None => []
      end
  | IO _ i => [APush (IE i)]
  | IDet => []
  | IH h => push_opt (href_item s h)
  end.

(* ------------------------------------------------------------------------------------------ *)
(* get_pins.py :: _get_ports_raw (sic)   yields pins; "found" suppresses repeats at yield time *)

Definition pin_stored_in (s : state) (n i : id) : bool :=
  match assoc i (ipins s n) with Some _ => true | None => false end.

(* the outer pins  instance.pins[pin]  for instance in definition.references *)
Definition outer_of (s : state) (i : id) : list id :=
  match par s RPins i with
  | Some p => match par s RPorts p with Some d => drefs s d | None => [] end
  | None => []
  end.

Definition acts_pins (s : state) (inside : bool) (x : item) : list (act pin) :=
  match x with
  | IE x =>
      match kind_of s x with
      | Some KDefinition => flat_map (fun p => push_ids (kids s RPins p)) (kids s RPorts x)
      | Some KNetlist => flat_map (fun l => push_ids (kids s RDefs l)) (kids s RLibs x)
      | Some KLibrary => push_ids (kids s RDefs x)
      | Some KInstance => map APush (opins s x)
      | Some KPort => push_ids (kids s RPins x)
      | Some KPin => if inside then [AOut (PIn x)] else map (fun n => AOut (POut n x)) (outer_of s x)
      | Some KWire => push_pins (wpins s x)
      | Some KCable => push_ids (kids s RWires x)
      | None => []
      end
  | IO n i => if inside then [AOut (PIn i)] else [AOut (POut n i)]
  | IDet => if inside then [] else [AOut PDet]
  | IH h =>
      match href_item s h with
      | Some x =>
          match kind_of s x, inside, h with
          | Some KPin, false, _ :: _ :: n :: _ => [AOut (POut n x)]
          | _, _, _ => [APush (IE x)]
          end
      | None => []
      end
  end.

Definition bad_pins (s : state) (inside : bool) (x : item) : bool :=
  match x with
  | IE x =>
      match kind_of s x with
      | Some KPin => negb inside && negb (forallb (fun n => pin_stored_in s n x) (outer_of s x))
      | _ => false
      end
  | IH h =>
      match href_item s h with
      | Some x =>
          match kind_of s x, inside, h with
          | Some KPin, false, _ :: _ :: n :: _ => negb (pin_stored_in s n x)
          | _, _, _ => false
          end
      | None => false
      end
  | _ => false
  end.

Fixpoint dedup_pins_acc (seen l : list pin) : list pin :=
  match l with
  | [] => []
  | p :: l' => if pin_memb p seen then dedup_pins_acc seen l' else p :: dedup_pins_acc (p :: seen) l'
  end.

(* ------------------------------------------------------------------------------------------ *)
(* get_cables.py :: _get_cables_raw   (searched_wires is the set of marks, other_cables a set) *)

Definition sel_ia (x : sel) : bool := match x with SInside | SAll => true | _ => false end.   (* INSIDE, ALL *)

(* "if wire and wire not in searched_wires: searched_wires.add(wire); cable = wire.cable;
    if cable: other_cables.add(cable); if selection == ALL: object_collection += wire.pins" *)
Definition search_wire (s : state) (x : sel) (ow : option id) : list (act qout) :=
  match ow with
  | Some w => [AMark w (match par s RWires w with Some c => [OOth c] | None => [] end)
                       (if sel_all x then map item_of_pin (wpins s w) else [])]
  | None => []
  end.

Definition acts_cables (s : state) (rec : bool) (x : sel) (it : item) : list (act qout) :=
  match it with
  | IE e =>
      match kind_of s e with
      | Some KDefinition =>
          (if sel_ia x then
             AOut (OPar e) :: (if rec || sel_all x then push_ids (kids s RChildren e) else [])
           else []) ++
          (if sel_out x then flat_map (fun p => push_ids (kids s RPins p)) (kids s RPorts e) else [])
      | Some KLibrary => push_ids (kids s RDefs e)
      | Some KNetlist => flat_map (fun l => push_ids (kids s RDefs l)) (kids s RLibs e)
      | Some KInstance =>
          (if sel_ia x then
             match iref s e with
             | Some r => oth_ids (kids s RCables r) ++
                         (if rec || sel_all x then push_ids (kids s RChildren r) else [])
             | None => []
             end
           else []) ++
          (if sel_out x then map APush (opins s e) else [])
      | Some KPin =>
          (if sel_in x then search_wire s x (ipwire s e) else []) ++
          (if sel_out x then flat_map (fun n => search_wire s x (pin_wire s (POut n e))) (outer_of s e) else [])
      | Some KPort => push_ids (kids s RPins e)
      | Some KWire =>
          match x with
          | SInside => match par s RWires e with Some c => [AOut (OOth c)] | None => [] end
          | SOutside =>
              flat_map (fun p => match p with
                                 | POut _ i => match ipwire s i with
                                               | Some w => match par s RWires w with Some c => [AOut (OOth c)] | None => [] end
                                               | None => []
                                               end
                                 | PIn i => [APush (IE i)]
                                 | PDet => []
                                 end) (wpins s e)
          | _ => push_pins (wpins s e)
          end
      | Some KCable =>
          match x with
          | SInside => [AOut (OOth e)]
          | _ => push_ids (kids s RWires e)
          end
      | None => []
      end
  | IO n i =>
      (if sel_in x then search_wire s x (ipwire s i) else []) ++
      (if sel_out x then search_wire s x (pin_wire s (POut n i)) else [])
  | IDet => []
  | IH h => push_opt (href_item s h)
  end.

Definition has_det (l : list pin) : bool := existsb (fun p => match p with PDet => true | _ => false end) l.

Definition bad_cables (s : state) (x : sel) (it : item) : bool :=
  match it with
  | IE e =>
      match kind_of s e with
      | Some KPin => sel_out x && negb (forallb (fun n => pin_stored_in s n e) (outer_of s e))
      | Some KWire => match x with SOutside => has_det (wpins s e) | _ => false end
      | _ => false
      end
  | _ => false
  end.

(* ------------------------------------------------------------------------------------------ *)
(* get_wires.py :: _get_wires_raw   first loop: yields wires and collects pin_search *)

Inductive wout := WY (w : id) | WP (p : pin).

Definition yielded (l : list wout) : list id :=
  flat_map (fun o => match o with WY w => [w] | WP _ => [] end) l.
Definition searched (l : list wout) : list pin :=
  flat_map (fun o => match o with WP p => [p] | WY _ => [] end) l.

Definition opt_wire (o : option id) : list id := match o with Some w => [w] | None => [] end.

(* the wires on the other side of an inner pin: instance.pins[pin].wire for the instances of its
   definition *)
Definition outer_wires (s : state) (refs : list id) (i : id) : list id :=
  flat_map (fun n => opt_wire (pin_wire s (POut n i))) refs.

Definition acts_wires (s : state) (rec : bool) (x : sel) (it : item) : list (act wout) :=
  match it with
  | IE e =>
      match kind_of s e with
      | Some KNetlist => push_ids (kids s RLibs e)
      | Some KLibrary => push_ids (kids s RDefs e)
      | Some KDefinition =>
          (if sel_ia x then
             map (fun w => AOut (WY w)) (flat_map (fun c => kids s RWires c) (kids s RCables e)) ++
             (if rec || sel_all x then push_ids (kids s RChildren e) else [])
           else []) ++
          (if sel_out x then
             map (fun i => AOut (WP (PIn i))) (flat_map (fun p => kids s RPins p) (kids s RPorts e))
           else [])
      | Some KInstance => push_opt (iref s e)
      | Some KPort => map (fun i => AOut (WP (PIn i))) (kids s RPins e)
      | Some KCable => push_ids (kids s RWires e)
      | Some KWire =>
          match x with
          | SInside => [AOut (WY e)]
          | SOutside =>
              flat_map (fun p =>
                match p with
                | POut _ i => map (fun w => AOut (WY w)) (opt_wire (ipwire s i))
                | PIn i =>
                    match par s RWires e with
                    | Some c => match par s RCables c with
                                | Some d => map (fun w => AOut (WY w))
                                                (outer_wires s (filter (fun n => pin_stored_in s n i) (drefs s d)) i)
                                | None => []
                                end
                    | None => []
                    end
                | PDet => []
                end) (wpins s e)
          | _ => map (fun p => AOut (WP p)) (wpins s e)
          end
      | Some KPin => [AOut (WP (PIn e))]
      | None => []
      end
  | IO n i => [AOut (WP (POut n i))]
  | IDet => [AOut (WP PDet)]
  | IH h => push_opt (href_item s h)
  end.

Definition bad_wires (s : state) (x : sel) (it : item) : bool :=
  match it with
  | IE e =>
      match kind_of s e with
      | Some KWire => match x with SOutside => has_det (wpins s e) | _ => false end
      | _ => false
      end
  | _ => false
  end.

(* second loop: "while pin_search: ... pin_search = new_pin_search" *)

(* the wires looked at for one pin, in source order *)
Definition pin_cands (s : state) (x : sel) (p : pin) : list id :=
  match x with
  | SBoth | SAll =>
      opt_wire (pin_wire s p) ++
      match p with
      | POut _ i => opt_wire (ipwire s i)
      | PIn i => outer_wires s (outer_of s i) i
      | PDet => []
      end
  | SInside =>
      match p with
      | POut _ i => opt_wire (ipwire s i)
      | PIn i => opt_wire (ipwire s i)
      | PDet => []
      end
  | SOutside =>
      match p with
      | POut _ _ => opt_wire (pin_wire s p)
      | PIn i => outer_wires s (outer_of s i) i
      | PDet => []
      end
  end.

(* instance.pins[pin] raises for an inner pin some instance of its definition does not carry *)
Definition bad_search (s : state) (x : sel) (p : pin) : bool :=
  match p with
  | PIn i => sel_out x && negb (forallb (fun n => pin_stored_in s n i) (outer_of s i))
  | _ => false
  end.

(* (in_yield, yields of this call newest first, new_pin_search) *)
Fixpoint look (s : state) (x : sel) (ws : list id) (st : list id * list id * list pin)
  : list id * list id * list pin :=
  match ws with
  | [] => st
  | w :: ws' =>
      let '(iny, ys, news) := st in
      if memb w iny then look s x ws' st
      else look s x ws' (w :: iny, w :: ys, if sel_all x then news ++ wpins s w else news)
  end.

Fixpoint rounds (s : state) (x : sel) (fuel : nat) (pins : list pin) (iny ys : list id) : wres (list id) :=
  match pins with
  | [] => WOk (rev ys)
  | _ =>
      match fuel with
      | O => WFuel
      | S f =>
          if existsb (bad_search s x) pins then WErr
          else
            let '(iny', ys', news) :=
              fold_left (fun st p => look s x (pin_cands s x p) st) pins (iny, ys, []) in
            rounds s x f (dedup_pins_acc [] news) iny' ys'
      end
  end.

(* ------------------------------------------------------------------------------------------ *)
(* candidates and whole queries *)

Definition wmap {A B} (f : A -> B) (r : wres A) : wres B :=
  match r with WOk a => WOk (f a) | WFuel => WFuel | WErr => WErr end.

(* (parents in processing order, other elements in collection order) *)
Definition split_outs (set_others : bool) (l : list qout) : list id * list id :=
  (pars l, if set_others then dedup (oths l) else oths l).

Definition cands_instances (s : state) (fuel : nat) (roots : list item) (rec inside : bool) :=
  wmap (split_outs false) (wl_run (acts_instances s rec inside) no_bad fuel roots).
Definition cands_definitions (s : state) (fuel : nat) (roots : list item) (rec inside : bool) :=
  wmap (split_outs true) (wl_run (acts_definitions s rec inside) no_bad fuel roots).
Definition cands_libraries (s : state) (fuel : nat) (roots : list item) (rec inside : bool) :=
  wmap (split_outs true) (wl_run (acts_libraries s rec inside) no_bad fuel roots).
Definition cands_ports (s : state) (fuel : nat) (roots : list item) :=
  wmap (split_outs true) (wl_run (acts_ports s) no_bad fuel roots).
Definition cands_netlists (s : state) (fuel : nat) (roots : list item) : wres (list id) :=
  wl_run (acts_netlists s) no_bad fuel roots.

(* element[key] for string values (absent, or not a string: None) *)
Definition key_of (s : state) (k : str) (e : id) : option str := get_str s e k.

(* patterns._folds_case(element, key): key == "EDIF.identifier" and element[".NS"] == "EDIF" *)
Definition fold_of (s : state) (k : str) (e : id) : bool :=
  str_eqb k str_IDENT && match elem_pol s e with Some PolEdif => true | _ => false end.

(* global_service.lookup(parent, <class>, key, value), a list: the namespace manager's lookup when one
   is registered for the key (it registers .NAME and EDIF.identifier) and it does not answer
   NotImplemented, else the linear scan.
   NamespaceManager.lookup answers NotImplemented when the parent has no namespace, and passes on what
   the namespace of the parent answers: DefaultNamespace.lookup indexes .NAME only (NotImplemented for
   any other key), EdifNamespace.lookup never answers NotImplemented *)
Definition registered_key (k : str) : bool := str_eqb k str_NAME || str_eqb k str_IDENT.

Definition ns_indexes (t : nstable) (k : str) : bool :=
  match ns_pol t with PolDefault => str_eqb k str_NAME | PolEdif => true end.

Definition lk_of (s : state) (reg : bool) (k : str) (r : rel) (p : id) : str -> list id :=
  if reg && registered_key k then
    match nstab s p with
    | Some t => if ns_indexes t k then fun v => opt_list (fast_lookup s p (rel_child r) k v)
                else Filter.scan_lookup (key_of s k) (fold_of s k) (kids s r p)
    | None => Filter.scan_lookup (key_of s k) (fold_of s k) (kids s r p)
    end
  else Filter.scan_lookup (key_of s k) (fold_of s k) (kids s r p).

Definition parents_of (s : state) (reg : bool) (k : str) (r : rel) (ps : list id)
  : list ((str -> list id) * list id) :=
  map (fun p => (lk_of s reg k r p, kids s r p)) ps.

(* one query: reg = the fast lookups are registered; k = key; cb = the filter callback *)
Record qopts := mkQ { q_reg : bool; q_case : bool; q_re : bool; q_key : str; q_cb : id -> bool }.

Definition two_stage (s : state) (o : qopts) (nk : bool) (bk : bkind) (r : rel)
           (c : wres (list id * list id)) (pats : list str) : wres (list id) :=
  wmap (fun po => filter (q_cb o)
                    (run_query (q_case o) (q_re o) (key_of s (q_key o)) (fold_of s (q_key o)) nk bk
                               (parents_of s (q_reg o) (q_key o) r (fst po)) (snd po) pats)) c.

Definition query_instances s o fuel roots rec inside pats :=
  two_stage s o true BFound RChildren (cands_instances s fuel roots rec inside) pats.
Definition query_definitions s o fuel roots rec inside pats :=
  two_stage s o false BNames RDefs (cands_definitions s fuel roots rec inside) pats.
Definition query_libraries s o fuel roots rec inside pats :=
  two_stage s o false BFound RLibs (cands_libraries s fuel roots rec inside) pats.
Definition query_ports s o fuel roots pats :=
  two_stage s o false BNames RPorts (cands_ports s fuel roots) pats.
Definition query_netlists (s : state) (o : qopts) fuel roots pats : wres (list id) :=
  wmap (fun objs => filter (q_cb o) (run_netlists (q_case o) (q_re o) (key_of s (q_key o)) (fold_of s (q_key o)) objs pats))
       (cands_netlists s fuel roots).

Definition query_pins (s : state) (cb : pin -> bool) fuel roots (inside : bool) : wres (list pin) :=
  wmap (fun l => filter cb (dedup_pins_acc [] l))
       (wl_run (acts_pins s inside) (bad_pins s inside) fuel roots).

Definition cands_cables (s : state) (fuel : nat) (roots : list item) (rec : bool) (x : sel) :=
  wmap (split_outs true) (wl_run (acts_cables s rec x) (bad_cables s x) fuel roots).
Definition query_cables s o fuel roots rec x pats :=
  two_stage s o false BNames RCables (cands_cables s fuel roots rec x) pats.

Definition query_wires (s : state) (cb : id -> bool) fuel roots (rec : bool) (x : sel) : wres (list id) :=
  match wl_run (acts_wires s rec x) (bad_wires s x) fuel roots with
  | WOk l =>
      let y1 := dedup (yielded l) in
      wmap (fun y2 => filter cb (y1 ++ y2))
           (rounds s x fuel (dedup_pins_acc [] (searched l)) y1 [])
  | WFuel => WFuel
  | WErr => WErr
  end.
