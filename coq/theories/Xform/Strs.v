(* string constants of uniquify.py / flatten.py *)
From Coq Require Import List NArith String.
From SV Require Import Base.Base.
Definition str_uniq : str := s2l "_sdn_unique_".
Definition str_flat : str := s2l "sdn_flat_".
Definition str_cable_ : str := s2l "cable_".
Definition str_instance_ : str := s2l "instance_".
Definition str_slash : str := s2l "/".
