(* Model of the clone() family (spydrnet/ir/*.py: _clone / _clone_rip_and_replace* / _clone_rip).
   Clones are built by writing private fields directly: no add/connect announcements and no
   namespace-table updates, exactly as the code does. Object creation goes through the class
   constructors, so every cloned netlist/library/definition/port/cable/instance gets the create
   callback (an empty namespace table and a '.NS' entry) before its data dictionary is overwritten
   by the deep copy of the original's. Allocation order = construction order of the code. *)
From Coq Require Import List Arith NArith ZArith Bool.
From RecordUpdate Require Import RecordSet.
From SV Require Import Base.Base IR.State IR.NS IR.Ops.
Import ListNotations RecordSetNotations.

Definition memo := list (id * id).
Definition mget (m : memo) (x : id) : option id := assoc x m.
Definition mval (m : memo) (x : id) : bool := existsb (fun p => Nat.eqb (snd p) x) m.

(* X() inside _clone: allocation + create callback of the namespace manager *)
Definition clone_alloc (s : state) (k : kind) : state * id :=
  let '(s0, x) := alloc s k in
  if has_data k then (emit (fst (ns_create s0 x)) (ECreate k x), x) else (s0, x).

Definition copy_data (s : state) (src dst : id) : state := set_data s dst (data s src).
Definition copy_bundle (s : state) (src dst : id) : state :=
  s <| bdownto ::= fun f => upd f dst (bdownto s src) |>
    <| bscalar ::= fun f => upd f dst (bscalar s src) |>
    <| blower ::= fun f => upd f dst (blower s src) |>
    <| pdir ::= fun f => upd f dst (pdir s src) |>.

Definition SM := (state * memo)%type.

Fixpoint clone_each (f : SM -> id -> SM * id) (l : list id) (sm : SM) : SM * list id :=
  match l with
  | [] => (sm, [])
  | x :: l' =>
      let '(sm1, x') := f sm x in
      let '(sm2, l'') := clone_each f l' sm1 in
      (sm2, x' :: l'')
  end.

(* InnerPin._clone : wire pointer still the old one *)
Definition pin_clone1 (sm : SM) (i : id) : SM * id :=
  let '(s, m) := sm in
  let '(s1, i') := clone_alloc s KPin in
  ((set_ipwire s1 i' (ipwire s1 i), (i, i') :: m), i').

(* Port._clone *)
Definition port_clone1 (sm : SM) (p : id) : SM * id :=
  let '(s, m) := sm in
  let '(s1, p') := clone_alloc s KPort in
  let '((s2, m2), pins') := clone_each pin_clone1 (kids s1 RPins p) (s1, (p, p') :: m) in
  let s3 := set_kids s2 RPins p' pins' in
  let s4 := fold_ids (fun s i' => set_par s RPins i' (Some p')) pins' s3 in
  ((copy_data (copy_bundle s4 p p') p p', m2), p').

(* Wire._clone : pin list still the old pins *)
Definition wire_clone1 (sm : SM) (w : id) : SM * id :=
  let '(s, m) := sm in
  let '(s1, w') := clone_alloc s KWire in
  ((set_wpins s1 w' (wpins s1 w), (w, w') :: m), w').

(* Cable._clone *)
Definition cable_clone1 (sm : SM) (c : id) : SM * id :=
  let '(s, m) := sm in
  let '(s1, c') := clone_alloc s KCable in
  let '((s2, m2), wires') := clone_each wire_clone1 (kids s1 RWires c) (s1, (c, c') :: m) in
  let s3 := set_kids s2 RWires c' wires' in
  let s4 := fold_ids (fun s w' => set_par s RWires w' (Some c')) wires' s3 in
  ((copy_data (copy_bundle s4 c c') c c', m2), c').

(* Instance._clone : outer pins copied with old keys and old wires; is_top_instance not copied *)
Definition inst_clone1 (sm : SM) (x : id) : SM * id :=
  let '(s, m) := sm in
  let '(s1, x') := clone_alloc s KInstance in
  let s2 := set_iref (set_ipins s1 x' (ipins s1 x)) x' (iref s1 x) in
  ((copy_data s2 x x', (x, x') :: m), x').

(* memo[p] for a pin found in a wire's list *)
Definition mpin (s : state) (m : memo) (p : pin) : option pin :=
  match p with
  | PIn i => option_map PIn (mget m i)
  | POut n i =>
      match mget m n, assoc i (ipins s n) with
      | Some n', Some _ => Some (POut n' i)
      | _, _ => None
      end
  | PDet => None
  end.

Fixpoint map_opt {A B} (f : A -> option B) (l : list A) : option (list B) :=
  match l with
  | [] => Some []
  | x :: l' => match f x, map_opt f l' with Some y, Some r => Some (y :: r) | _, _ => None end
  end.

Definition mwire (m : memo) (o : option id) : option (option id) :=
  match o with None => Some None | Some w => option_map Some (mget m w) end.

(* InnerPin._clone_rip_and_replace on all pins of a cloned port *)
Definition port_rr (m : memo) (s : state) (p' : id) : R :=
  fold_idsR (fun s i' =>
    match mwire m (ipwire s i') with
    | Some o => ret (set_ipwire s i' o)
    | None => raise s XAssert
    end) (kids s RPins p') s.

Definition cable_rr (m : memo) (s : state) (c' : id) : R :=
  fold_idsR (fun s w' =>
    match map_opt (mpin s m) (wpins s w') with
    | Some l => ret (set_wpins s w' l)
    | None => raise s XAssert
    end) (kids s RWires c') s.

(* Instance._clone_rip_and_replace_in_definition *)
Definition inst_rr_def (m : memo) (s : state) (x' : id) : R :=
  match map_opt (fun kv => option_map (fun o => (fst kv, o)) (mwire m (snd kv))) (ipins s x') with
  | Some l => ret (set_ipins s x' l)
  | None => raise s XAssert
  end.

(* Definition._clone *)
Definition def_clone1 (sm : SM) (d : id) : (SM * id) * option exn :=
  let '(s, m) := sm in
  let '(s1, d') := clone_alloc s KDefinition in
  let s1 := copy_data s1 d d' in
  let '((s2, m2), ports') := clone_each port_clone1 (kids s1 RPorts d) (s1, (d, d') :: m) in
  let '((s3, m3), cables') := clone_each cable_clone1 (kids s2 RCables d) (s2, m2) in
  let '((s4, m4), children') := clone_each inst_clone1 (kids s3 RChildren d) (s3, m3) in
  let s5 := set_drefs (set_kids (set_kids (set_kids s4 RPorts d' ports') RCables d' cables') RChildren d' children') d' (drefs s4 d) in
  let r :=
    fold_idsR (fun s p' => port_rr m4 (set_par s RPorts p' (Some d')) p') ports' s5 >>= fun s6 =>
    fold_idsR (fun s c' => cable_rr m4 (set_par s RCables c' (Some d')) c') cables' s6 >>= fun s7 =>
    fold_idsR (fun s x' => inst_rr_def m4 (set_par s RChildren x' (Some d')) x') children' s7 in
  ((fst r, m4, d'), snd r).

(* instance._reference._references.add(instance) *)
Definition register_child (s : state) (x' : id) : R :=
  match iref s x' with
  | Some e => ret (set_drefs s e (set_add x' (drefs s e)))
  | None => raise s XType
  end.

(* ---- public clone() of the small elements ---- *)
Definition clone_pin (s : state) (i : id) : R * id :=
  let '((s1, _), i') := pin_clone1 (s, []) i in (ret (set_ipwire s1 i' None), i').

Definition clone_wire (s : state) (w : id) : R * id :=
  let '((s1, _), w') := wire_clone1 (s, []) w in (ret (set_wpins s1 w' []), w').

Definition clone_port (s : state) (p : id) : R * id :=
  let '((s1, _), p') := port_clone1 (s, []) p in
  (ret (fold_ids (fun s i' => set_ipwire s i' None) (kids s1 RPins p') s1), p').

Definition clone_cable (s : state) (c : id) : R * id :=
  let '((s1, _), c') := cable_clone1 (s, []) c in
  (ret (fold_ids (fun s w' => set_wpins s w' []) (kids s1 RWires c') s1), c').

Definition clone_instance (s : state) (x : id) : R * id :=
  let '((s1, _), x') := inst_clone1 (s, []) x in
  let s2 := set_ipins s1 x' (map (fun kv => (fst kv, None)) (ipins s1 x')) in
  (register_child s2 x', x').

(* FirstClassElement._reapply_naming_policy: policy = c['.NS']; del c['.NS']; c['.NS'] = policy *)
Definition reapply (s : state) (c : id) : R :=
  match sassoc str_NS (data s c) with
  | Some v => dict_del s c str_NS >>= fun s1 => dict_set s1 c str_NS v
  | None => ret s
  end.

(* Definition.clone *)
Definition clone_definition (s : state) (d : id) : R * id :=
  let '((s1, _, d'), e) := def_clone1 (s, []) d in
  match e with
  | Some x => (raise s1 x, d')
  | None =>
      (fold_idsR register_child (kids s1 RChildren d') s1 >>= fun s2 => reapply (set_drefs s2 d' []) d', d')
  end.

(* ---- Definition._clone_rip_and_replace(memo) ---- *)
Fixpoint dedup_keep (l : list id) : list id :=
  match l with
  | [] => []
  | x :: l' => x :: filter (fun y => negb (Nat.eqb y x)) (dedup_keep l')
  end.

Definition rekey_all (m : memo) (s : state) (x' : id) : R :=
  fold_pairsR (fun s kv =>
                 match mget m (fst kv) with
                 | Some k' => rekey s x' (fst kv, k')
                 | None => raise s XStuck
                 end)
              (map (fun kv => (fst kv, fst kv)) (ipins s x')) s.

Definition def_rr (m : memo) (s : state) (d' : id) : R :=
  let s1 := set_drefs s d' (dedup_keep (map (fun r => match mget m r with Some r' => r' | None => r end) (drefs s d'))) in
  fold_idsR (fun s x' =>
    match iref s x' with
    | Some e =>
        match mget m e with
        | Some e' => rekey_all m (set_iref s x' (Some e')) x'
        | None => ret s
        end
    | None => ret s
    end) (kids s1 RChildren d') s1.

(* Library._clone *)
Fixpoint defs_clone1 (l : list id) (sm : SM) : (SM * list id) * option exn :=
  match l with
  | [] => ((sm, []), None)
  | d :: l' =>
      let '((sm1, d'), e) := def_clone1 sm d in
      match e with
      | Some x => ((sm1, [d']), Some x)
      | None =>
          let '((sm2, r), e2) := defs_clone1 l' sm1 in ((sm2, d' :: r), e2)
      end
  end.

Definition lib_clone1 (sm : SM) (l : id) : (SM * id) * option exn :=
  let '(s, m) := sm in
  let '(s1, l') := clone_alloc s KLibrary in
  let s1 := copy_data s1 l l' in
  let '(((s2, m2), defs'), e) := defs_clone1 (kids s1 RDefs l) (s1, (l, l') :: m) in
  match e with
  | Some x => ((s2, m2, l'), Some x)
  | None =>
      let s3 := set_kids s2 RDefs l' defs' in
      let r := fold_idsR (fun s d' => def_rr m2 (set_par s RDefs d' (Some l')) d') defs' s3 in
      ((fst r, m2, l'), snd r)
  end.

(* Library._clone_rip(memo) *)
Definition lib_rip (m : memo) (s : state) (l' : id) : R :=
  fold_idsR (fun s d' =>
    let newrefs := filter (mval m) (drefs s d') in
    fold_idsR register_child (kids s RChildren d') s >>= fun s1 =>
    ret (set_drefs s1 d' newrefs)) (kids s RDefs l') s.

Definition clone_library (s : state) (l : id) : R * id :=
  let '((s1, m, l'), e) := lib_clone1 (s, []) l in
  match e with
  | Some x => (raise s1 x, l')
  | None => (lib_rip m s1 l' >>= fun s2 => reapply s2 l', l')
  end.

(* Netlist._clone + Netlist._clone_rip *)
Fixpoint libs_clone1 (ls : list id) (sm : SM) : (SM * list id) * option exn :=
  match ls with
  | [] => ((sm, []), None)
  | l :: ls' =>
      let '((sm1, l'), e) := lib_clone1 sm l in
      match e with
      | Some x => ((sm1, [l']), Some x)
      | None => let '((sm2, r), e2) := libs_clone1 ls' sm1 in ((sm2, l' :: r), e2)
      end
  end.

Definition clone_netlist (s : state) (n : id) : R * id :=
  let '(s1, n') := clone_alloc s KNetlist in
  let s1 := copy_data s1 n n' in
  let '(((s2, m2), libs'), e) := libs_clone1 (kids s1 RLibs n) (s1, [(n, n')]) in
  match e with
  | Some x => (raise s2 x, n')
  | None =>
      let s3 := set_kids s2 RLibs n' libs' in
      (* top instance *)
      let rtop : (R * memo) :=
        match top s3 n with
        | None => (ret s3, m2)
        | Some t =>
            match mget m2 t with
            | Some t' => (ret (s3 <| top ::= fun f => upd f n' (Some t') |>), m2)
            | None =>
                let '((s4, m4), t') := inst_clone1 (s3, m2) t in
                (inst_rr_def m4 s4 t' >>= fun s5 =>
                 let s6 := match iref s5 t' with
                           | Some e => match mget m4 e with Some e' => set_iref s5 t' (Some e') | None => s5 end
                           | None => s5 end in
                 rekey_all m4 s6 t' >>= fun s7 =>
                 ret (s7 <| top ::= fun f => upd f n' (Some t') |>), m4)
            end
        end in
      let '(r, m) := rtop in
      (r >>= fun s8 =>
       let s8 := match top s8 n' with Some t' => s8 <| istop ::= fun f => upd f t' true |> | None => s8 end in
       fold_idsR (fun s l' =>
                    fold_idsR (def_rr m) (kids s RDefs l') (set_par s RLibs l' (Some n'))) libs' s8 >>= fun s9 =>
       (* _clone_rip: keep only cloned instances in the reference sets *)
       reapply (fold_ids (fun s l' =>
                        fold_ids (fun s d' => set_drefs s d' (filter (mval m) (drefs s d'))) (kids s RDefs l') s)
                     libs' s9) n', n')
  end.

Definition clone_any (s : state) (e : id) : R * id :=
  match kind_of s e with
  | Some KNetlist => clone_netlist s e
  | Some KLibrary => clone_library s e
  | Some KDefinition => clone_definition s e
  | Some KPort => clone_port s e
  | Some KCable => clone_cable s e
  | Some KWire => clone_wire s e
  | Some KPin => clone_pin s e
  | Some KInstance => clone_instance s e
  | None => (raise s XType, 0)
  end.
