(* Models of spydrnet/uniquify.py and spydrnet/flatten.py as compositions of the modelled IR calls
   (Ops.v) and of Definition.clone (Clone.v); the module-level counters of both files are state. *)
From Coq Require Import List Arith NArith ZArith Bool.
From RecordUpdate Require Import RecordSet.
From SV Require Import Base.Base IR.State IR.NS IR.Ops Xform.Clone Xform.Strs.
Import ListNotations RecordSetNotations.

Record xstate := mkX { st : state; uniq_ctr : nat; flat_ctr : nat }.

(* str(n) for the counters *)
Definition digit (n : nat) : N := N.of_nat (48 + n).
Fixpoint dec_fuel (fuel n : nat) (acc : str) : str :=
  match fuel with
  | O => acc
  | S f => if n <? 10 then digit n :: acc else dec_fuel f (n / 10) (digit (n mod 10) :: acc)
  end.
Definition dec (n : nat) : str := dec_fuel (S n) n [].


Inductive xexn := XE (e : exn) | XOutOfFuel | XAttr.   (* XAttr: AttributeError/TypeError on a None *)
Definition XR := (xstate * option xexn)%type.

Definition liftR (x : xstate) (r : R) (k : xstate -> XR) : XR :=
  match r with
  | (s, None) => k (mkX s (uniq_ctr x) (flat_ctr x))
  | (s, Some e) => (mkX s (uniq_ctr x) (flat_ctr x), Some (XE e))
  end.

Definition index_of (x : id) (l : list id) : nat :=
  (fix go l n := match l with [] => n | y :: l' => if Nat.eqb x y then n else go l' (S n) end) l 0.

Definition is_leaf_def (s : state) (d : id) : bool :=
  match kids s RChildren d, kids s RCables d with [], [] => true | _, _ => false end.

Definition inst_unique (s : state) (x : id) : option bool :=
  match iref s x with
  | Some d => Some (Nat.eqb (length (drefs s d)) 1 || is_leaf_def s d)
  | None => None
  end.

(* uniquify._get_unique_name_modifier(definition): the first counter value k, counting up from the module
   counter, such that - when the cell has a name nm - no definition of the library carries the name
   nm ++ "_sdn_unique_<k>" and - when the cell has an EDIF identifier idv - none carries an identifier equal,
   without case, to idv ++ "_sdn_unique_<k>".
   The Python loop is a [while True]; here the search has fuel (two candidates per definition of the
   library plus one always suffice: Proofs/UniqFresh.v, fresh_ctr_total) and None = out of fuel. *)
Definition name_taken (s : state) (defs : list id) (v : str) : bool :=
  existsb (fun c => match get_str s c str_NAME with Some w => str_eqb w v | None => false end) defs.
Definition ident_taken (s : state) (defs : list id) (v : str) : bool :=
  existsb (fun c => match get_str s c str_IDENT with Some w => str_eqb (lower w) (lower v) | None => false end) defs.
Definition suffix_taken (s : state) (defs : list id) (onm : option str) (idv : option str) (suffix : str) : bool :=
  match onm with Some nm => name_taken s defs (nm ++ suffix) | None => false end ||
  match idv with Some i => ident_taken s defs (i ++ suffix) | None => false end.
Fixpoint fresh_ctr (fuel : nat) (s : state) (defs : list id) (onm : option str) (idv : option str) (k : nat) : option nat :=
  match fuel with
  | O => None
  | S f => if suffix_taken s defs onm idv (str_uniq ++ dec k) then fresh_ctr f s defs onm idv (S k) else Some k
  end.
Definition fresh_fuel (defs : list id) : nat := S (length defs + length defs).

Definition is_some {A} (o : option A) : bool := match o with Some _ => true | None => false end.

(* the renaming block of uniquify._make_instance_unique:
     if reference.name is not None or "EDIF.identifier" in reference:
         unique_suffix = _get_unique_name_modifier(reference)
         if reference.name is not None: new_def.name = reference.name + unique_suffix
         if "EDIF.identifier" in new_def: new_def["EDIF.identifier"] = new_def["EDIF.identifier"] + unique_suffix
   x1 is the state after Definition.clone, d the cell, d' its copy (in no library yet), lib the library of d *)
Definition rename_block (x1 : xstate) (lib d d' : id) : XR :=
  let onm := get_str (st x1) d str_NAME in
  let oid := get_str (st x1) d str_IDENT in
  if is_some onm || is_some oid then
    let defs := kids (st x1) RDefs lib in
    match fresh_ctr (fresh_fuel defs) (st x1) defs onm oid (uniq_ctr x1) with
    | None => (x1, Some XOutOfFuel)
    | Some k =>
        let suffix := str_uniq ++ dec k in
        let x2 := mkX (st x1) (S k) (flat_ctr x1) in
        let set_ident (x3 : xstate) : XR :=
          match get_str (st x3) d' str_IDENT with
          | Some idv => liftR x3 (dict_set (st x3) d' str_IDENT (VStr (idv ++ suffix))) (fun x4 => (x4, None))
          | None => (x3, None)
          end in
        match onm with
        | Some nm => liftR x2 (dict_set (st x2) d' str_NAME (VStr (nm ++ suffix))) set_ident
        | None => set_ident x2
        end
    end
  else (x1, None).

(* uniquify._make_instance_unique; the library of the cell is the same before and after Definition.clone
   (Proofs/UniqNames.v, rd_clone_definition), so [lib] also stands for definition.library in the helper *)
Definition make_instance_unique (x : xstate) (inst : id) : XR :=
  let s := st x in
  match iref s inst with
  | None => (x, Some XAttr)
  | Some d =>
      match par s RDefs d with
      | None => (x, Some XAttr)
      | Some lib =>
          let idx := index_of d (kids s RDefs lib) in
          let '(r, d') := clone_definition s d in
          liftR x r (fun x1 =>
            match rename_block x1 lib d d' with
            | (x5, Some e) => (x5, Some e)
            | (x5, None) =>
                liftR x5 (op_add (st x5) RDefs lib d' (Some (S idx))) (fun x6 =>
                liftR x6 (op_set_reference (st x6) inst (Some d')) (fun x7 => (x7, None)))
            end)
      end
  end.

Fixpoint uniq_loop (fuel : nat) (x : xstate) (queue : list id) : XR :=
  match queue with
  | [] => (x, None)
  | inst :: rest =>
      match fuel with
      | O => (x, Some XOutOfFuel)
      | S f =>
          match inst_unique (st x) inst with
          | None => (x, Some XAttr)
          | Some u =>
              let r := if u then (x, None) else make_instance_unique x inst in
              match r with
              | (x1, Some e) => (x1, Some e)
              | (x1, None) =>
                  match iref (st x1) inst with
                  | Some d => uniq_loop f x1 (rest ++ kids (st x1) RChildren d)
                  | None => (x1, Some XAttr)
                  end
              end
          end
      end
  end.

Definition uniquify (fuel : nat) (x : xstate) (n : id) : XR :=
  match top (st x) n with
  | None => (x, Some XAttr)
  | Some t =>
      match iref (st x) t with
      | None => (x, Some XAttr)
      | Some d => uniq_loop fuel x (kids (st x) RChildren d)
      end
  end.

(* ---- flatten ---- *)
Definition is_cable (s : state) (e : id) : bool := is_kind s e KCable.

(* flatten._name_in_path: the name of e as a component of a hierarchical name; a missing name counts
   as the empty string *)
Definition name_in_path (s : state) (e : id) : str :=
  match get_str s e str_NAME with Some nm => nm | None => [] end.

(* flatten._bring_to_top. [add_to_name] is the Python value handed in: None for an element of the top
   definition itself (the statement is then [e.name = e.name], which for an unnamed element is the
   no-op [e.name = None]), Some a for the hierarchical name a of the enclosing instance - which may be
   "" - and then the statement is [e.name = add_to_name + "/" + _name_in_path(e)] *)
Definition bring_to_top (x : xstate) (e : id) (add_to_name : option str) (topd : id) : XR :=
  let s := st x in
  let cable := is_cable s e in
  let step1 : XR :=
    if has_key s e str_IDENT then
      let v := (if cable then str_cable_ else str_instance_) ++ str_flat ++ dec (flat_ctr x) in
      let x1 := mkX s (uniq_ctr x) (S (flat_ctr x)) in
      liftR x1 (dict_set s e str_IDENT (VStr v)) (fun x2 => (x2, None))
    else (x, None) in
  match step1 with
  | (x2, Some err) => (x2, Some err)
  | (x2, None) =>
      let r := if cable then RCables else RChildren in
      match par (st x2) r e with
      | None => (x2, Some XAttr)
      | Some d =>
          liftR x2 (op_remove (st x2) r d e) (fun x3 =>
          let cur := get_str (st x3) e str_NAME in
          let newname : option str :=
            match add_to_name with
            | None => cur
            | Some a => Some (a ++ str_slash ++ name_in_path (st x3) e)
            end in
          liftR x3 (op_set_name (st x3) e newname) (fun x4 =>
          liftR x4 (op_add (st x4) r topd e None) (fun x5 => (x5, None))))
      end
  end.

Definition stored_pin_of (s : state) (p : pin) : pin := p.

(* flatten._redo_connections for one pin *)
Definition redo_pin (x : xstate) (inst pin_i : id) : XR :=
  let s := st x in
  match assoc pin_i (ipins s inst) with
  | None => (x, Some (XE XStuck))
  | Some out_wire =>
      let in_wire := ipwire s pin_i in
      let r1 : XR := match in_wire with
                     | Some iw => liftR x (op_disconnect s iw (PIn pin_i)) (fun x1 => (x1, None))
                     | None => (x, None) end in
      match r1 with
      | (x1, Some e) => (x1, Some e)
      | (x1, None) =>
          let r2 : XR := match out_wire with
                         | Some ow => liftR x1 (op_disconnect (st x1) ow (POut inst pin_i)) (fun x2 => (x2, None))
                         | None => (x1, None) end in
          match r2 with
          | (x2, Some e) => (x2, Some e)
          | (x2, None) =>
              match in_wire, out_wire with
              | Some iw, Some ow =>
                  (fix go (ps : list pin) (x : xstate) : XR :=
                     match ps with
                     | [] => (x, None)
                     | p :: ps' =>
                         liftR x (op_disconnect (st x) iw p) (fun xa =>
                         liftR xa (op_connect (st xa) ow p None) (fun xb => go ps' xb))
                     end) (wpins (st x2) iw) x2
              | _, _ => (x2, None)
              end
          end
      end
  end.

Fixpoint xfold (f : xstate -> id -> XR) (l : list id) (x : xstate) : XR :=
  match l with
  | [] => (x, None)
  | a :: l' => match f x a with (x1, None) => xfold f l' x1 | r => r end
  end.

Fixpoint flat_loop (fuel : nat) (x : xstate) (topd : id) (queue : list (id * option str)) (to_remove : list id)
  : XR * list id :=
  match queue with
  | [] => ((x, None), to_remove)
  | (inst, pname) :: rest =>
      match fuel with
      | O => ((x, Some XOutOfFuel), to_remove)
      | S f =>
          match bring_to_top x inst pname topd with
          | (x1, Some e) => ((x1, Some e), to_remove)
          | (x1, None) =>
              match iref (st x1) inst with
              | None => ((x1, Some XAttr), to_remove)
              | Some d =>
                  if is_leaf_def (st x1) d then flat_loop f x1 topd rest to_remove
                  else
                    (* name_queue.append(_name_in_path(inst)) *)
                    let iname := Some (name_in_path (st x1) inst) in
                    let queue' := rest ++ map (fun c => (c, iname)) (kids (st x1) RChildren d) in
                    match xfold (fun x c => bring_to_top x c iname topd) (kids (st x1) RCables d) x1 with
                    | (x2, Some e) => ((x2, Some e), to_remove)
                    | (x2, None) =>
                        match xfold (fun x p => xfold (fun x i => redo_pin x inst i) (kids (st x) RPins p) x)
                                    (kids (st x2) RPorts d) x2 with
                        | (x3, Some e) => ((x3, Some e), to_remove)
                        | (x3, None) => flat_loop f x3 topd queue' (to_remove ++ [inst])
                        end
                    end
              end
          end
      end
  end.

Definition flatten (fuel : nat) (x : xstate) (n : id) : XR :=
  match top (st x) n with
  | None => (x, Some XAttr)
  | Some t =>
      match iref (st x) t with
      | None => (x, Some XAttr)
      | Some topd =>
          let queue := map (fun c => (c, None)) (kids (st x) RChildren topd) in
          match flat_loop fuel x topd queue [] with
          | ((x1, Some e), _) => (x1, Some e)
          | ((x1, None), to_remove) =>
              xfold (fun x i => liftR x (op_remove (st x) RChildren topd i) (fun x' => (x', None))) to_remove x1
          end
      end
  end.

(* ---- the op language of the xform engine ---- *)
Inductive xop :=
| XIr (o : op)
| XClone (e : id)
| XUniquify (n : id) (fuel : nat)
| XFlatten (n : id) (fuel : nat).

Definition xinit : xstate := mkX init 0 0.

Definition xstep (x : xstate) (o : xop) : XR :=
  match o with
  | XIr o => liftR x (step (st x) o) (fun x' => (x', None))
  | XClone e => liftR x (fst (clone_any (st x) e)) (fun x' => (x', None))
  | XUniquify n fuel => uniquify fuel x n
  | XFlatten n fuel => flatten fuel x n
  end.
