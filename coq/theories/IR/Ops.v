(* Model of the public mutators of spydrnet/ir/*.py, phase by phase in source order:
   asserts -> listener callbacks (namespace manager first, then the event log) -> writes.
   The state component of the result is the state reached when the call returned or raised. *)
From Coq Require Import List Arith NArith ZArith Bool.
From RecordUpdate Require Import RecordSet.
From SV Require Import Base.Base IR.State IR.NS.
Import ListNotations RecordSetNotations.

Definition is_kind (s : state) (x : id) (k : kind) : bool :=
  match kind_of s x with Some k' => kind_eqb k' k | None => false end.

Definition alloc (s : state) (k : kind) : state * id :=
  let x := next s in
  (s <| next := S x |> <| kind_of ::= fun f => upd f x (Some k) |>, x).

Definition has_data (k : kind) : bool :=
  match k with KWire | KPin => false | _ => true end.

(* FirstClassElement subclasses' __init__(name, properties): create callback, name, properties *)
Fixpoint set_props (s : state) (e : id) (props : list (str * val)) : R :=
  match props with
  | [] => ret s
  | (k, v) :: ps => dict_set s e k v >>= fun s1 => set_props s1 e ps
  end.

Definition construct (s : state) (k : kind) (nm : option str) (props : list (str * val)) : R * id :=
  let '(s0, x) := alloc s k in
  if has_data k then
    (ns_create s0 x >>= fun s1 =>
     let s2 := emit s1 (ECreate k x) in
     (match nm with Some n => dict_set s2 x str_NAME (VStr n) | None => ret s2 end) >>= fun s3 =>
     set_props s3 x props, x)
  else (ret s0, x).

(* is the relation watched by the namespace manager *)
Definition ns_rel (r : rel) : bool :=
  match r with RPins | RWires => false | _ => true end.

Fixpoint fold_ids (f : state -> id -> state) (l : list id) (s : state) : state :=
  match l with [] => s | x :: l' => fold_ids f l' (f s x) end.

Fixpoint fold_idsR (f : state -> id -> R) (l : list id) (s : state) : R :=
  match l with [] => ret s | x :: l' => f s x >>= fold_idsR f l' end.

(* reference._pins[pin] = OuterPin(reference, pin) *)
Definition new_outer (s : state) (n i : id) : state := set_ipins s n (assoc_set i None (ipins s n)).

(* the outer pin of instance n for inner pin i goes away: wire.disconnect_pin(outer) if wired, then
   del reference._pins[pin] *)
Definition drop_outer (s : state) (n i : id) : R :=
  match assoc i (ipins s n) with
  | None => raise s XStuck
  | Some ow =>
      let s1 := match ow with
                | Some w =>
                    let sa := emit s (EDisconnect w (POut n i)) in
                    let sb := set_wpins sa w (pin_remove_first (POut n i) (wpins sa w)) in
                    emit sb (EDisconnect w (POut n i))
                | None => s
                end in
      ret (set_ipins s1 n (assoc_del i (ipins s1 n)))
  end.

(* ---- generic add_* ---- *)
Definition add_guard1 (s : state) (r : rel) (p c : id) : bool :=
  match r with
  | RLibs => negb (memb c (kids s RLibs p))
  | _ => match par s r c with Some q => negb (Nat.eqb q p) | None => true end
  end.

Definition add_post (s : state) (r : rel) (p c : id) : state :=
  match r with
  | RPorts => fold_ids (fun s n => fold_ids (fun s i => new_outer s n i) (kids s RPins c) s) (drefs s p) s
  | RPins =>
      match par s RPorts p with
      | Some d => fold_ids (fun s n => new_outer s n c) (drefs s d) s
      | None => s
      end
  | _ => s
  end.

Definition op_add (s : state) (r : rel) (p c : id) (pos : option nat) : R :=
  guard (is_kind s p (rel_parent r) && is_kind s c (rel_child r)) XType s (fun s =>
  guard (add_guard1 s r p c) XAssert s (fun s =>
  guard (match par s r c with None => true | Some _ => false end) XAssert s (fun s =>
  (if ns_rel r then ns_add s p c (rel_child r) else ret s) >>= fun s1 =>
  let s2 := emit s1 (EAdd r p c) in
  let s3 := set_par (set_kids s2 r p (py_insert pos c (kids s2 r p))) r c (Some p) in
  ret (add_post s3 r p c)))).

(* ---- generic _remove_* (callbacks, implicit outer-pin drops, back pointer) ---- *)
Definition remove_core (s : state) (r : rel) (p c : id) : R :=
  let s1 := if ns_rel r then ns_remove_child s p c (rel_child r) else s in
  let s2 := emit s1 (ERemove r p c) in
  (match r with
   | RPorts => fold_idsR (fun s n => fold_idsR (fun s i => drop_outer s n i) (kids s RPins c) s) (drefs s2 p) s2
   | RPins =>
       match par s2 RPorts p with
       | Some d => fold_idsR (fun s n => drop_outer s n c) (drefs s2 d) s2
       | None => ret s2
       end
   | _ => ret s2
   end) >>= fun s3 =>
  ret (set_par s3 r c None).

Definition par_is (s : state) (r : rel) (c p : id) : bool :=
  match par s r c with Some q => Nat.eqb q p | None => false end.

Definition op_remove (s : state) (r : rel) (p c : id) : R :=
  guard (is_kind s p (rel_parent r) && is_kind s c (rel_child r)) XType s (fun s =>
  guard (par_is s r c p) XAssert s (fun s =>
  remove_core s r p c >>= fun s1 =>
  ret (set_kids s1 r p (remove_first c (kids s1 r p))))).

Fixpoint dedup (l : list id) : list id :=
  match l with
  | [] => []
  | x :: l' => if memb x l' then dedup l' else x :: dedup l'
  end.

(* remove_*_from: libraries/definitions/children/cables walk the container in order,
   ports/pins/wires walk the given set *)
Definition walks_container (r : rel) : bool :=
  match r with RLibs | RDefs | RChildren | RCables => true | _ => false end.

Definition op_remove_from (s : state) (r : rel) (p : id) (cs : list id) : R :=
  guard (is_kind s p (rel_parent r) && forallb (fun c => is_kind s c (rel_child r)) cs) XType s (fun s =>
  guard (forallb (fun c => par_is s r c p) cs) XAssert s (fun s =>
  let order := if walks_container r then filter (fun x => memb x cs) (kids s r p) else dedup cs in
  fold_idsR (fun s c => remove_core s r p c) order s >>= fun s1 =>
  ret (set_kids s1 r p (remove_all_in cs (kids s1 r p))))).

Definition op_reorder (s : state) (r : rel) (p : id) (l : list id) : R :=
  guard (is_kind s p (rel_parent r)) XType s (fun s =>
  guard (nodupb l && seteqb (kids s r p) l) XAssert s (fun s =>
  ret (set_kids s r p l))).

(* ---- wires and pins ---- *)
Fixpoint pins_nodupb (l : list pin) : bool :=
  match l with [] => true | x :: l' => negb (pin_memb x l') && pins_nodupb l' end.
Definition pins_subsetb (a b : list pin) : bool := forallb (fun x => pin_memb x b) a.

Definition op_reorder_wire (s : state) (w : id) (l : list pin) : R :=
  guard (is_kind s w KWire) XType s (fun s =>
  guard (pins_nodupb l && pins_subsetb l (wpins s w) && pins_subsetb (wpins s w) l) XAssert s (fun s =>
  ret (set_wpins s w l))).

Definition pin_ok_kind (s : state) (p : pin) : bool :=
  match p with
  | PIn i => is_kind s i KPin
  | POut n i => is_kind s n KInstance && is_kind s i KPin
  | PDet => true
  end.

Definition op_connect (s : state) (w : id) (p : pin) (pos : option nat) : R :=
  guard (is_kind s w KWire && pin_ok_kind s p) XType s (fun s =>
  match p with
  | PDet => raise s XAssert
  | POut n i =>
      match assoc i (ipins s n) with
      | None => raise s XAssert
      | Some ow =>
          match ow with
          | Some _ => raise s XAssert
          | None =>
              let s1 := emit s (EConnect w p) in
              let s2 := set_wpins s1 w (py_insert pos p (wpins s1 w)) in
              ret (set_pin_wire s2 p (Some w))
          end
      end
  | PIn i =>
      match ipwire s i with
      | Some _ => raise s XAssert
      | None =>
          let s1 := emit s (EConnect w p) in
          let s2 := set_wpins s1 w (py_insert pos p (wpins s1 w)) in
          ret (set_pin_wire s2 p (Some w))
      end
  end).

Definition wire_is (o : option id) (w : id) : bool :=
  match o with Some x => Nat.eqb x w | None => false end.

Definition can_disconnect (s : state) (w : id) (p : pin) : bool :=
  match p with
  | PDet => false
  | POut n i => match assoc i (ipins s n) with Some ow => wire_is ow w | None => false end
  | PIn i => wire_is (ipwire s i) w
  end.

Definition op_disconnect (s : state) (w : id) (p : pin) : R :=
  guard (is_kind s w KWire && pin_ok_kind s p) XType s (fun s =>
  guard (can_disconnect s w p) XAssert s (fun s =>
  match p with
  | POut _ _ =>
      let s1 := emit s (EDisconnect w p) in
      let s2 := set_wpins s1 w (pin_remove_first p (wpins s1 w)) in
      let s3 := emit s2 (EDisconnect w p) in
      ret (set_pin_wire s3 p None)
  | _ =>
      let s1 := set_wpins s w (pin_remove_first p (wpins s w)) in
      let s2 := emit s1 (EDisconnect w p) in
      ret (set_pin_wire s2 p None)
  end)).

Fixpoint pins_dedup (l : list pin) : list pin :=
  match l with
  | [] => []
  | x :: l' => if pin_memb x l' then pins_dedup l' else x :: pins_dedup l'
  end.

Definition op_disconnect_from (s : state) (w : id) (ps : list pin) : R :=
  guard (is_kind s w KWire && forallb (pin_ok_kind s) ps) XType s (fun s =>
  guard (forallb (can_disconnect s w) ps) XAssert s (fun s =>
  let s1 := fold_left (fun s p =>
              match p with
              | POut _ _ => set_pin_wire (emit (emit s (EDisconnect w p)) (EDisconnect w p)) p None
              | _ => set_pin_wire (emit s (EDisconnect w p)) p None
              end) (pins_dedup ps) s in
  ret (set_wpins s1 w (filter (fun x => negb (pin_memb x ps)) (wpins s1 w))))).

(* ---- Instance.reference setter ---- *)
Definition port_pins (s : state) (d : id) : list id := flat_map (fun p => kids s RPins p) (kids s RPorts d).

Definition same_shape (s : state) (d d' : id) : bool :=
  Nat.eqb (length (kids s RPorts d)) (length (kids s RPorts d')) &&
  forallb (fun pq => Nat.eqb (length (kids s RPins (fst pq))) (length (kids s RPins (snd pq))))
          (combine (kids s RPorts d) (kids s RPorts d')).

Definition pin_pairs (s : state) (d d' : id) : list (id * id) :=
  flat_map (fun pq => combine (kids s RPins (fst pq)) (kids s RPins (snd pq)))
           (combine (kids s RPorts d) (kids s RPorts d')).

Definition rename_pin (a b : pin) (x : pin) : pin := if pin_eqb x a then b else x.

(* outer_pin = self._pins.pop(cur); outer_pin._inner_pin = new; self._pins[new] = outer_pin *)
Definition rekey (s : state) (n : id) (cn : id * id) : R :=
  let '(cur, new) := cn in
  match assoc cur (ipins s n) with
  | None => raise s XStuck
  | Some ow =>
      let s1 := set_ipins s n (assoc_set new ow (assoc_del cur (ipins s n))) in
      ret (match ow with
           | Some w => set_wpins s1 w (map (rename_pin (POut n cur) (POut n new)) (wpins s1 w))
           | None => s1
           end)
  end.

Fixpoint fold_pairsR (f : state -> id * id -> R) (l : list (id * id)) (s : state) : R :=
  match l with [] => ret s | x :: l' => f s x >>= fold_pairsR f l' end.

Definition set_add (x : id) (l : list id) : list id := if memb x l then l else l ++ [x].

Definition op_set_reference (s : state) (x : id) (v : option id) : R :=
  guard (is_kind s x KInstance && match v with Some d => is_kind s d KDefinition | None => true end) XType s (fun s =>
  guard (match v, iref s x with Some d', Some d => same_shape s d d' | _, _ => true end) XAssert s (fun s =>
  let s1 := emit s (EReference x v) in
  match v with
  | None =>
      fold_idsR (fun s i => drop_outer s x i) (map fst (ipins s1 x)) s1 >>= fun s2 =>
      let s3 := set_ipins s2 x [] in
      (match iref s3 x with
       | Some d => if memb x (drefs s3 d) then ret (set_drefs s3 d (remove_first x (drefs s3 d))) else raise s3 XStuck
       | None => ret s3
       end) >>= fun s4 => ret (set_iref s4 x None)
  | Some d' =>
      (match iref s1 x with
       | Some d =>
           (if memb x (drefs s1 d) then ret (set_drefs s1 d (remove_first x (drefs s1 d))) else raise s1 XStuck)
           >>= fun s2 => fold_pairsR (fun s cn => rekey s x cn) (pin_pairs s2 d d') s2
       | None => ret (fold_ids (fun s i => new_outer s x i) (port_pins s1 d') s1)
       end) >>= fun s3 =>
      ret (set_iref (set_drefs s3 d' (set_add x (drefs s3 d'))) x (Some d'))
  end)).

(* ---- Netlist.top_instance setter ---- *)
Definition clear_old_top (s : state) (n : id) : state :=
  match top s n with Some t => s <| istop ::= fun f => upd f t false |> | None => s end.

Definition op_set_top (s : state) (n : id) (a : toparg) : R :=
  guard (is_kind s n KNetlist &&
         match a with TopInst x => is_kind s x KInstance | TopDef d => is_kind s d KDefinition | TopNone => true end)
        XType s (fun s =>
  let s1 := clear_old_top (emit s (ETop n a)) n in
  match a with
  | TopNone => ret (s1 <| top ::= fun f => upd f n None |>)
  | TopInst x => ret (s1 <| top ::= fun f => upd f n (Some x) |> <| istop ::= fun f => upd f x true |>)
  | TopDef d =>
      let '(r, t) := construct s1 KInstance None [] in
      r >>= fun s2 => op_set_reference s2 t (Some d) >>= fun s3 =>
      let s4 := s3 <| istop ::= fun f => upd f t true |> in
      let s5 := clear_old_top (emit s4 (ETop n (TopInst t))) n in
      ret (s5 <| top ::= fun f => upd f n (Some t) |> <| istop ::= fun f => upd f t true |>)
  end).

(* ---- names and data ---- *)
Definition op_set_name (s : state) (e : id) (nm : option str) : R :=
  match nm with
  | Some n => dict_set s e str_NAME (VStr n)
  | None => if has_key s e str_NAME then dict_del s e str_NAME else ret s
  end.

Definition op_del_name (s : state) (e : id) : R :=
  if has_key s e str_NAME then dict_del s e str_NAME else ret s.

Definition elem_has_data (s : state) (e : id) : bool :=
  match kind_of s e with Some k => has_data k | None => false end.

(* ---- compound constructors ---- *)
Definition create_and_add (s : state) (r : rel) (p : id) (nm : option str) (props : list (str * val)) : R * id :=
  let '(res, x) := construct s (rel_child r) nm props in
  (res >>= fun s1 => op_add s1 r p x None, x).

Fixpoint create_items (s : state) (r : rel) (p : id) (n : nat) : R :=
  match n with
  | O => ret s
  | S n' =>
      let '(s0, x) := alloc s (rel_child r) in
      op_add s0 r p x None >>= fun s1 => create_items s1 r p n'
  end.

Definition bundle_items (s : state) (b : id) : list id :=
  match kind_of s b with
  | Some KPort => kids s RPins b
  | Some KCable => kids s RWires b
  | _ => []
  end.

Inductive op :=
| ONew (k : kind) (nm : option str) (props : list (str * val))
| OCreate (r : rel) (p : id) (nm : option str) (props : list (str * val)) (items : nat) (ref : option id)
| OCreateItems (r : rel) (p : id) (n : nat)
| OAdd (r : rel) (p c : id) (pos : option nat)
| ORemove (r : rel) (p c : id)
| ORemoveFrom (r : rel) (p : id) (cs : list id)
| OReorder (r : rel) (p : id) (l : list id)
| OReorderWire (w : id) (l : list pin)
| OConnect (w : id) (p : pin) (pos : option nat)
| ODisconnect (w : id) (p : pin)
| ODisconnectFrom (w : id) (ps : list pin)
| OSetReference (x : id) (v : option id)
| OSetTop (n : id) (a : toparg)
| OSetName (e : id) (nm : option str)
| ODelName (e : id)
| ODSet (e : id) (k : str) (v : val)
| ODDel (e : id) (k : str)
| ODPop (e : id) (k : str)
| OSetDownto (b : id) (v : bool)
| OSetScalar (b : id) (v : bool)
| OSetLower (b : id) (v : Z)
| OSetDirection (p : id) (d : dir)
| OSetPolicy (p : pol).

Definition step (s : state) (o : op) : R :=
  match o with
  | ONew k nm props => fst (construct s k nm props)
  | OCreate r p nm props items ref =>
      (* create_library / create_definition / create_port(pins=) / create_cable(wires=) /
         create_child(reference=) *)
      guard (is_kind s p (rel_parent r) && ns_rel r &&
             match ref with Some d => is_kind s d KDefinition | None => true end) XType s (fun s =>
      let '(res, x) := create_and_add s r p nm props in
      res >>= fun s1 =>
      match r with
      | RPorts => create_items s1 RPins x items
      | RCables => create_items s1 RWires x items
      | RChildren => op_set_reference s1 x ref
      | _ => ret s1
      end)
  | OCreateItems r p n =>
      guard (is_kind s p (rel_parent r) && negb (ns_rel r)) XType s (fun s => create_items s r p n)
  | OAdd r p c pos => op_add s r p c pos
  | ORemove r p c => op_remove s r p c
  | ORemoveFrom r p cs => op_remove_from s r p cs
  | OReorder r p l => op_reorder s r p l
  | OReorderWire w l => op_reorder_wire s w l
  | OConnect w p pos => op_connect s w p pos
  | ODisconnect w p => op_disconnect s w p
  | ODisconnectFrom w ps => op_disconnect_from s w ps
  | OSetReference x v => op_set_reference s x v
  | OSetTop n a => op_set_top s n a
  | OSetName e nm => guard (elem_has_data s e) XType s (fun s => op_set_name s e nm)
  | ODelName e => guard (elem_has_data s e) XType s (fun s => op_del_name s e)
  | ODSet e k v => guard (elem_has_data s e) XType s (fun s => dict_set s e k v)
  | ODDel e k => guard (elem_has_data s e) XType s (fun s => dict_del s e k)
  | ODPop e k => guard (elem_has_data s e) XType s (fun s => dict_pop s e k)
  | OSetDownto b v =>
      guard (is_kind s b KPort || is_kind s b KCable) XType s (fun s =>
      ret (s <| bdownto ::= fun f => upd f b v |>))
  | OSetScalar b v =>
      guard (is_kind s b KPort || is_kind s b KCable) XType s (fun s =>
      guard (negb ((1 <? length (bundle_items s b)) && v)) XRuntime s (fun s =>
      ret (s <| bscalar ::= fun f => upd f b v |>)))
  | OSetLower b v =>
      guard (is_kind s b KPort || is_kind s b KCable) XType s (fun s =>
      ret (s <| blower ::= fun f => upd f b v |>))
  | OSetDirection p d =>
      guard (is_kind s p KPort) XType s (fun s => ret (s <| pdir ::= fun f => upd f p d |>))
  | OSetPolicy p => ret (s <| policy := p |>)
  end.

Definition run (ops : list op) (s : state) : state := fold_left (fun s o => fst (step s o)) ops s.

(* Bundle.is_scalar as read through the API *)
Definition read_scalar (s : state) (b : id) : bool :=
  if (1 <? length (bundle_items s b)) then false else bscalar s b.
