(* The listener of C19: a mirror that is driven by announcements only (harness/ir_props.py: Shadow).
   Announcements carry no positions, so containers and wires are mirrored as sets. *)
From Coq Require Import List Arith Bool.
From SV Require Import Base.Base IR.State IR.NS IR.Ops.
Import ListNotations.

Record shadow := mkSh {
  sk : rel -> id -> id -> bool;      (* members of each container *)
  sw : id -> pin -> bool;            (* pins of each wire *)
  sr : id -> option id;              (* reference of each instance *)
  st : id -> option id;              (* top instance of each netlist *)
  sd : id -> list (str * val)        (* data of each element *)
}.

Definition sh_init : shadow :=
  mkSh (fun _ _ _ => false) (fun _ _ => false) (fun _ => None) (fun _ => None) (fun _ => []).

Definition upd3 (f : rel -> id -> id -> bool) (r : rel) (p c : id) (v : bool) : rel -> id -> id -> bool :=
  fun r' p' c' => if rel_eqb r' r && Nat.eqb p' p && Nat.eqb c' c then v else f r' p' c'.

Definition updw (f : id -> pin -> bool) (w : id) (p : pin) (v : bool) : id -> pin -> bool :=
  fun w' q => if Nat.eqb w' w && pin_eqb q p then v else f w' q.

(* on every wire: the pin a is replaced by the pin b *)
Definition rename_on_wires (f : id -> pin -> bool) (a b : pin) : id -> pin -> bool :=
  fun w q => if pin_eqb q b then f w a || f w b else if pin_eqb q a then false else f w q.

Definition set_sk sh v := mkSh v (sw sh) (sr sh) (st sh) (sd sh).
Definition set_sw sh v := mkSh (sk sh) v (sr sh) (st sh) (sd sh).
Definition set_sr sh v := mkSh (sk sh) (sw sh) v (st sh) (sd sh).
Definition set_st sh v := mkSh (sk sh) (sw sh) (sr sh) v (sd sh).
Definition set_sd sh v := mkSh (sk sh) (sw sh) (sr sh) (st sh) v.

(* one announcement. [pre] is the netlist as the listener can read it when the call starts: it is
   needed only when an instance is re-pointed from one definition to another - the listener reads
   the port and pin order of both definitions to learn which outer pin replaces which. *)
Definition feed (pre : state) (sh : shadow) (e : event) : shadow :=
  match e with
  | ECreate _ _ => sh
  | EAdd r p c => set_sk sh (upd3 (sk sh) r p c true)
  | ERemove r p c => set_sk sh (upd3 (sk sh) r p c false)
  | EReference n d =>
      let sh1 :=
        match sr sh n, d with
        | Some old, Some new =>
            set_sw sh (fold_left (fun f ab => rename_on_wires f (POut n (fst ab)) (POut n (snd ab)))
                                 (pin_pairs pre old new) (sw sh))
        | _, _ => sh
        end in
      set_sr sh1 (upd (sr sh1) n d)
  | ETop n (TopInst x) => set_st sh (upd (st sh) n (Some x))
  | ETop n TopNone => set_st sh (upd (st sh) n None)
  | ETop n (TopDef _) => sh
  | EConnect w p => set_sw sh (updw (sw sh) w p true)
  | EDisconnect w p => set_sw sh (updw (sw sh) w p false)
  | EDictSet e k v => set_sd sh (upd (sd sh) e (sassoc_set k v (sd sh e)))
  | EDictDel e k | EDictPop e k => set_sd sh (upd (sd sh) e (sassoc_del k (sd sh e)))
  end.

Definition feed_all (pre : state) (sh : shadow) (evs : list event) : shadow := fold_left (feed pre) evs sh.

(* the listener holds an exact mirror *)
Record mirror (s : state) (sh : shadow) : Prop := mkMirror {
  m_k : forall r p c, sk sh r p c = true <-> In c (kids s r p);
  m_w : forall w q, sw sh w q = true <-> In q (wpins s w);
  m_r : forall n, sr sh n = iref s n;
  m_t : forall n, st sh n = top s n;
  m_d : forall e k, sassoc k (sd sh e) = sassoc k (data s e)
}.
