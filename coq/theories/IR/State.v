(* The IR heap of spydrnet as a record of total maps (DESIGN.md 2.2).
   Objects are numbered in creation order; outer pins are values (instance, inner pin). *)
From Coq Require Import List Arith NArith ZArith Bool String.
From RecordUpdate Require Import RecordSet.
From SV Require Import Base.Base.
Import ListNotations RecordSetNotations.

Inductive kind := KNetlist | KLibrary | KDefinition | KPort | KCable | KWire | KPin | KInstance.
Inductive rel := RLibs | RDefs | RPorts | RCables | RChildren | RPins | RWires.
Inductive pin := PIn (i : id) | POut (n i : id) | PDet.
Inductive val := VStr (s : str) | VInt (z : Z) | VBool (b : bool) | VNone.
Inductive dir := DUndef | DInout | DIn | DOut.
Inductive pol := PolDefault | PolEdif.
Inductive toparg := TopInst (x : id) | TopDef (d : id) | TopNone.

Definition kind_eqb (a b : kind) : bool :=
  match a, b with
  | KNetlist, KNetlist | KLibrary, KLibrary | KDefinition, KDefinition | KPort, KPort
  | KCable, KCable | KWire, KWire | KPin, KPin | KInstance, KInstance => true
  | _, _ => false
  end.

Definition rel_eqb (a b : rel) : bool :=
  match a, b with
  | RLibs, RLibs | RDefs, RDefs | RPorts, RPorts | RCables, RCables | RChildren, RChildren
  | RPins, RPins | RWires, RWires => true
  | _, _ => false
  end.

Lemma rel_eqb_spec a b : rel_eqb a b = true <-> a = b.
Proof. destruct a, b; cbn; split; intro H; try reflexivity; try discriminate. Qed.

Lemma rel_eqb_refl a : rel_eqb a a = true.
Proof. destruct a; reflexivity. Qed.

Definition pin_eqb (a b : pin) : bool :=
  match a, b with
  | PIn i, PIn j => Nat.eqb i j
  | POut n i, POut m j => Nat.eqb n m && Nat.eqb i j
  | PDet, PDet => true
  | _, _ => false
  end.

Lemma pin_eqb_spec a b : pin_eqb a b = true <-> a = b.
Proof.
  destruct a, b; cbn; split; intro H; try discriminate; try reflexivity.
  - apply Nat.eqb_eq in H. congruence.
  - inversion H. apply Nat.eqb_refl.
  - apply andb_true_iff in H as [H1 H2]. apply Nat.eqb_eq in H1, H2. congruence.
  - inversion H. rewrite !Nat.eqb_refl. reflexivity.
Qed.

Lemma pin_eqb_refl a : pin_eqb a a = true.
Proof. apply pin_eqb_spec. reflexivity. Qed.

Definition val_eqb (a b : val) : bool :=
  match a, b with
  | VStr x, VStr y => str_eqb x y
  | VInt x, VInt y => Z.eqb x y
  | VBool x, VBool y => Bool.eqb x y
  | VNone, VNone => true
  | _, _ => false
  end.

Definition pol_eqb (a b : pol) : bool :=
  match a, b with PolDefault, PolDefault | PolEdif, PolEdif => true | _, _ => false end.

(* parent kind and child kind of each containment relation *)
Definition rel_parent (r : rel) : kind :=
  match r with
  | RLibs => KNetlist | RDefs => KLibrary
  | RPorts | RCables | RChildren => KDefinition
  | RPins => KPort | RWires => KCable
  end.

Definition rel_child (r : rel) : kind :=
  match r with
  | RLibs => KLibrary | RDefs => KDefinition | RPorts => KPort | RCables => KCable
  | RChildren => KInstance | RPins => KPin | RWires => KWire
  end.

(* the relation through which an element of a given kind is owned (NamespaceManager.get_parent) *)
Definition rel_of_child (k : kind) : option rel :=
  match k with
  | KLibrary => Some RLibs | KDefinition => Some RDefs | KPort => Some RPorts
  | KCable => Some RCables | KInstance => Some RChildren | KPin => Some RPins
  | KWire => Some RWires | KNetlist => None
  end.

(* one namespace object of the namespace manager: per element type a name table and, for the
   EDIF policy, a lower-cased identifier table *)
Record nstable := mkNs {
  ns_pol : pol;
  ns_names : kind -> list (str * id);
  ns_idents : kind -> list (str * id)
}.

Definition updk {A} (f : kind -> A) (k : kind) (v : A) : kind -> A :=
  fun x => if kind_eqb x k then v else f x.

Definition empty_ns (p : pol) : nstable := mkNs p (fun _ => []) (fun _ => []).

Inductive event :=
| ECreate (k : kind) (x : id)
| EAdd (r : rel) (p c : id)
| ERemove (r : rel) (p c : id)
| EReference (n : id) (d : option id)
| ETop (n : id) (t : toparg)
| EConnect (w : id) (p : pin)
| EDisconnect (w : id) (p : pin)
| EDictSet (e : id) (k : str) (v : val)
| EDictDel (e : id) (k : str)
| EDictPop (e : id) (k : str).

Record state := mkState {
  next : nat;
  kind_of : id -> option kind;
  kids : rel -> id -> list id;
  par : rel -> id -> option id;
  wpins : id -> list pin;
  ipwire : id -> option id;
  iref : id -> option id;
  drefs : id -> list id;
  ipins : id -> list (id * option id);
  top : id -> option id;
  istop : id -> bool;
  bdownto : id -> bool;
  bscalar : id -> bool;
  blower : id -> Z;
  pdir : id -> dir;
  data : id -> list (str * val);
  nstab : id -> option nstable;
  policy : pol;
  log : list event
}.

#[export] Instance etaState : Settable _ :=
  settable! mkState <next; kind_of; kids; par; wpins; ipwire; iref; drefs; ipins; top; istop;
                     bdownto; bscalar; blower; pdir; data; nstab; policy; log>.

Definition init : state :=
  mkState 0 (fun _ => None) (fun _ _ => []) (fun _ _ => None) (fun _ => []) (fun _ => None)
          (fun _ => None) (fun _ => []) (fun _ => []) (fun _ => None) (fun _ => false)
          (fun _ => true) (fun _ => true) (fun _ => 0%Z) (fun _ => DUndef) (fun _ => [])
          (fun _ => None) PolDefault [].

Definition upd2 {A} (f : rel -> id -> A) (r : rel) (k : id) (v : A) : rel -> id -> A :=
  fun r' => if rel_eqb r' r then upd (f r') k v else f r'.

Lemma upd2_same {A} (f : rel -> id -> A) r k v : upd2 f r k v r k = v.
Proof. unfold upd2. rewrite rel_eqb_refl. apply upd_same. Qed.

Lemma upd2_other_rel {A} (f : rel -> id -> A) r k v r' x : r' <> r -> upd2 f r k v r' x = f r' x.
Proof.
  unfold upd2. intro H. destruct (rel_eqb r' r) eqn:E; [apply rel_eqb_spec in E; contradiction|reflexivity].
Qed.

Lemma upd2_other_id {A} (f : rel -> id -> A) r k v r' x : x <> k -> upd2 f r k v r' x = f r' x.
Proof. unfold upd2. intro H. destruct (rel_eqb r' r); [apply upd_other; assumption|reflexivity]. Qed.

(* field writers *)
Definition set_kids (s : state) r p l := s <| kids ::= fun f => upd2 f r p l |>.
Definition set_par (s : state) r c v := s <| par ::= fun f => upd2 f r c v |>.
Definition set_wpins (s : state) w l := s <| wpins ::= fun f => upd f w l |>.
Definition set_ipwire (s : state) i v := s <| ipwire ::= fun f => upd f i v |>.
Definition set_iref (s : state) n v := s <| iref ::= fun f => upd f n v |>.
Definition set_drefs (s : state) d l := s <| drefs ::= fun f => upd f d l |>.
Definition set_ipins (s : state) n l := s <| ipins ::= fun f => upd f n l |>.
Definition set_data (s : state) e l := s <| data ::= fun f => upd f e l |>.
Definition set_nstab (s : state) e t := s <| nstab ::= fun f => upd f e t |>.
Definition emit (s : state) (e : event) := s <| log ::= fun l => l ++ [e] |>.

(* the wire a pin reports; a proxy outer pin reports what the stored pin of (n, i) reports *)
Definition pin_wire (s : state) (p : pin) : option id :=
  match p with
  | PIn i => ipwire s i
  | POut n i => match assoc i (ipins s n) with Some ow => ow | None => None end
  | PDet => None
  end.

Definition pin_stored (s : state) (p : pin) : bool :=
  match p with
  | PIn _ => true
  | POut n i => match assoc i (ipins s n) with Some _ => true | None => false end
  | PDet => false
  end.

Definition set_pin_wire (s : state) (p : pin) (w : option id) : state :=
  match p with
  | PIn i => set_ipwire s i w
  | POut n i => set_ipins s n (assoc_set i w (ipins s n))
  | PDet => s
  end.

Fixpoint pin_memb (p : pin) (l : list pin) : bool :=
  match l with [] => false | q :: l' => pin_eqb p q || pin_memb p l' end.

Fixpoint pin_remove_first (p : pin) (l : list pin) : list pin :=
  match l with
  | [] => []
  | q :: l' => if pin_eqb p q then l' else q :: pin_remove_first p l'
  end.

Definition str_NAME : str := s2l ".NAME".
Definition str_IDENT : str := s2l "EDIF.identifier".
Definition str_NS : str := s2l ".NS".
Definition str_DEFAULT : str := s2l "DEFAULT".
Definition str_EDIF : str := s2l "EDIF".

Definition pol_name (p : pol) : str := match p with PolDefault => str_DEFAULT | PolEdif => str_EDIF end.
Definition pol_of_val (v : val) : option pol :=
  match v with
  | VStr s => if str_eqb s str_DEFAULT then Some PolDefault
              else if str_eqb s str_EDIF then Some PolEdif else None
  | _ => None
  end.

Definition has_key (s : state) (e : id) (k : str) : bool :=
  match sassoc k (data s e) with Some _ => true | None => false end.
