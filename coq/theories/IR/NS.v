(* Model of spydrnet/plugins/namespace_manager (NamespaceManager, DefaultNamespace,
   EdifNamespace) as transitions on [state]; it is the first registered listener. *)
From Coq Require Import List Arith NArith ZArith Bool.
From RecordUpdate Require Import RecordSet.
From SV Require Import Base.Base IR.State.
Import ListNotations RecordSetNotations.

(* XStuck: a KeyError raised half-way through a bulk update (only possible when the mirror
   invariant is already broken); printed like XKey *)
Inductive exn := XAssert | XValue | XKey | XRuntime | XType | XStuck.

(* result of running (part of) a call: the state reached and the exception raised, if any *)
Definition R := (state * option exn)%type.
Definition ret (s : state) : R := (s, None).
Definition raise (s : state) (x : exn) : R := (s, Some x).
Definition bindR (r : R) (f : state -> R) : R :=
  match r with (s, None) => f s | (s, Some x) => (s, Some x) end.
Notation "r >>= f" := (bindR r f) (at level 50, left associativity).

Definition guard (b : bool) (x : exn) (s : state) (k : state -> R) : R :=
  if b then k s else raise s x.

(* EdifNamespace._check_EDIF_identifier (ASCII) *)
Definition is_idchar (c : N) : bool := is_alnum c || N.eqb c 95.

Definition all_idchars_nonempty (s : str) : bool :=
  match s with
  | [] => false
  | t => forallb is_idchar t
  end.

Definition check_edif_identifier (s : str) : bool :=
  let n := length s in
  match s with
  | c :: rest =>
      if N.eqb c 38 (* & *) then
        if (n <? 2) || (256 <? n) then false else all_idchars_nonempty rest
      else
        if (255 <? n) then false
        else if negb (is_alpha c) then false
        else all_idchars_nonempty s
  | [] => false
  end.

Definition get_str (s : state) (e : id) (k : str) : option str :=
  match sassoc k (data s e) with Some (VStr v) => Some v | _ => None end.

(* NamespaceManager.get_parent *)
Definition ns_parent (s : state) (e : id) : option id :=
  match kind_of s e with
  | Some KLibrary => par s RLibs e
  | Some KDefinition => par s RDefs e
  | Some KPort => par s RPorts e
  | Some KCable => par s RCables e
  | Some KInstance => par s RChildren e
  | _ => None
  end.

Definition elem_pol (s : state) (e : id) : option pol :=
  match sassoc str_NS (data s e) with Some v => pol_of_val v | None => None end.

(* <policy>.is_name_valid *)
Definition is_name_valid (p : pol) (k : str) (v : str) : bool :=
  match p with
  | PolDefault => true
  | PolEdif => if str_eqb k str_IDENT then check_edif_identifier v else true
  end.

(* <namespace object>.no_conflict / update / remove / lookup *)
Definition tab_conflict (tab : list (str * id)) (name : str) (e : id) : bool :=
  match sassoc name tab with Some x => negb (Nat.eqb x e) | None => false end.

Definition ns_no_conflict (t : nstable) (ek : kind) (e : id) (k : str) (v : str) : bool :=
  if str_eqb k str_NAME then negb (tab_conflict (ns_names t ek) v e)
  else match ns_pol t with
       | PolDefault => true
       | PolEdif => if str_eqb k str_IDENT then negb (tab_conflict (ns_idents t ek) (lower v) e) else true
       end.

Definition tab_replace (tab : list (str * id)) (old : option str) (new : str) (e : id) : list (str * id) :=
  let tab1 := match old with Some o => sassoc_del o tab | None => tab end in
  sassoc_set new e tab1.

(* [old] is the element's current value under that key, read from its data dictionary *)
Definition ns_update (t : nstable) (ek : kind) (e : id) (k : str) (old : option str) (v : str) : nstable :=
  if str_eqb k str_NAME then
    mkNs (ns_pol t) (updk (ns_names t) ek (tab_replace (ns_names t ek) old v e)) (ns_idents t)
  else match ns_pol t with
       | PolDefault => t
       | PolEdif =>
           if str_eqb k str_IDENT then
             mkNs (ns_pol t) (ns_names t)
                  (updk (ns_idents t) ek (tab_replace (ns_idents t ek) (option_map lower old) (lower v) e))
           else t
       end.

Definition ns_remove (t : nstable) (ek : kind) (k : str) (old : option str) : nstable :=
  match old with
  | None => t
  | Some o =>
      if str_eqb k str_NAME then
        mkNs (ns_pol t) (updk (ns_names t) ek (sassoc_del o (ns_names t ek))) (ns_idents t)
      else match ns_pol t with
           | PolDefault => t
           | PolEdif =>
               if str_eqb k str_IDENT then
                 mkNs (ns_pol t) (ns_names t) (updk (ns_idents t) ek (sassoc_del (lower o) (ns_idents t ek)))
               else t
           end
  end.

Definition ns_lookup (t : nstable) (ek : kind) (k : str) (v : str) : option id :=
  if str_eqb k str_NAME then sassoc v (ns_names t ek)
  else match ns_pol t with
       | PolDefault => None
       | PolEdif => if str_eqb k str_IDENT then sassoc (lower v) (ns_idents t ek) else None
       end.

(* <policy>.no_name_conflicts on one child list *)
Fixpoint strs_nodup (l : list str) : bool :=
  match l with
  | [] => true
  | x :: l' => negb (existsb (str_eqb x) l') && strs_nodup l'
  end.

Definition names_of (s : state) (k : str) (xs : list id) : list str :=
  flat_map (fun x => match get_str s x k with Some v => [v] | None => [] end) xs.

Definition list_no_conflicts (p : pol) (s : state) (xs : list id) : bool :=
  strs_nodup (names_of s str_NAME xs) &&
  match p with
  | PolDefault => true
  | PolEdif => strs_nodup (map lower (names_of s str_IDENT xs))
  end.

Definition elem_valid (p : pol) (s : state) (e : id) : bool :=
  match p with
  | PolDefault => true
  | PolEdif => match get_str s e str_IDENT with Some v => check_edif_identifier v | None => true end
  end.

Definition def_compliant (p : pol) (s : state) (d : id) : bool :=
  elem_valid p s d &&
  list_no_conflicts p s (kids s RPorts d) && list_no_conflicts p s (kids s RCables d) &&
  list_no_conflicts p s (kids s RChildren d) &&
  forallb (elem_valid p s) (kids s RPorts d ++ kids s RCables d ++ kids s RChildren d).

Definition lib_compliant (p : pol) (s : state) (l : id) : bool :=
  elem_valid p s l && list_no_conflicts p s (kids s RDefs l) &&
  forallb (def_compliant p s) (kids s RDefs l).

Definition net_compliant (p : pol) (s : state) (n : id) : bool :=
  elem_valid p s n && list_no_conflicts p s (kids s RLibs n) &&
  forallb (lib_compliant p s) (kids s RLibs n).

(* NamespaceManager.is_compliant *)
Definition is_compliant (p : pol) (s : state) (e : id) : bool :=
  match kind_of s e with
  | Some KNetlist => net_compliant p s e
  | Some KLibrary => lib_compliant p s e
  | Some KDefinition => def_compliant p s e
  | _ => elem_valid p s e
  end.

(* elements visited by apply_namespace / drop_namespace, root first *)
Definition def_subtree (s : state) (d : id) : list id :=
  d :: kids s RPorts d ++ kids s RCables d ++ kids s RChildren d.
Definition lib_subtree (s : state) (l : id) : list id :=
  l :: flat_map (def_subtree s) (kids s RDefs l).
Definition net_subtree (s : state) (n : id) : list id :=
  n :: flat_map (lib_subtree s) (kids s RLibs n).
Definition subtree (s : state) (e : id) : list id :=
  match kind_of s e with
  | Some KNetlist => net_subtree s e
  | Some KLibrary => lib_subtree s e
  | Some KDefinition => def_subtree s e
  | _ => [e]
  end.

(* [if element.name is not None] (the test was [if element.name:] before the repair of the
   empty-name defect) *)
Definition truthy_name (s : state) (e : id) : option str := get_str s e str_NAME.

(* _update_new_namespace for one child list *)
Definition populate (s : state) (ck : kind) (xs : list id) (t : nstable) : nstable :=
  fold_left (fun t x =>
    let t1 := match truthy_name s x with
              | Some nm => ns_update t ck x str_NAME (get_str s x str_NAME) nm
              | None => t end in
    match get_str s x str_IDENT with
    | Some v => ns_update t1 ck x str_IDENT (Some v) v
    | None => t1 end) xs t.

Definition fresh_table (p : pol) (s : state) (e : id) : option nstable :=
  match kind_of s e with
  | Some KNetlist => Some (populate s KLibrary (kids s RLibs e) (empty_ns p))
  | Some KLibrary => Some (populate s KDefinition (kids s RDefs e) (empty_ns p))
  | Some KDefinition =>
      Some (populate s KInstance (kids s RChildren e)
             (populate s KCable (kids s RCables e)
               (populate s KPort (kids s RPorts e) (empty_ns p))))
  | _ => None
  end.

(* raw write of the data dictionary, as done at the end of __setitem__ / __delitem__ / pop *)
Definition data_write (s : state) (e : id) (k : str) (v : val) : state :=
  set_data s e (sassoc_set k v (data s e)).
Definition data_erase (s : state) (e : id) (k : str) : state :=
  set_data s e (sassoc_del k (data s e)).

(* apply_namespace: nested [element['.NS'] = value] with ignore_ns_change set *)
Definition apply_namespace (p : pol) (s : state) (e : id) : state :=
  fold_left (fun s x =>
    let s1 := data_write (emit s (EDictSet x str_NS (VStr (pol_name p)))) x str_NS (VStr (pol_name p)) in
    match fresh_table p s1 x with
    | Some t => set_nstab s1 x (Some t)
    | None => s1
    end) (subtree s e) s.

Definition drop_namespace (s : state) (e : id) : state :=
  fold_left (fun s x =>
    let s1 := set_nstab s x None in
    if negb (Nat.eqb x e) && has_key s1 x str_NS
    then data_erase (emit s1 (EDictDel x str_NS)) x str_NS
    else s1) (subtree s e) s.

Definition is_name_key (k : str) : bool := str_eqb k str_NAME || str_eqb k str_IDENT.

(* NamespaceManager.dictionary_set, not nested (ignore_ns_change = False) *)
Definition ns_dictionary_set (s : state) (e : id) (k : str) (v : val) : R :=
  if str_eqb k str_NS then
    let same := match sassoc k (data s e) with Some v0 => val_eqb v0 v | None => false end in
    if same then ret s
    else match ns_parent s e with
         | Some _ => raise s XValue
         | None =>
             match pol_of_val v with
             | None => raise s XValue
             | Some p => if is_compliant p s e then ret (apply_namespace p s e) else raise s XValue
             end
         end
  else if is_name_key k then
    match v with
    | VStr name =>
        let ok := match elem_pol s e with Some p => is_name_valid p k name | None => true end in
        if negb ok then raise s XValue
        else match ns_parent s e, kind_of s e with
             | Some p, Some ek =>
                 match nstab s p with
                 | Some t =>
                     if ns_no_conflict t ek e k name
                     then ret (set_nstab s p (Some (ns_update t ek e k (get_str s e k) name)))
                     else raise s XValue
                 | None => ret s
                 end
             | _, _ => ret s
             end
    | _ => raise s XType  (* non-string names are outside the model *)
    end
  else ret s.

Definition ns_remove_key (s : state) (e : id) (k : str) : state :=
  match ns_parent s e, kind_of s e with
  | Some p, Some ek =>
      match nstab s p with
      | Some t => set_nstab s p (Some (ns_remove t ek k (get_str s e k)))
      | None => s
      end
  | _, _ => s
  end.

(* NamespaceManager.dictionary_delete and dictionary_pop (same behaviour for our keys) *)
Definition ns_dictionary_delete (s : state) (e : id) (k : str) : R :=
  if str_eqb k str_NS then
    match ns_parent s e with
    | Some _ => raise s XValue
    | None => if has_key s e str_NS then ret (drop_namespace s e) else ret s
    end
  else if is_name_key k then ret (ns_remove_key s e k)
  else ret s.

(* element[k] = v : listeners, then the write *)
Definition dict_set (s : state) (e : id) (k : str) (v : val) : R :=
  ns_dictionary_set s e k v >>= fun s1 =>
  ret (data_write (emit s1 (EDictSet e k v)) e k v).

Definition dict_del (s : state) (e : id) (k : str) : R :=
  ns_dictionary_delete s e k >>= fun s1 =>
  let s2 := emit s1 (EDictDel e k) in
  if has_key s2 e k then ret (data_erase s2 e k) else raise s2 XKey.

Definition dict_pop (s : state) (e : id) (k : str) : R :=
  ns_dictionary_delete s e k >>= fun s1 =>
  let s2 := emit s1 (EDictPop e k) in
  if has_key s2 e k then ret (data_erase s2 e k) else raise s2 XKey.

(* NamespaceManager.add(parent, child) *)
Definition ns_add (s : state) (parent child : id) (ck : kind) : R :=
  let idv := get_str s child str_IDENT in
  let nmv := get_str s child str_NAME in
  let conflict :=
    match nstab s parent with
    | Some t =>
        (match idv with Some v => negb (ns_no_conflict t ck child str_IDENT v) | None => false end) ||
        (match nmv with Some v => negb (ns_no_conflict t ck child str_NAME v) | None => false end)
    | None => false
    end in
  if conflict then raise s XValue
  else
    (match sassoc str_NS (data s parent) with
     | Some pv =>
         let same := match sassoc str_NS (data s child) with Some cv => val_eqb cv pv | None => false end in
         if same then ret s else dict_set s child str_NS pv
     | None => if has_key s child str_NS then dict_del s child str_NS else ret s
     end) >>= fun s1 =>
    match nstab s1 parent with
    | Some t =>
        let t1 := match idv with Some v => ns_update t ck child str_IDENT (Some v) v | None => t end in
        let t2 := match nmv with Some v => ns_update t1 ck child str_NAME (Some v) v | None => t1 end in
        ret (set_nstab s1 parent (Some t2))
    | None => ret s1
    end.

(* NamespaceManager.remove(element, parent=parent) *)
Definition ns_remove_child (s : state) (parent child : id) (ck : kind) : state :=
  match nstab s parent with
  | Some t =>
      let t1 := ns_remove t ck str_IDENT (get_str s child str_IDENT) in
      let t2 := ns_remove t1 ck str_NAME (get_str s child str_NAME) in
      set_nstab s parent (Some t2)
  | None => s
  end.

(* create_* callback: element['.NS'] = NamespaceManager.default *)
Definition ns_create (s : state) (e : id) : R :=
  dict_set s e str_NS (VStr (pol_name (policy s))).

(* global_service.lookup with the manager registered under .NAME and EDIF.identifier *)
Definition fast_lookup (s : state) (parent : id) (ek : kind) (k : str) (v : str) : option id :=
  match nstab s parent with
  | Some t => ns_lookup t ek k v
  | None => None
  end.

(* the linear scan of global_service.lookup (no lookup registered) *)
Definition scan_lookup (s : state) (xs : list id) (k : str) (v : str) : option id :=
  find (fun x => match sassoc k (data s x) with Some (VStr w) => str_eqb v w | _ => false end) xs.
