(* C15, the process-wide residue: the readers' parse() wrappers as transitions on the one piece of
   process-wide state they touch, NamespaceManager.default.
     EdifParser.parse    : saved = default; default = "EDIF";    try: body  finally: default = saved
     VerilogParser.parse : saved = default; default = "DEFAULT"; try: body  finally: default = saved
     EBLIFParser.parse   : body (does not touch the policy)
   The body is ANY computation: it may return a netlist or raise, and may itself assign the policy. *)
From Coq Require Import List Bool.
From SV Require Import Base.Base IR.State.
Import ListNotations.

Inductive fmt := FEdif | FVerilog | FEblif.
Inductive outcome (A : Type) := Returned (a : A) | Raised.
Arguments Returned {A} a.
Arguments Raised {A}.

(* a body: runs under some policy, leaves some policy, returns or raises *)
Definition body (A : Type) := pol -> pol * outcome A.

Definition parse_call {A} (f : fmt) (b : body A) (p : pol) : pol * outcome A :=
  match f with
  | FEdif => let '(_, r) := b PolEdif in (p, r)        (* finally: default = saved *)
  | FVerilog => let '(_, r) := b PolDefault in (p, r)
  | FEblif => b p
  end.

(* a reader body never assigns the policy itself *)
Definition policy_neutral {A} (b : body A) : Prop := forall q, fst (b q) = q.

(* a session: any sequence of parse calls, each with its own input (hence its own body) *)
Fixpoint session {A} (calls : list (fmt * body A)) (p : pol) : pol :=
  match calls with
  | [] => p
  | (f, b) :: rest => session rest (fst (parse_call f b p))
  end.

(* the policy under which a body actually runs *)
Definition runs_under (f : fmt) (p : pol) : pol :=
  match f with FEdif => PolEdif | FVerilog => PolDefault | FEblif => p end.
