(* Engine `verilog`: the document type of structural Verilog (what the harness generator produces and what
   the reader's recursive descent recognises; characters -> vdoc is NOT modelled) and the id-free netlist
   value compared by C04 / C06 (the Coq counterpart of harness/verilog_world.canon). Types only: the
   document-level functions elab / emit are not modelled yet; the whole-pipeline statements C04_full and
   C06_full (Props/C04.v, Props/C06.v) are stated over these types with the document-level reader and
   writer as parameters. *)
From Coq Require Import List ZArith Bool.
From SV Require Import Base.Base.
Import ListNotations.
Open Scope Z_scope.

Inductive vdir := DIn | DOut | DInout.

Inductive dexpr :=
| DId (n : str) | DBit (n : str) (i : Z) | DPart (n : str) (h l : Z) | DConst (b : bool)
| DCat (l : list dexpr).

Record vport := { vp_name : str; vp_dir : vdir; vp_width : option Z (* None = scalar, Some w = [w-1:0] *) }.

Inductive vitem :=
| IWire (names : list str) (range : option (Z * Z)) (is_reg : bool) (attrs : list (str * option str))
| IInst (modname inst : str) (params : list (str * str)) (attrs : list (str * option str))
        (named : bool) (conns : list (option str * option dexpr))
| IAssign (lhs rhs : dexpr).

Record vmodule := {
  vm_name : str; vm_cell : bool (* inside `celldefine *); vm_ansi : bool;
  vm_params : list (str * str); vm_attrs : list (str * option str);
  vm_ports : list vport; vm_body : list vitem }.

Definition vdoc := list vmodule.

(* netlist value *)
Definition bitref := (str * Z)%type.                      (* cable name, Verilog index *)
Inductive endpoint := EPort (p : str) (bit : Z) | EInst (inst : str) (p : option str) (pos : nat) (bit : Z).

Record nv_port := { np_name : option str; np_dir : option vdir; np_width : nat; np_lower : Z }.
Record nv_inst := { ni_name : str; ni_ref : str; ni_params : list (str * str); ni_attrs : list (str * option str) }.
Record nv_def := {
  nd_name : str; nd_lib : str; nd_ports : list nv_port (* ordered *);
  nd_cables : list (str * nat * Z);                       (* name, width, lower index *)
  nd_insts : list nv_inst;
  nd_nets : list (bitref * list endpoint);                (* connectivity: net bit -> what it joins *)
  nd_assigns : list (list (bitref * bitref)) }.           (* per assign: pin k -> (lhs bit, rhs bit) *)
Record nv := { nv_top : option str; nv_defs : list nv_def }.

Definition same_set {A} (a b : list A) : Prop := forall x, In x a <-> In x b.

Definition same_def (a b : nv_def) : Prop :=
  nd_name a = nd_name b /\ nd_lib a = nd_lib b /\ nd_ports a = nd_ports b /\
  same_set (nd_cables a) (nd_cables b) /\ same_set (nd_insts a) (nd_insts b) /\
  (forall r, same_set (flat_map (fun ne => if andb (str_eqb (fst (fst ne)) (fst r)) (Z.eqb (snd (fst ne)) (snd r)) then snd ne else []) (nd_nets a))
                      (flat_map (fun ne => if andb (str_eqb (fst (fst ne)) (fst r)) (Z.eqb (snd (fst ne)) (snd r)) then snd ne else []) (nd_nets b))) /\
  (exists p, Permutation.Permutation p (nd_assigns b) /\ nd_assigns a = p).

Definition same_netlist (a b : nv) : Prop :=
  nv_top a = nv_top b /\
  (forall d, In d (nv_defs a) -> exists d', In d' (nv_defs b) /\ same_def d d') /\
  (forall d', In d' (nv_defs b) -> exists d, In d (nv_defs a) /\ same_def d d').

Record vopts := { o_definition_list : option (list str); o_write_blackbox : bool; o_defparam : bool }.
