(* Engine `verilog`: the document type of structural Verilog (what the harness generator produces and what
   the reader's recursive descent recognises; characters -> vdoc is NOT modelled) and the id-free netlist
   value compared by C04 / C06 (the Coq counterpart of harness/verilog_world.canon). Types only.
   The document-level reader is Fmt/VElab.v (elab : vdoc -> result nv); the document-level writer is not
   modelled: the whole-pipeline statement C04_full (Props/C04.v) keeps it as a parameter.

   A document is the sequence of module declarations of one source file, each with
     - the `celldefine flag in force where it stands (such modules are read by parse_primitive),
     - the "#(parameter k = v, ...)" list and the (* *) attributes in front of the module keyword,
     - the header entries in order: a plain name, an ANSI entry (direction, range) or an alias ".p(expr)",
     - the body items in order.
   Names are the tokens after token.strip() (escaped identifiers keep their backslash, lose the blank). *)
From Coq Require Import List ZArith Bool.
From SV Require Import Base.Base.
Import ListNotations.
Open Scope Z_scope.

Inductive vdir := DIn | DOut | DInout.
Inductive vtype := TWire | TReg | TTri0 | TTri1.
Definition attr := (str * option str)%type.             (* (* key = value *) or (* key *) *)

(* what parse_variable_instantiation accepts: id | id[i] | id[h:l] | 1'b0 / 1'b1 *)
Inductive datom := DId (n : str) | DBit (n : str) (i : Z) | DPart (n : str) (h l : Z) | DConst (b : bool).
(* what a port connection / alias accepts: one of those or a flat concatenation {a, b, ...} *)
Inductive dexpr := DAtom (a : datom) | DCat (l : list datom).

Inductive vhport :=
| HPort (dir : option vdir) (range : option (Z * Z)) (name : str)   (* "a" | "input [3:0] a" | "[3:0] a" *)
| HAlias (name : str) (e : dexpr).                                    (* ".a({x, y})" *)

Inductive vconns :=
| CNamed (l : list (str * option dexpr))                             (* .p(expr) / .p() *)
| CPos (l : list (option dexpr)).                                     (* expr, expr, ...; None = empty slot *)

Inductive vitem :=
| IPortDecl (dir : vdir) (ty : option vtype) (range : option (Z * Z)) (names : list str) (attrs : list attr)
| IWire (ty : vtype) (range : option (Z * Z)) (names : list str) (attrs : list attr)
| IInst (modname inst : str) (params : list (str * str)) (attrs : list attr) (conns : vconns)
| IDefparam (inst key value : str)
| IAssign (lhs rhs : datom)
| IOther.   (* any other statement: skipped token by token inside `celldefine, rejected elsewhere *)

Record vmodule := {
  vm_name : str; vm_cell : bool (* inside `celldefine *);
  vm_params : list (str * str); vm_attrs : list attr;
  vm_header : list vhport; vm_body : list vitem }.

Definition vdoc := list vmodule.

(* ---------- netlist value ---------- *)
Definition bitref := (str * Z)%type.                      (* cable name, Verilog index *)
Inductive plabel := LName (n : str) | LPos (pos : nat).   (* a port is named, or known by its position *)
Inductive endpoint := EPort (p : plabel) (bit : Z) | EInst (inst : str) (p : plabel) (bit : Z).

Record nv_port := { np_label : plabel; np_dir : option vdir (* None = undefined *); np_width : nat; np_lower : Z }.
Record nv_cable := { nc_name : str; nc_width : nat; nc_lower : Z; nc_type : vtype; nc_attrs : list attr }.
Record nv_inst := { ni_name : str; ni_ref : str; ni_params : list (str * str); ni_attrs : list attr }.
Record nv_def := {
  nd_name : str; nd_lib : str; nd_prim : bool (* VERILOG.primitive: inferred from its uses only *);
  nd_params : list (str * str); nd_attrs : list attr;
  nd_ports : list nv_port (* ordered *);
  nd_cables : list nv_cable;
  nd_insts : list nv_inst;
  nd_nets : list (bitref * list endpoint);                (* connectivity: net bit -> what it joins *)
  nd_assigns : list (list (option bitref * option bitref)) }.  (* per assign: pin k -> (lhs bit, rhs bit) *)
Record nv := { nv_top : option str; nv_defs : list nv_def }.

Definition same_set {A} (a b : list A) : Prop := forall x, In x a <-> In x b.

(* endpoints joined to net bit r *)
Definition net_of (r : bitref) (d : nv_def) : list endpoint :=
  flat_map (fun ne => if andb (str_eqb (fst (fst ne)) (fst r)) (Z.eqb (snd (fst ne)) (snd r)) then snd ne else []) (nd_nets d).

Definition same_def (a b : nv_def) : Prop :=
  nd_name a = nd_name b /\ nd_lib a = nd_lib b /\ nd_prim a = nd_prim b /\
  same_set (nd_params a) (nd_params b) /\ same_set (nd_attrs a) (nd_attrs b) /\
  nd_ports a = nd_ports b /\
  same_set (nd_cables a) (nd_cables b) /\ same_set (nd_insts a) (nd_insts b) /\
  (forall r, same_set (net_of r a) (net_of r b)) /\
  (exists p, Permutation.Permutation p (nd_assigns b) /\ nd_assigns a = p).

Definition same_netlist (a b : nv) : Prop :=
  nv_top a = nv_top b /\
  (forall d, In d (nv_defs a) -> exists d', In d' (nv_defs b) /\ same_def d d') /\
  (forall d', In d' (nv_defs b) -> exists d, In d (nv_defs a) /\ same_def d d').

Record vopts := { o_definition_list : option (list str); o_write_blackbox : bool; o_defparam : bool }.
