(* Model of the EDIF tokenizer (spydrnet/parsers/edif/tokenizer.py: generate_tokens) on strings
   = lists of code points, an s-expression document type, its printer and a generic reader.

   generate_tokens, per character [ch] (state: in_quote, token_buffer):
     in_quote:   "\n" / "\r" are DROPPED; otherwise append; a '"' ends the token (yield buffer)
     '"'      :  in_quote := True; append (the buffer is NOT flushed first)
     '(' ')'  :  flush buffer if non-empty; yield the parenthesis
     \r \n \t ' ' : flush buffer if non-empty
     otherwise:  append
   at end of input: flush buffer if non-empty (also an unterminated quote).
   Tokens are plain strings, exactly as the Python generator yields them: "(", ")", abc, "text".
   No proofs in this file. *)
From Coq Require Import List NArith Bool.
From SV Require Import Base.Base.
Import ListNotations.
Local Open Scope N_scope.

Definition c_lp : N := 40.
Definition c_rp : N := 41.
Definition c_dq : N := 34.
Definition c_sp : N := 32.
Definition c_tab : N := 9.
Definition c_nl : N := 10.
Definition c_cr : N := 13.

Definition is_nlcr (c : N) : bool := N.eqb c c_nl || N.eqb c c_cr.
Definition is_paren (c : N) : bool := N.eqb c c_lp || N.eqb c c_rp.
Definition is_ws (c : N) : bool := N.eqb c c_cr || N.eqb c c_nl || N.eqb c c_tab || N.eqb c c_sp.

Definition flush (buf : str) : list str := match buf with [] => [] | _ => [buf] end.

Fixpoint tok_go (inq : bool) (buf : str) (s : str) : list str :=
  match s with
  | [] => flush buf
  | ch :: s' =>
    if inq then
      if is_nlcr ch then tok_go true buf s'
      else if N.eqb ch c_dq then (buf ++ [ch]) :: tok_go false [] s'
      else tok_go true (buf ++ [ch]) s'
    else if N.eqb ch c_dq then tok_go true (buf ++ [ch]) s'
    else if is_paren ch then flush buf ++ [ch] :: tok_go false [] s'
    else if is_ws ch then flush buf ++ tok_go false [] s'
    else tok_go false (buf ++ [ch]) s'
  end.

Definition tokenize (s : str) : list str := tok_go false [] s.

(* documents *)
Inductive sexp : Type :=
| Atom (a : str)            (* identifier, keyword or integer token *)
| Str (s : str)             (* quoted string, without the quotes *)
| SList (l : list sexp).

Definition t_lp : str := [c_lp].
Definition t_rp : str := [c_rp].
Definition quote (s : str) : str := c_dq :: s ++ [c_dq].

(* token sequence of a document *)
Fixpoint flatten (x : sexp) : list str :=
  match x with
  | Atom a => [a]
  | Str s => [quote s]
  | SList l => t_lp :: flat_map flatten l ++ [t_rp]
  end.

(* printer: items of a list separated by one space, no space inside the parentheses
   (the layout spydrnet's composer uses, without its newlines and indentation) *)
Fixpoint join_sp (l : list str) : str :=
  match l with
  | [] => []
  | [x] => x
  | x :: l' => x ++ c_sp :: join_sp l'
  end.

Fixpoint print (x : sexp) : str :=
  match x with
  | Atom a => a
  | Str s => quote s
  | SList l => c_lp :: join_sp (map print l) ++ [c_rp]
  end.

(* generic reader: one pass over the tokens with a stack of open lists (items reversed) *)
Definition is_str_tok (t : str) : bool := match t with c :: _ => N.eqb c c_dq | [] => false end.
Definition unquote (t : str) : str := removelast (tl t).   (* Python token[1:-1] *)

Fixpoint read_go (toks : list str) (stack : list (list sexp)) : option (list (list sexp)) :=
  match toks with
  | [] => Some stack
  | t :: toks' =>
    if str_eqb t t_lp then read_go toks' ([] :: stack)
    else if str_eqb t t_rp then
      match stack with
      | top :: next :: stack' => read_go toks' ((SList (rev top) :: next) :: stack')
      | _ => None
      end
    else
      match stack with
      | top :: stack' =>
        read_go toks' (((if is_str_tok t then Str (unquote t) else Atom t) :: top) :: stack')
      | [] => None
      end
  end.

Definition read (toks : list str) : option sexp :=
  match read_go toks [[]] with
  | Some [[x]] => Some x
  | _ => None
  end.

(* the strings for which print-then-tokenize is the identity *)
Definition atom_char_ok (c : N) : bool := negb (is_ws c || is_paren c || N.eqb c c_dq).
Definition atom_ok (a : str) : bool := match a with [] => false | _ => forallb atom_char_ok a end.
Definition str_char_ok (c : N) : bool := negb (N.eqb c c_dq || is_nlcr c).
Definition str_ok (s : str) : bool := forallb str_char_ok s.

Fixpoint sexp_ok (x : sexp) : bool :=
  match x with
  | Atom a => atom_ok a
  | Str s => str_ok s
  | SList l => forallb sexp_ok l
  end.
