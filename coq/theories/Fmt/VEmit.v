(* Engine `verilog`: the document-level WRITER - model of Composer._compose
   (/repo/spydrnet/composers/verilog/composer.py) from the netlist value (Fmt/VDoc.v nv) to the document
   (Fmt/VDoc.v vdoc: the type VElab.elab consumes, so that writer and reader compose). Model only - proofs are in
   Proofs/VEmit*.v. Tokens -> characters (blanks, new lines, the two comment lines of _write_header, the comment in
   "/* undefined port direction */ inout") is not modelled.

   The value is read with its ORDER: nv_defs = the definitions in library order (netlist.libraries, then
   library.definitions; the library SDN_VERILOG_ASSIGNMENT left out), nd_ports / nd_cables / nd_insts in the order
   of definition.ports / .cables / .children (assignment instances left out of nd_insts), nd_assigns in the order of
   the assignment instances among the children. Pin k of a port is bit np_lower + k; the wire of a pin is the net
   (cable, index) of nd_nets that lists the pin's endpoint.

   The model follows the composer construct by construct:
     _compose / _write_from_top      module order: breadth first from the top over definition.children, then the
                                     definitions not yet written in library order;
     _write_module                   definition_list (an empty list filters nothing), hdi_primitives only with
                                     write_blackbox and then inside `celldefine with port declarations only;
     _write_star_constraints         (* *) in front of a module, a cable, an instance when the dictionary is not empty;
     _write_module_parameters        #(parameter k = v, ...);
     _write_module_header_port       the name, or .name({...}) when _is_pinset_concatenated(port.pins, port.name);
     _write_module_body_port         one declaration per cable reached by the port's pins (first appearance, a
                                     name already declared in this module is skipped), the port itself when no pin
                                     is connected; [msb:lsb] by _write_brackets_defining;
     _write_module_body_cables       the cables in REVERSE order, type, range, name;
     _write_assignment               assign o = i, one slice per side, for the assignment instances of any width;
     _write_module_body_instance     attributes, #(.k(v)) or defparam statements after the instance, the named port
                                     map over reference.ports: empty / id / id[i] / id[h:l] / {...} by
                                     _write_instance_port (VExpr.emit_port: _is_pinset_concatenated, the last-non-None
                                     logic, run-length grouping of _write_concatenation).

   Outcomes. WOk d | WErr e (the class of the Python exception the composer raises) | WUnsup u: the netlist is
   outside the modelled subset - nothing is claimed, the harness counts and skips these:
     - an assignment instance of width 0 or with an unconnected pin;
     - a port without a name on a module that is written or instantiated (open finding V04-unnamed-ports-unwritable);
     - a name that is neither a simple identifier nor an escaped identifier without blanks (what the text of such a
       name is as a token is not a document-level question; open finding V04-unescaped-hierarchical-names);
     - a value that is not a netlist value of the reader / of verilog_world.canon: duplicate names among siblings,
       an instance of a definition that is not there, a net bit of a cable that is not there. *)
From Coq Require Import List ZArith Bool Arith.
From Coq Require Import String.
From Coq Require Import List.
Local Close Scope string_scope.
From SV Require Import Base.Base Fmt.VBits Fmt.VExpr Fmt.VDoc Fmt.VElab.
Import ListNotations.
Open Scope Z_scope.

Inductive wunsup :=
| WAssignShape     (* assignment instance of width 0 or with an unconnected pin *)
| WUnnamedPort     (* a port known by its position only *)
| WName            (* a name whose token is not the name *)
| WValue.          (* not a netlist value: duplicate sibling names, dangling reference, net of an unknown cable *)

Inductive wres (A : Type) := WOk (a : A) | WErr (e : err) | WUnsup (u : wunsup).
Arguments WOk {A} a.
Arguments WErr {A} e.
Arguments WUnsup {A} u.

Definition wbind {A B} (r : wres A) (f : A -> wres B) : wres B :=
  match r with WOk a => f a | WErr e => WErr e | WUnsup u => WUnsup u end.
Notation "'let+' x ':=' r 'in' k" := (wbind r (fun x => k)) (at level 200, x pattern, r at level 100, k at level 200).

Fixpoint wmap {A B} (f : A -> wres B) (l : list A) : wres (list B) :=
  match l with
  | [] => WOk []
  | x :: r => let+ y := f x in let+ ys := wmap f r in WOk (y :: ys)
  end.

(* ---------- names ---------- *)
Definition ident_start (c : N) : bool :=
  ((65 <=? c) && (c <=? 90) || (97 <=? c) && (c <=? 122) || (c =? 95))%N.
Definition ident_char (c : N) : bool := (ident_start c || (48 <=? c) && (c <=? 57))%N.   (* verilog_tokens.is_valid_identifier: no $ *)
(* a simple identifier, or an escaped identifier (its token, stripped, is the name again: _fix_name adds the blank) *)
Definition name_ok (s : str) : bool :=
  match s with
  | [] => false
  | c :: r => if (c =? 92)%N then negb (Nat.eqb (length r) 0) && forallb (fun x => (32 <? x)%N) r
              else ident_start c && forallb ident_char r
  end.

Fixpoint nodup_names (l : list str) : bool :=
  match l with
  | [] => true
  | x :: r => negb (existsb (str_eqb x) r) && nodup_names r
  end.

Definition mem_name (x : str) (l : list str) : bool := existsb (str_eqb x) l.

(* ---------- the wires of a module ---------- *)
Definition plabel_eqb (a b : plabel) : bool :=
  match a, b with
  | LName x, LName y => str_eqb x y
  | LPos x, LPos y => Nat.eqb x y
  | _, _ => false
  end.
Definition endpoint_eqb (a b : endpoint) : bool :=
  match a, b with
  | EPort p i, EPort q j => plabel_eqb p q && (i =? j)
  | EInst n p i, EInst m q j => str_eqb n m && plabel_eqb p q && (i =? j)
  | _, _ => false
  end.

Definition cable_idx (d : nv_def) (name : str) : option nat := find_idx (fun c => str_eqb (nc_name c) name) (nd_cables d).

(* cable number -> (lower_index, number of wires) *)
Definition def_env (d : nv_def) : env :=
  fun c => match nth_error (nd_cables d) c with Some cb => (nc_lower cb, nc_width cb) | None => (0, 1%nat) end.

Definition cable_name (d : nv_def) (c : nat) : str :=
  match nth_error (nd_cables d) c with Some cb => nc_name cb | None => [] end.

(* pin.wire: the net that lists the endpoint (cable number, Verilog index) *)
Definition wire_of (d : nv_def) (ep : endpoint) : option wire :=
  match find (fun ne => existsb (endpoint_eqb ep) (snd ne)) (nd_nets d) with
  | Some ne => match cable_idx d (fst (fst ne)) with Some c => Some (c, snd (fst ne)) | None => None end
  | None => None
  end.

(* the wires of the pins of a port in pin order: pin k is bit lower + k *)
Definition pin_wires (d : nv_def) (mk : Z -> endpoint) (p : nv_port) : list (option wire) :=
  map (fun k => wire_of d (mk (np_lower p + Z.of_nat k))) (seq 0 (np_width p)).

(* _write_bundle_with_indicies: name and brackets of a cable *)
Definition piece_atom (d : nv_def) (cb : nat * brk) : datom :=
  match snd cb with
  | BNone => DId (cable_name d (fst cb))
  | BIdx i => DBit (cable_name d (fst cb)) i
  | BRange h l => DPart (cable_name d (fst cb)) h l
  end.

Definition brk_range (b : brk) : option (Z * Z) := match b with BRange h l => Some (h, l) | _ => None end.

(* _write_brackets_defining *)
Definition decl_range (lo : Z) (width : nat) : wres (option (Z * Z)) :=
  match write_decl lo (Z.of_nat width) with Some b => WOk (brk_range b) | None => WErr EAssert end.

(* ---------- module header ---------- *)
Definition port_name (p : nv_port) : wres str := match np_label p with LName n => WOk n | LPos _ => WUnsup WUnnamedPort end.

(* _write_module_header_port *)
Definition emit_header_port (d : nv_def) (p : nv_port) : wres vhport :=
  let+ nm := port_name p in
  let ws := pin_wires d (EPort (np_label p)) p in
  let key := match cable_idx d nm with Some k => k | None => length (nd_cables d) end in
  if is_pinset_concatenated (Some key) ws then
    match write_concat (def_env d) (rev ws) with
    | Some t => WOk (HAlias nm (DCat (map (piece_atom d) t)))
    | None => WErr EAssert
    end
  else WOk (HPort None None nm).

(* ---------- port declarations of the body ---------- *)
Definition dir_text (o : option vdir) : vdir := match o with Some x => x | None => DInout end.

Fixpoint first_seen (l : list nat) (seen : list nat) : list nat :=
  match l with
  | [] => []
  | x :: r => if existsb (Nat.eqb x) seen then first_seen r seen else x :: first_seen r (x :: seen)
  end.

(* _all_wires_and_cables_from_pinset: the cables in order of first appearance *)
Definition cables_of (ws : list (option wire)) : list nat :=
  first_seen (flat_map (fun w => match w with Some (c, _) => [c] | None => [] end) ws) [].

(* the bundles a port declares: (name, lower index, width) *)
Definition port_bundles (d : nv_def) (p : nv_port) (nm : str) : list (str * Z * nat) :=
  match cables_of (pin_wires d (EPort (np_label p)) p) with
  | [] => [(nm, np_lower p, np_width p)]
  | cs => map (fun c => (cable_name d c, fst (def_env d c), snd (def_env d c))) cs
  end.

(* _write_module_body_port, over the bundles; [written] = module_body_ports_written *)
Fixpoint emit_port_decls (dir : vdir) (bs : list (str * Z * nat)) (written : list str) : wres (list vitem * list str) :=
  match bs with
  | [] => WOk ([], written)
  | (nm, lo, w) :: r =>
      if mem_name nm written then emit_port_decls dir r written
      else
        let+ rg := decl_range lo w in
        let+ (its, wr) := emit_port_decls dir r (written ++ [nm]) in
        WOk (IPortDecl dir None rg [nm] [] :: its, wr)
  end.

Fixpoint emit_body_ports (d : nv_def) (ps : list nv_port) (written : list str) : wres (list vitem) :=
  match ps with
  | [] => WOk []
  | p :: r =>
      let+ nm := port_name p in
      let+ (its, wr) := emit_port_decls (dir_text (np_dir p)) (port_bundles d p nm) written in
      let+ rest := emit_body_ports d r wr in
      WOk (its ++ rest)
  end.

(* ---------- cables ---------- *)
(* _write_module_body_cable *)
Definition emit_cable (c : nv_cable) : wres vitem :=
  let+ rg := decl_range (nc_lower c) (nc_width c) in
  WOk (IWire (nc_type c) rg [nc_name c] (nc_attrs c)).

(* ---------- assignments ---------- *)
Definition bit_wire (d : nv_def) (r : bitref) : wres wire :=
  match cable_idx d (fst r) with Some c => WOk (c, snd r) | None => WUnsup WValue end.

(* the (o wire, i wire) of the pins of an assignment instance, pin 0 first; every pin must be connected *)
Fixpoint assign_wires (d : nv_def) (prs : list (option bitref * option bitref)) : wres (list (wire * wire)) :=
  match prs with
  | [] => WOk []
  | (Some o, Some i) :: r =>
      let+ ow := bit_wire d o in
      let+ iw := bit_wire d i in
      let+ rest := assign_wires d r in
      WOk ((ow, iw) :: rest)
  | _ :: _ => WUnsup WAssignShape
  end.

(* _write_assignment on an instance of SDN_VERILOG_ASSIGNMENT_w, any w >= 1 (VExpr.write_assign): one slice per side,
   out_wires[0] .. out_wires[-1] of the cable of the first pin; AssertionError when _is_pinset_concatenated finds the
   pins of one side on several cables or not ascending one by one (open finding V04-assign-not-one-slice) or when
   _write_brackets rejects the bounds *)
Definition emit_assign (d : nv_def) (prs : list (option bitref * option bitref)) : wres vitem :=
  match prs with
  | [] => WUnsup WAssignShape
  | _ =>
      let+ pins := assign_wires d prs in
      match write_assign (def_env d) pins with
      | Some (l, r) => WOk (IAssign (piece_atom d l) (piece_atom d r))
      | None => WErr EAssert
      end
  end.

(* ---------- instances ---------- *)
Definition find_ndef (n : nv) (name : str) : option nv_def := find (fun d => str_eqb (nd_name d) name) (nv_defs n).

(* _write_instance_port *)
Definition emit_conn (d : nv_def) (iname : str) (p : nv_port) : wres (str * option dexpr) :=
  let+ nm := port_name p in
  match np_width p with
  | O => WErr EIndex                              (* pins[0] of a port without pins *)
  | _ =>
      match emit_port (def_env d) (pin_wires d (EInst iname (np_label p)) p) with
      | None => WErr EAssert
      | Some PEmpty => WOk (nm, None)
      | Some (PPlain c b) => WOk (nm, Some (DAtom (piece_atom d (c, b))))
      | Some (PConcat t) => WOk (nm, Some (DCat (map (piece_atom d) t)))
      end
  end.

(* _write_module_body_instance *)
Definition emit_inst (o : vopts) (n : nv) (d : nv_def) (i : nv_inst) : wres (list vitem) :=
  match find_ndef n (ni_ref i) with
  | None => WUnsup WValue
  | Some rd =>
      let+ conns := wmap (emit_conn d (ni_name i)) (nd_ports rd) in
      if o_defparam o
      then WOk (IInst (ni_ref i) (ni_name i) [] (ni_attrs i) (CNamed conns)
                :: map (fun kv => IDefparam (ni_name i) (fst kv) (snd kv)) (ni_params i))
      else WOk [IInst (ni_ref i) (ni_name i) (ni_params i) (ni_attrs i) (CNamed conns)]
  end.

(* ---------- one module ---------- *)
Definition prim_lib : str := s2l "hdi_primitives"%string.
Definition is_prim (d : nv_def) : bool := str_eqb (nd_lib d) prim_lib.

Definition def_names_ok (d : nv_def) : bool :=
  name_ok (nd_name d)
  && forallb (fun p => match np_label p with LName s => name_ok s | LPos _ => true end) (nd_ports d)
  && forallb (fun c => name_ok (nc_name c)) (nd_cables d)
  && forallb (fun i => name_ok (ni_name i) && name_ok (ni_ref i)) (nd_insts d).

Definition def_value_ok (d : nv_def) : bool :=
  nodup_names (map nc_name (nd_cables d))
  && nodup_names (map ni_name (nd_insts d))
  && nodup_names (flat_map (fun p => match np_label p with LName s => [s] | LPos _ => [] end) (nd_ports d))
  && forallb (fun ne => match cable_idx d (fst (fst ne)) with Some _ => true | None => false end) (nd_nets d).

(* _write_module for a definition that passed the filters *)
Definition emit_module (o : vopts) (n : nv) (d : nv_def) : wres vmodule :=
  if negb (def_value_ok d) then WUnsup WValue else
  if negb (def_names_ok d) then WUnsup WName else
  let+ header := wmap (emit_header_port d) (nd_ports d) in
  let+ ports := emit_body_ports d (nd_ports d) [] in
  let+ body :=
     if is_prim d then WOk ports
     else
       let+ cables := wmap emit_cable (rev (nd_cables d)) in
       let+ assigns := wmap (emit_assign d) (nd_assigns d) in
       let+ insts := wmap (emit_inst o n d) (nd_insts d) in
       WOk (ports ++ cables ++ assigns ++ concat insts) in
  WOk {| vm_name := nd_name d; vm_cell := is_prim d; vm_params := nd_params d; vm_attrs := nd_attrs d;
         vm_header := header; vm_body := body |}.

(* the filters of _write_module *)
Definition is_written (o : vopts) (d : nv_def) : bool :=
  match o_definition_list o with
  | Some (x :: l) => mem_name (nd_name d) (x :: l)
  | _ => true
  end
  && (negb (is_prim d) || o_write_blackbox o).

(* ---------- module order ---------- *)
(* _write_from_top: the deque, the set `written`; result: the definitions in the order of the _write_module calls *)
Fixpoint bfs (fuel : nat) (n : nv) (queue : list str) (written : list str) : list str * list str :=
  match fuel with
  | O => ([], written)
  | S f =>
      match queue with
      | [] => ([], written)
      | x :: q =>
          if mem_name x written then bfs f n q written
          else
            match find_ndef n x with
            | None => bfs f n q written           (* an assignment definition: nothing is written, nothing below it *)
            | Some d =>
                let written' := x :: written in
                let kids := filter (fun r => negb (mem_name r written')) (map ni_ref (nd_insts d)) in
                let '(order, w) := bfs f n (q ++ kids) written' in
                (x :: order, w)
            end
      end
  end.

Definition total_insts (n : nv) : nat := fold_right (fun d a => (length (nd_insts d) + a)%nat) O (nv_defs n).

(* _compose: the names of the definitions in the order in which _write_module is called on them *)
Definition module_order (n : nv) : list str :=
  let '(order, written) :=
      match nv_top n with
      | Some t => bfs (S (S (length (nv_defs n) + total_insts n))) n [t] []
      | None => ([], [])
      end in
  order ++ filter (fun x => negb (mem_name x written)) (map nd_name (nv_defs n)).

(* Composer(definition_list, write_blackbox, defparam)._compose *)
Definition emit (o : vopts) (n : nv) : wres vdoc :=
  if negb (nodup_names (map nd_name (nv_defs n))) then WUnsup WValue else
  wmap (fun x => match find_ndef n x with
                 | Some d => emit_module o n d
                 | None => WUnsup WValue
                 end)
       (filter (fun x => match find_ndef n x with Some d => is_written o d | None => true end) (module_order n)).

(* ---------- the checker of one round trip ---------- *)
Definition vdir_eqb (a b : vdir) : bool :=
  match a, b with DIn, DIn | DOut, DOut | DInout, DInout => true | _, _ => false end.
Definition odir_eqb (a b : option vdir) : bool :=
  match a, b with Some x, Some y => vdir_eqb x y | None, None => true | _, _ => false end.
Definition port_eqb (a b : nv_port) : bool :=
  plabel_eqb (np_label a) (np_label b) && odir_eqb (np_dir a) (np_dir b) && Nat.eqb (np_width a) (np_width b)
  && (np_lower a =? np_lower b).
Fixpoint list_eqb {A} (eqb : A -> A -> bool) (a b : list A) : bool :=
  match a, b with
  | [], [] => true
  | x :: a', y :: b' => eqb x y && list_eqb eqb a' b'
  | _, _ => false
  end.

Definition bitref_eqb (a b : bitref) : bool := str_eqb (fst a) (fst b) && (snd a =? snd b).
Definition incl_b {A} (eqb : A -> A -> bool) (a b : list A) : bool := forallb (fun x => existsb (eqb x) b) a.

Definition ostr_eqb (a b : option str) : bool :=
  match a, b with Some x, Some y => str_eqb x y | None, None => true | _, _ => false end.
Definition kv_eqb (a b : str * str) : bool := str_eqb (fst a) (fst b) && str_eqb (snd a) (snd b).
Definition attr_eqb (a b : attr) : bool := str_eqb (fst a) (fst b) && ostr_eqb (snd a) (snd b).
Definition inst_eqb (a b : nv_inst) : bool :=
  str_eqb (ni_name a) (ni_name b) && str_eqb (ni_ref a) (ni_ref b)
  && incl_b kv_eqb (ni_params a) (ni_params b) && incl_b kv_eqb (ni_params b) (ni_params a)
  && incl_b attr_eqb (ni_attrs a) (ni_attrs b) && incl_b attr_eqb (ni_attrs b) (ni_attrs a).

(* every net bit of [a] joins, in [b], at least the same endpoints *)
Definition nets_incl_b (a b : nv_def) : bool :=
  forallb (fun ne => incl_b endpoint_eqb (snd ne) (net_of (fst ne) b)) (nd_nets a).

(* the comparison of the property on one module: ordered ports (name, direction, width, lower index), the instances
   by name (definition, parameters, attributes), the connectivity bit by bit *)
Definition obit_eqb (a b : option bitref) : bool :=
  match a, b with Some x, Some y => bitref_eqb x y | None, None => true | _, _ => false end.
Definition opair_eqb (a b : option bitref * option bitref) : bool := obit_eqb (fst a) (fst b) && obit_eqb (snd a) (snd b).
(* the assignment instances: per pin (o bit, i bit), as lists up to order, same number *)
Definition assigns_b (a b : nv_def) : bool :=
  incl_b (list_eqb opair_eqb) (nd_assigns a) (nd_assigns b) && incl_b (list_eqb opair_eqb) (nd_assigns b) (nd_assigns a)
  && Nat.eqb (length (nd_assigns a)) (length (nd_assigns b)).

Definition same_conn_def_b (a b : nv_def) : bool :=
  assigns_b a b &&
  str_eqb (nd_name a) (nd_name b)
  && list_eqb port_eqb (nd_ports a) (nd_ports b)
  && incl_b inst_eqb (nd_insts a) (nd_insts b) && incl_b inst_eqb (nd_insts b) (nd_insts a)
  && nets_incl_b a b && nets_incl_b b a.

(* over the modules the writer wrote *)
Definition same_conn_b (o : vopts) (n n' : nv) : bool :=
  ostr_eqb (nv_top n) (nv_top n')
  && forallb (fun d => negb (is_written o d) ||
                       match find_ndef n' (nd_name d) with Some d' => same_conn_def_b d d' | None => false end) (nv_defs n).

Definition rt_check (o : vopts) (n : nv) : bool :=
  match emit o n with
  | WOk d => match elab d with Ok n' => same_conn_b o n n' | Err _ => false end
  | _ => false
  end.

(* ---------- what rt_check certifies (statements only; Proofs/VEmitRound.v) ---------- *)
(* the instances of [a] are instances of [b]: same name, same definition, same parameters and attributes *)
Definition insts_in (a b : list nv_inst) : Prop :=
  forall i, In i a -> exists j, In j b /\ ni_name j = ni_name i /\ ni_ref j = ni_ref i /\
    same_set (ni_params i) (ni_params j) /\ same_set (ni_attrs i) (ni_attrs j).

(* the comparison of the property on one module: the ordered ports with direction, width and lower index, the
   instances by name, bit by bit the same connectivity (VDoc.net_of: the endpoints joined to a net bit), and the same
   assignment instances (per pin the o bit and the i bit), as many of them *)
Definition same_conn_def (a b : nv_def) : Prop :=
  nd_name a = nd_name b /\ nd_ports a = nd_ports b /\
  insts_in (nd_insts a) (nd_insts b) /\ insts_in (nd_insts b) (nd_insts a) /\
  (forall r, same_set (net_of r a) (net_of r b)) /\
  same_set (nd_assigns a) (nd_assigns b) /\ length (nd_assigns a) = length (nd_assigns b).

(* same top, and every module the writer writes under the options comes back with the same connectivity *)
Definition same_conn (o : vopts) (n n' : nv) : Prop :=
  nv_top n = nv_top n' /\
  forall d, In d (nv_defs n) -> is_written o d = true -> exists d', In d' (nv_defs n') /\ same_conn_def d d'.

(* ---------- the class on which the round trip is claimed (C04_emit_roundtrip_full; evaluated on every run) ----------
   every port of a written module has a direction and all its pins are on wires of the cable that has the port's
   name (no header alias, no port without a cable: open finding V04-port-without-cable), and the
   document is written (emit succeeds) *)
Definition port_plain (d : nv_def) (p : nv_port) : bool :=
  match np_dir p, np_label p with
  | Some _, LName nm =>
      match cable_idx d nm with
      | Some k => forallb (fun w => match w with Some (c, _) => Nat.eqb c k | None => false end)
                          (pin_wires d (EPort (np_label p)) p)
                  && negb (is_pinset_concatenated (Some k) (pin_wires d (EPort (np_label p)) p))
      | None => false
      end
  | _, _ => false
  end.

Definition writable (o : vopts) (n : nv) : bool :=
  forallb (fun d => negb (is_written o d) || forallb (port_plain d) (nd_ports d)) (nv_defs n)
  && match emit o n with WOk _ => true | _ => false end.
