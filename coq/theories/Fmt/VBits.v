(* Engine `verilog` (C04, C06): executable models of the index mechanisms of the Verilog reader
   (/repo/spydrnet/parsers/verilog/parser.py) and writer (/repo/spydrnet/composers/verilog/composer.py).
   Model only - the proofs are in Proofs/Verilog*.v.

   reader : get_wires_from_cable, the descending sort of parse_cable_concatenation, the low-end alignment of
            parse_port_map_single / connect_implicitly_mapped_ports, create_or_update_cable / _port with
            prepend_* / postpend_* and populate_new_*;
   writer : _write_brackets (slice text), _write_brackets_defining (declaration text),
            _write_concatenation (run-length grouping), _is_pinset_concatenated and the slice chosen by
            _write_instance_port for a port that is not concatenated.

   Wires of a cable and pins of a port are Python lists; list position p of a bundle whose lower_index is lo
   carries the Verilog index lo + p (both the reader and the writer ignore is_downto).
   Character-level tokenisation is not modelled: the "text" of a slice is the value [brk]. *)
From Coq Require Import List ZArith Bool Lia Arith.
Import ListNotations.
Open Scope Z_scope.

(* ---------- Python list primitives ---------- *)
Definition norm_idx (len i : Z) : Z := if i <? 0 then Z.max 0 (i + len) else Z.min i len.

(* l[a:b] *)
Definition py_slice {A} (a b : Z) (l : list A) : list A :=
  let n := Z.of_nat (length l) in
  let a' := norm_idx n a in
  let b' := norm_idx n b in
  firstn (Z.to_nat (b' - a')) (skipn (Z.to_nat a') l).

(* l[i]; None = IndexError *)
Definition py_index {A} (i : Z) (l : list A) : option A :=
  let n := Z.of_nat (length l) in
  let i' := if i <? 0 then i + n else i in
  if (i' <? 0) || (n <=? i') then None else nth_error l (Z.to_nat i').

(* list.sort(reverse=True, key=...) : stable, descending *)
Fixpoint ins_desc {A} (key : A -> Z) (x : A) (l : list A) : list A :=
  match l with
  | [] => [x]
  | y :: l' => if key y <=? key x then x :: y :: l' else y :: ins_desc key x l'
  end.
Definition sort_desc {A} (key : A -> Z) (l : list A) : list A := fold_right (ins_desc key) [] l.

(* ---------- reader: get_wires_from_cable(cable, left, right) ---------- *)
Definition get_wires {A} (lo : Z) (ws : list A) (left right : option Z) : option (list A) :=
  match left, right with
  | Some l, Some r =>
      let l' := l - lo in
      let r' := r - lo in
      Some (rev (py_slice (Z.min l' r') (Z.max l' r' + 1) ws))
  | Some i, None | None, Some i =>
      match py_index (i - lo) ws with Some w => Some [w] | None => None end
  | None, None => Some (rev ws)
  end.

(* ---------- writer: _write_brackets(bundle, low_index, high_index) ---------- *)
Inductive brk := BNone | BIdx (i : Z) | BRange (h l : Z).

Definition opt_is (o : option Z) (v : Z) : bool := match o with None => true | Some x => x =? v end.
Definition inb (lo up x : Z) : bool := (lo <=? x) && (x <=? up).

(* None = AssertionError *)
Definition write_brackets (lo width : Z) (low high : option Z) : option brk :=
  match low, high with
  | None, None => Some BNone
  | _, _ =>
    if width =? 0 then None else
    let up := lo + width - 1 in
    if width =? 1 then
      if opt_is low lo && opt_is high up then Some BNone else None
    else match low, high with
      | Some l, Some h =>
          if (l =? lo) && (h =? up) then Some (BRange h l)
          else if l =? h then (if inb lo up l then Some (BIdx l) else None)
          else if inb lo up l && inb lo up h then Some (BRange h l) else None
      | Some i, None | None, Some i => if inb lo up i then Some (BIdx i) else None
      | None, None => Some BNone
      end
  end.

(* what the reader's parse_variable_instantiation / parse_brackets makes of it: (left, right) *)
Definition read_brackets (b : brk) : option Z * option Z :=
  match b with BNone => (None, None) | BIdx i => (Some i, None) | BRange h l => (Some h, Some l) end.

(* writer: _write_brackets_defining -> "[lo+width-1:lo]" or nothing; reader: populate_new_* *)
Definition write_decl (lo width : Z) : option brk :=
  if width =? 0 then None
  else if (width =? 1) && (lo =? 0) then Some BNone else Some (BRange (lo + width - 1) lo).

(* (lower_index, width) of a freshly populated bundle *)
Definition populate (left right : option Z) : Z * Z :=
  match left, right with
  | Some l, Some r => (Z.min l r, Z.max l r - Z.min l r + 1)
  | Some i, None | None, Some i => (i, 1)
  | None, None => (0, 1)
  end.

(* ---------- writer: _write_concatenation ---------- *)
Definition wire := (nat * Z)%type.            (* (cable, Verilog index) *)
Definition piece := (nat * Z * Z)%type.       (* (cable, low_index, high_index) handed to _write_brackets *)

(* state: None = nothing pending (has_to_write False, previous_cable the dummy);
          Some (c, first_index, previous_index) *)
Fixpoint group (st : option (nat * Z * Z)) (ws : list (option wire)) : list piece :=
  match ws with
  | [] => match st with Some (c, f, p) => [(c, p, f)] | None => [] end
  | None :: r => group st r
  | Some (c, i) :: r =>
      match st with
      | Some (pc, f, p) =>
          if Nat.eqb c pc then
            if i =? p - 1 then group (Some (pc, f, i)) r
            else (pc, p, f) :: group (Some (c, i, i)) r
          else (pc, p, f) :: group (Some (c, i, i)) r
      | None => group (Some (c, i, i)) r
      end
  end.

Definition env := nat -> Z * nat.             (* cable -> (lower_index, number of wires) *)

Fixpoint write_pieces (e : env) (ps : list piece) : option (list (nat * brk)) :=
  match ps with
  | [] => Some []
  | (c, l, h) :: r =>
      match write_brackets (fst (e c)) (Z.of_nat (snd (e c))) (Some l) (Some h), write_pieces e r with
      | Some b, Some t => Some ((c, b) :: t)
      | _, _ => None
      end
  end.

Definition write_concat (e : env) (ws : list (option wire)) : option (list (nat * brk)) :=
  write_pieces e (group None ws).

(* reader: parse_cable_concatenation over the emitted pieces *)
Definition cable_wires (c : nat) (lo : Z) (n : nat) : list wire :=
  map (fun k => (c, lo + Z.of_nat k)) (seq 0 n).

Definition read_piece (e : env) (c : nat) (b : brk) : option (list wire) :=
  let lo := fst (e c) in
  match get_wires lo (cable_wires c lo (snd (e c))) (fst (read_brackets b)) (snd (read_brackets b)) with
  | Some t => Some (sort_desc (fun w : wire => snd w - lo) t)      (* wire_sort_func = position in cable.wires *)
  | None => None
  end.

Fixpoint read_concat (e : env) (t : list (nat * brk)) : option (list wire) :=
  match t with
  | [] => Some []
  | (c, b) :: r =>
      match read_piece e c b, read_concat e r with
      | Some x, Some y => Some (x ++ y)
      | _, _ => None
      end
  end.

(* ---------- reader: low-end alignment of a port map ---------- *)
(* pins : the instance's pins of the port in any order, [pos] = index of the pin in port.pins;
   wires: the expression's wires, most significant first. Result: the connect_pin calls; None = assert *)
Definition align {P W} (pos : P -> Z) (pins : list P) (wires : list W) : option (list (W * P)) :=
  if (length pins <? length wires)%nat then None
  else
    let sorted := sort_desc pos pins in
    let offset := if (length wires <? length pins)%nat then (length pins - length wires)%nat else 0%nat in
    Some (combine wires (skipn offset sorted)).

(* ---------- reader: create_or_update_cable / create_or_update_port ---------- *)
Record bundle := { b_lo : Z; b_items : list nat; b_next : nat }.

(* create_wires(count) / create_pins(count): fresh objects appended *)
Definition create_items (count : Z) (b : bundle) : bundle :=
  {| b_lo := b_lo b;
     b_items := b_items b ++ seq (b_next b) (Z.to_nat count);
     b_next := (b_next b + Z.to_nat count)%nat |}.

(* prepend_wires / prepend_pins *)
Definition prepend (count : Z) (b : bundle) : bundle :=
  let orig := length (b_items b) in
  let b1 := create_items count b in
  {| b_lo := b_lo b1 - count;
     b_items := skipn orig (b_items b1) ++ firstn orig (b_items b1);
     b_next := b_next b1 |}.

Definition in_range (left right : option Z) : option (Z * Z) :=
  match left, right with
  | Some l, Some r => Some (Z.min l r, Z.max l r)
  | Some i, None | None, Some i => Some (i, i)
  | None, None => None
  end.

Definition rebase (defining : bool) (il : Z) (b : bundle) : bundle :=
  if defining then {| b_lo := il; b_items := b_items b; b_next := b_next b |} else b.

Definition grow (il iu : Z) (b : bundle) : bundle :=
  let cl := b_lo b in
  let cu := cl + Z.of_nat (length (b_items b)) - 1 in
  let b1 := if il <? cl then prepend (cl - il) b else b in
  if cu <? iu then create_items (iu - cu) b1 else b1.

(* existing cable *)
Definition update_cable (left right : option Z) (defining : bool) (b : bundle) : bundle :=
  match in_range left right with
  | None => b
  | Some (il, iu) => grow il iu (rebase defining il b)
  end.

(* existing port: nothing is added when the width already matches *)
Definition update_port (left right : option Z) (defining : bool) (b : bundle) : bundle :=
  match in_range left right with
  | None => b
  | Some (il, iu) =>
      let b0 := rebase defining il b in
      if iu - il =? Z.of_nat (length (b_items b0)) - 1 then b0 else grow il iu b0
  end.

(* new bundle (populate_new_cable / populate_new_port), ids from [next] *)
Definition new_bundle (left right : option Z) (next : nat) : bundle :=
  let '(lo, w) := populate left right in
  {| b_lo := lo; b_items := seq next (Z.to_nat w); b_next := (next + Z.to_nat w)%nat |}.

(* the object carrying Verilog index i *)
Definition item_at (b : bundle) (i : Z) : option nat :=
  if i <? b_lo b then None else nth_error (b_items b) (Z.to_nat (i - b_lo b)).
Definition b_hi (b : bundle) : Z := b_lo b + Z.of_nat (length (b_items b)) - 1.

(* ---------- writer: _is_pinset_concatenated and the slice of a plain instance port ---------- *)
(* pins in port order (least significant first); each carries its wire or None *)
Fixpoint concat_scan (name : option nat) (now_none : bool) (last : option Z) (ws : list (option wire)) : bool :=
  match ws with
  | [] => false
  | None :: r => concat_scan name true last r
  | Some (c, i) :: r =>
      let aliased1 := now_none in
      match last with
      | Some li =>
          if negb (i =? li + 1) then true
          else if negb (match name with Some n => Nat.eqb c n | None => false end) && negb now_none then true
          else aliased1 || concat_scan name now_none (Some i) r
      | None =>
          if negb (match name with Some n => Nat.eqb c n | None => false end) && negb now_none then true
          else aliased1 || concat_scan name now_none (Some i) r
      end
  end.

Definition is_pinset_concatenated (name : option nat) (ws : list (option wire)) : bool :=
  concat_scan name false None ws.

(* last wire that is not None *)
Fixpoint last_some (ws : list (option wire)) : option wire :=
  match ws with
  | [] => None
  | x :: r => match last_some r with Some w => Some w | None => x end
  end.

(* _write_instance_port, not concatenated, pins[0] connected: (cable, brackets) written *)
Definition write_plain_port (e : env) (ws : list (option wire)) : option (nat * brk) :=
  match ws with
  | Some (c0, ir) :: _ =>
      match last_some ws with
      | Some (c, il) =>
          match write_brackets (fst (e c)) (Z.of_nat (snd (e c))) (Some ir) (Some il) with
          | Some b => Some (c, b)
          | None => None
          end
      | None => None
      end
  | _ => None
  end.
