(* Model of spydrnet/parsers/eblif/eblif_parser.py (EBLIFParser) from token lines to [bnv].

   Two layers, both following the Python statement by statement:

   [classify]  the control skeleton of parse_eblif / parse_model_helper / parse_model_ports /
               parse_name / parse_instance_info: which handler consumes which line.  It depends on
               the tokens only (never on the netlist built so far), so it is a mode machine over
               the lines:  MTop (outside a model), MHdr (header: .inputs / .outputs / .clock lines in
               any order and number), MPlain (statement loop of parse_model_helper),
               MRows (truth-table rows after .names, check_if_init_values on the peeked token),
               MInfo (parse_instance_info: .param/.cname/.attr).  The three peeking loops look
               through peek_statement, which reads comment lines and skips blank lines: those never
               leave MHdr / MRows / MInfo.
               Lines no handler wants are skipped token by token by the Python loops; they are
               dropped here, provided none of their tokens is a keyword the loop would react to
               (otherwise EOutside: the reader would resynchronise in the middle of a line).
               At end of input peek_statement answers None and has_next ends parse_model_helper:
               in every mode inside a model the model is closed as if by .end (SStop is no longer
               produced).
   [exec]      the effect of every handler on the netlist under construction.
   [finish]    set_subcircuit_names_by_convention, insert_comments_into_netlist_data,
               add_blackbox_definitions.
   No proofs in this file. *)
From Coq Require Import List Arith NArith Bool Lia.
From SV Require Import Base.Base Fmt.Blif.
Import ListNotations.

Inductive stmt :=
| SComment (toks : list str)
| SModel (nm : str)
| SInputs (l : list str)
| SOutputs (l : list str)
| SClock (l : list str)
| SSub (gate : bool) (ref : str) (pairs : list str)
| SNames (nets : list str)
| SCover (a : str) (b : option str)
| SLatch (toks : list str)
| SParam (k v : str)
| SCname (n : str)
| SAttr (k v : str)
| SConn (a b : str)
| SBlackbox
| SEnd
| SStop.          (* before the repair: end of input where the reader peeked (StopIteration); no longer produced *)

Inductive mode := MTop | MHdr (ph : nat) | MPlain | MRows | MInfo.

Definition body_kws : list str :=
  [k_hash; k_subckt; k_gate; k_latch; k_names; k_conn; k_blackbox; k_end].
Definition info_kws : list str := [k_param; k_cname; k_attr].
Definition has_tok (ks : list str) (l : line) : bool :=
  existsb (fun t => existsb (str_eqb t) ks) l.
Definition is_row_tok (t : str) : bool :=
  forallb (fun c => N.eqb c c_0 || N.eqb c c_1 || N.eqb c c_dash) t.

Definition cl_plain (l : line) : result (list stmt * mode) :=
  match l with
  | [] => Ok ([], MPlain)
  | t :: rest =>
    if str_eqb t k_hash then Ok ([SComment rest], MPlain)
    else if str_eqb t k_subckt || str_eqb t k_gate then
      match rest with
      | r :: pairs => Ok ([SSub (str_eqb t k_gate) r pairs], MInfo)
      | [] => Error EOutside
      end
    else if str_eqb t k_latch then Ok ([SLatch rest], MInfo)
    else if str_eqb t k_names then Ok ([SNames rest], MRows)
    else if str_eqb t k_conn then
      match rest with [a; b] => Ok ([SConn a b], MPlain) | _ => Error EOutside end
    else if str_eqb t k_blackbox then
      match rest with [] => Ok ([SBlackbox], MPlain) | _ => Error EOutside end
    else if str_eqb t k_end then
      match rest with [] => Ok ([SEnd], MTop) | _ => Error EOutside end
    else if has_tok body_kws l then Error EOutside
    else Ok ([], MPlain)
  end.

(* after one item of instance info: further tokens on the line end parse_instance_info *)
Definition after_info (s : stmt) (extra : list str) : result (list stmt * mode) :=
  match extra with
  | [] => Ok ([s], MInfo)
  | _ => if has_tok (body_kws ++ info_kws) extra then Error EOutside else Ok ([s], MPlain)
  end.

Definition cl_info (l : line) : result (list stmt * mode) :=
  match l with
  | [] => Ok ([], MInfo)
  | t :: rest =>
    if str_eqb t k_hash then Ok ([SComment rest], MInfo)        (* peek_statement: the comment is read, the info block goes on *)
    else if str_eqb t k_param then
      match rest with k :: v :: extra => after_info (SParam k v) extra | _ => Error EOutside end
    else if str_eqb t k_cname then
      match rest with n :: extra => after_info (SCname n) extra | _ => Error EOutside end
    else if str_eqb t k_attr then
      match rest with k :: v :: extra => after_info (SAttr k v) extra | _ => Error EOutside end
    else cl_plain l
  end.

Definition cl_rows (l : line) : result (list stmt * mode) :=
  match l with
  | t :: rest =>
    if is_row_tok t then
      match rest with
      | [] => Ok ([SCover t None], MRows)
      | [u] => Ok ([SCover t (Some u)], MRows)
      | _ => Error EOutside
      end
    else if str_eqb t k_hash then Ok ([SComment rest], MRows)   (* a comment inside a truth table *)
    else cl_info l
  | [] => Ok ([], MRows)
  end.

(* parse_model_ports: .inputs / .outputs / .clock lines in any order and number; comment lines and
   blank lines between them are read by peek_statement and do not end the header.  [ph] is no longer
   looked at (it is 0 throughout) *)
Definition cl_hdr (ph : nat) (l : line) : result (list stmt * mode) :=
  match l with
  | t :: rest =>
    if str_eqb t k_hash then Ok ([SComment rest], MHdr ph)
    else if str_eqb t k_inputs then Ok ([SInputs rest], MHdr ph)
    else if str_eqb t k_outputs then Ok ([SOutputs rest], MHdr ph)
    else if str_eqb t k_clock then Ok ([SClock rest], MHdr ph)
    else cl_plain l
  | [] => Ok ([], MHdr ph)
  end.

Definition cl_top (l : line) : result (list stmt * mode) :=
  match l with
  | [] => Ok ([], MTop)
  | t :: rest =>
    if str_eqb t k_hash then Ok ([SComment rest], MTop)
    else if str_eqb t k_model then
      match rest with [nm] => Ok ([SModel nm], MHdr 0) | _ => Error EOutside end
    else if has_tok [k_hash; k_model] l then Error EOutside
    else Ok ([], MTop)
  end.

Definition cl_line (md : mode) (l : line) : result (list stmt * mode) :=
  match md with
  | MTop => cl_top l
  | MHdr ph => cl_hdr ph l
  | MPlain => cl_plain l
  | MRows => cl_rows l
  | MInfo => cl_info l
  end.

Fixpoint classify_from (md : mode) (d : doc) : result (list stmt) :=
  match d with
  | [] =>
    match md with
    | MTop => Ok []
    | _ => Ok [SEnd]          (* the end of the file closes the model, wherever it comes *)
    end
  | l :: d' =>
    do '(ss, md') <- cl_line md l;
    do rest <- classify_from md' d';
    Ok (ss ++ rest)
  end.

(* What Tokenizer.generate_tokens hands over: on a statement line a word that starts with "#" begins a
   comment and is dropped with the rest of the line, and "#text" at the start of a line is read as the
   comment "# text".  So no word of a statement line starts with "#", and a comment line starts with the
   word "#".  (Only a backslash continuation that runs into a comment line can produce another line;
   such a document is outside the modelled fragment.) *)
Definition hash_word (t : str) : bool := match t with c :: _ => N.eqb c 35 | [] => false end.
Definition line_tokenized (l : line) : bool :=
  match l with
  | [] => true
  | t :: _ => str_eqb t k_hash || forallb (fun u => negb (hash_word u)) l
  end.
Definition tokenized (d : doc) : bool := forallb line_tokenized d.

Definition classify (d : doc) : result (list stmt) :=
  if tokenized d then classify_from MTop d else Error EOutside.

(* ---------- the reader's state ---------- *)
Record st := mkSt {
  s_nl : bnv;
  s_cur : str;                        (* current_model *)
  s_defnames : list (str * nat);      (* default_names *)
  s_curinst : option nat;             (* current_instance: index in the current model *)
  s_isbb : bool;                      (* is_blackbox of the running parse_model_helper *)
  s_merged : mtable }.                (* merged_wires: wires of the current model emptied by .conn *)

Definition init_st : st := mkSt empty_bnv [] [] None false [].

Definition set_nl (s : st) v := mkSt v (s_cur s) (s_defnames s) (s_curinst s) (s_isbb s) (s_merged s).
Definition st_models (s : st) : list model := b_models (s_nl s).
Definition set_ms (s : st) (ms : list model) : st := set_nl s (set_models (s_nl s) ms).
Definition set_merged (s : st) (al : mtable) : st :=
  mkSt (s_nl s) (s_cur s) (s_defnames s) (s_curinst s) (s_isbb s) al.

Definition get_model (nm : str) (ms : list model) : model :=
  match find_model nm ms with Some m => m | None => new_model nm end.

Definition upd_model_res (nm : str) (f : model -> result model) (ms : list model) : result (list model) :=
  match find_model nm ms with
  | None => Error EAttr
  | Some m => do m' <- f m; Ok (upd_model nm (fun _ => m') ms)
  end.

Definition upd_inst (idx : nat) (f : inst -> inst) (m : model) : model :=
  set_insts m (upd_nth idx f (m_insts m)).

(* the per-definition instance namespace of the DEFAULT policy: a name held by another child
   is refused (ValueError) *)
Fixpoint name_taken_from (pos : nat) (nm : str) (skip : nat) (l : list inst) : bool :=
  match l with
  | [] => false
  | i :: l' =>
    (negb (Nat.eqb pos skip) && match i_name i with Some x => str_eqb x nm | None => false end)
    || name_taken_from (S pos) nm skip l'
  end.
Definition name_taken (nm : str) (skip : nat) (l : list inst) : bool := name_taken_from 0 nm skip l.

Definition set_inst_name (idx : nat) (nm : str) (m : model) : result model :=
  if name_taken nm idx (m_insts m) then Error EValue
  else Ok (upd_inst idx (fun i => set_iname i (Some nm)) m).

(* ---------- header ---------- *)
(* parse_input_ports on a port that an earlier .outputs line created (direction OUT or INOUT): it becomes an
   INOUT port, the pin is not connected again - the mirror image of the .outputs filter of do_output *)
Definition input_io (cur p : str) (ms : list model) : bool :=
  match find_port p (m_ports (get_model cur ms)) with
  | Some q => dir_eqb (p_dir q) DOut || dir_eqb (p_dir q) DInout
  | None => false
  end.

Definition do_input (al : mtable) (cur : str) (acc : result (list model)) (tok : str) : result (list model) :=
  do ms <- acc;
  do '(p, i) <- pni tok;
  if input_io cur p ms then
    Ok (grow_port cur p (S i)
         (upd_model cur (fun m => set_ports m (upd_port p (fun q => set_pdir q DInout) (m_ports m))) ms))
  else
  let ms1 := match find_port p (m_ports (get_model cur ms)) with
             | None => add_port cur (mkPort p DIn 0) ms
             | Some _ => upd_model cur (fun m => set_ports m (upd_port p (fun q => set_pdir q DIn) (m_ports m))) ms
             end in
  let ms2 := grow_port cur p (S i) ms1 in
  upd_model_res cur (connect_to al (PTop p i) p i) ms2.

Definition do_output (al : mtable) (cur : str) (acc : result (list model)) (tok : str) : result (list model) :=
  do ms <- acc;
  do '(p, i) <- pni tok;
  let ms1 := match find_port p (m_ports (get_model cur ms)) with
             | None => add_port cur (mkPort p DOut 0) ms
             | Some _ => ms
             end in
  let d := port_dir p (get_model cur ms1) in
  let inout := dir_eqb d DIn || dir_eqb d DInout in
  let ms2 := upd_model cur (fun m => set_ports m
               (upd_port p (fun q => set_pdir q (if inout then DInout else DOut)) (m_ports m))) ms1 in
  let ms3 := grow_port cur p (S i) ms2 in
  if inout then Ok ms3 else upd_model_res cur (connect_to al (PTop p i) p i) ms3.

(* ---------- instances ---------- *)
(* parse_subcircuit_port *)
Definition do_pair (ref : str) (acc : result (list model * list (str * str))) (tok : str)
  : result (list model * list (str * str)) :=
  do '(ms, info) <- acc;
  let '(formal, actual) := split_eq tok in
  do '(p, i) <- pni formal;
  let ms1 := match find_port p (m_ports (get_model ref ms)) with
             | None => add_port ref (mkPort p DUndef 0) ms
             | Some _ => ms
             end in
  let w := port_width p (get_model ref ms1) in
  let ms2 := if Nat.leb w i then grow_port ref p (S w) ms1 else ms1 in
  Ok (ms2, sassoc_set formal actual info).

Definition new_inst (ref : str) (k : ikind) (pins : list (str * nat)) : inst :=
  mkInst None ref k pins None [] [] [] [].

(* Definition.create_child(reference=definition): appended, pins from the definition as it is now *)
Definition add_child (cur ref : str) (k : ikind) (ms : list model) : list model :=
  let pins := all_pins (get_model ref ms) in
  upd_model cur (fun m => set_insts m (m_insts m ++ [new_inst ref k pins])) ms.

Definition unconn_entry (p : str) (i : nat) : str := p ++ [c_lb] ++ dec i ++ [c_rb].

(* one iteration of connect_instance_pins *)
Definition conn_one (al : mtable) (cur ref : str) (idx : nat) (acc : result (list model)) (fa : str * str)
  : result (list model) :=
  do ms <- acc;
  do '(c, k) <- pni (snd fa);
  do '(p, i) <- pni (fst fa);
  if str_eqb c k_unconn then
    Ok (upd_model cur (upd_inst idx (fun x => set_iunconn x (i_unconn x ++ [unconn_entry p i]))) ms)
  else
    match find_port p (m_ports (get_model ref ms)) with
    | None => Error EStop
    | Some _ =>
      let ms1 := grow_port ref p (S i) ms in
      upd_model_res cur (connect_to al (PInst idx p i) c k) ms1
    end.

Definition connect_instance_pins (al : mtable) (cur ref : str) (idx : nat) (info : list (str * str)) (ms : list model)
  : result (list model) :=
  fold_left (conn_one al cur ref idx) info (Ok ms).

(* assign_instance_a_default_name *)
Definition default_name (tbl : list (str * nat)) (ref : str) : str * list (str * nat) :=
  match sassoc ref tbl with
  | Some k => (ref ++ k_instance ++ dec (S k), sassoc_set ref (S k) tbl)
  | None => (ref ++ k_instance ++ dec 0, sassoc_set ref 0 tbl)
  end.

(* check_hierarchy: the models that hold an instance of [cur] *)
Definition parents_of (cur : str) (ms : list model) : list str :=
  flat_map (fun m => map (fun _ => m_name m) (filter (fun i => str_eqb (i_ref i) cur) (m_insts m))) ms.

Definition check_hierarchy (s : st) (ref : str) : result st :=
  match b_top (s_nl s) with
  | None => Error EAttr
  | Some (_, tr) =>
    if str_eqb ref tr then
      if str_eqb ref (s_cur s) then Error EOutside      (* a model instancing itself *)
      else
        do lvl <- match parents_of (s_cur s) (st_models s) with
                  | [] => Ok (s_cur s)
                  | p :: ps => if forallb (str_eqb p) ps then Ok p else Error EOutside
                  end;
        let n := s_nl s in
        Ok (set_nl s (mkBnv (b_models n) (Some (lvl, lvl)) (Some lvl) (b_comments n) (b_work n) (b_prim n)))
    else Ok s
  end.

Definition names_ports (k : nat) : list port :=
  map (fun i => mkPort (k_in_ ++ dec i) DIn 1) (seq 0 k) ++ [mkPort k_out DOut 1].

Definition ensure_port (r : str) (q : port) (ms : list model) : list model :=
  match find_port (p_name q) (m_ports (get_model r ms)) with
  | Some _ => ms
  | None => add_port r q ms
  end.

Fixpoint zip {A B} (a : list A) (b : list B) : list (A * B) :=
  match a, b with x :: a', y :: b' => (x, y) :: zip a' b' | _, _ => [] end.

Definition dict_of (l : list (str * str)) : list (str * str) :=
  fold_left (fun acc kv => sassoc_set (fst kv) (snd kv) acc) l [].

Definition latch_port (nm : str) : port :=
  mkPort nm (if str_eqb nm k_output then DOut else DIn) 1.

Definition cur_model (s : st) : model := get_model (s_cur s) (st_models s).

(* ---------- .conn ---------- *)
(* get_connected_wires + merge_wires: both cables are looked up (created, grown) under the names
   written in the file; [x] and [y] are the wires that stand for the two operands now.  Wire [x]
   takes the pins of wire [y] (appended in their order); both wires stay where they are, so no
   wire of a bus changes its index and no cable is created beyond the two the statement names *)
Definition do_conn (al : mtable) (a : str) (i : nat) (b : str) (j : nat) (m : model) : result model :=
  let cs1 := ensure_wire a i (m_cables m) in
  let cs2 := ensure_wire b j cs1 in
  let x := merged_into al (a, i) in
  let y := merged_into al (b, j) in
  if nb_eqb x y then Ok (set_cables m cs2)           (* already one wire: nothing to merge *)
  else
    let w := wire_at (fst y) (snd y) cs2 in
    Ok (set_cables m (set_wire (fst y) (snd y) (fun _ => [])
                       (set_wire (fst x) (snd x) (fun w1 => w1 ++ w) cs2))).

(* merged_wires[wire_two] = wire_one *)
Definition note_merged (al : mtable) (a : str) (i : nat) (b : str) (j : nat) : mtable :=
  let x := merged_into al (a, i) in
  let y := merged_into al (b, j) in
  if nb_eqb x y then al else al ++ [(y, x)].

(* ---------- one statement ---------- *)
Definition add_comment (s : st) (toks : list str) : st :=
  let n := s_nl s in
  set_nl s (mkBnv (b_models n) (b_top n) (b_name n) (b_comments n ++ [toks]) (b_work n) (b_prim n)).

Definition upd_cur_inst (s : st) (f : inst -> inst) : result st :=
  match s_curinst s with
  | None => Error EAttr
  | Some idx => Ok (set_ms s (upd_model (s_cur s) (upd_inst idx f) (st_models s)))
  end.

(* common tail of parse_subcircuit / parse_name / parse_latch once the child exists *)
Definition finish_inst (s : st) (ref : str) (idx : nat) (nm : option str) (info : list (str * str))
  (ms : list model) : result st :=
  let '(name, tbl) := match nm with
                      | Some x => (x, s_defnames s)
                      | None => default_name (s_defnames s) ref
                      end in
  do ms1 <- upd_model_res (s_cur s) (set_inst_name idx name) ms;
  do ms2 <- connect_instance_pins (s_merged s) (s_cur s) ref idx info ms1;
  Ok (mkSt (set_models (s_nl s) ms2) (s_cur s) tbl (Some idx) (s_isbb s) (s_merged s)).

Definition exec (s : st) (x : stmt) : result st :=
  match x with
  | SComment toks => Ok (add_comment s toks)
  | SModel nm =>
    let n := s_nl s in
    let ms := upd_model nm (fun m => set_defined m true) (ensure_model nm (b_models n)) in
    let '(top, nlname) := match b_top n with
                          | None => (Some (nm, nm), Some nm)
                          | Some t => (Some t, b_name n)
                          end in
    Ok (mkSt (mkBnv ms top nlname (b_comments n) (b_work n) (b_prim n)) nm [] (s_curinst s) false [])
  | SInputs l => do ms <- fold_left (do_input (s_merged s) (s_cur s)) l (Ok (st_models s)); Ok (set_ms s ms)
  | SOutputs l => do ms <- fold_left (do_output (s_merged s) (s_cur s)) l (Ok (st_models s)); Ok (set_ms s ms)
  | SClock l =>
    Ok (set_ms s (upd_model (s_cur s)
          (fun m => set_clock m (Some (match m_clock m with Some c => c | None => [] end ++ l)))
          (st_models s)))
  | SSub gate ref pairs =>
    do s1 <- check_hierarchy s ref;
    let ms0 := ensure_model ref (st_models s1) in
    do '(ms1, info) <- fold_left (do_pair ref) pairs (Ok (ms0, []));
    let idx := length (m_insts (get_model (s_cur s1) ms1)) in
    let ms2 := add_child (s_cur s1) ref (if gate then KGate else KSub) ms1 in
    finish_inst s1 ref idx None info ms2
  | SNames nets =>
    match rev nets with
    | [] => Error EIndex
    | lastnet :: _ =>
      let k := length nets - 1 in
      let ref := k_logic_gate ++ dec k in
      let ms0 := ensure_model ref (st_models s) in
      let ms1 := fold_left (fun ms q => ensure_port ref q ms) (names_ports k) ms0 in
      let idx := length (m_insts (get_model (s_cur s) ms1)) in
      let ms2 := add_child (s_cur s) ref KNames ms1 in
      let info := dict_of (zip (map p_name (m_ports (get_model ref ms2))) nets) in
      finish_inst s ref idx (if str_eqb lastnet k_unconn then None else Some lastnet) info ms2
    end
  | SCover a b => upd_cur_inst s (fun i => set_icovers i (i_covers i ++ [(a, b)]))
  | SLatch toks =>
    let info := zip latch_order toks in
    let ref := k_latch_def in
    let ms0 := ensure_model ref (st_models s) in
    let ms1 := match m_ports (get_model ref ms0) with
               | [] => fold_left (fun ms kv => ensure_port ref (latch_port (fst kv)) ms) info ms0
                       (* add_port for every key of the dict port_info: the keys are distinct and the
                          definition has no port yet, so "add if absent" is the same *)
               | _ => ms0
               end in
    let idx := length (m_insts (get_model (s_cur s) ms1)) in
    let ms2 := add_child (s_cur s) ref KLatch ms1 in
    match sassoc k_output info with
    | None => Error EKey
    | Some out => finish_inst s ref idx (Some out) info ms2
    end
  | SParam k v => upd_cur_inst s (fun i => set_iparam i (sassoc_set k v (i_param i)))
  | SAttr k v => upd_cur_inst s (fun i => set_iattr i (sassoc_set k v (i_attr i)))
  | SCname nm =>
    match s_curinst s with
    | None => Error EAttr
    | Some idx =>
      let ms0 := upd_model (s_cur s) (upd_inst idx (fun i => set_icname i (Some nm))) (st_models s) in
      do ms1 <- upd_model_res (s_cur s) (set_inst_name idx nm) ms0;
      Ok (set_ms s ms1)
    end
  | SConn a b =>
    do '(an, ai) <- pni a;
    do '(bn, bi) <- pni b;
    do ms <- upd_model_res (s_cur s) (do_conn (s_merged s) an ai bn bi) (st_models s);
    Ok (set_merged (set_ms s ms) (note_merged (s_merged s) an ai bn bi))
  | SBlackbox =>
    (* make_blackbox: every wire of the model is emptied (disconnect_pins_from), then the cables
       are removed: nothing stays attached to them.  The entries of merged_wires speak of wires
       of the removed cables, which no name reaches any more: the table is as good as empty *)
    let ms := upd_model (s_cur s) (fun m => set_cables m []) (st_models s) in
    Ok (mkSt (set_models (s_nl s) ms) (s_cur s) (s_defnames s) (s_curinst s) true [])
  | SEnd =>
    let n := s_nl s in
    match m_lib (cur_model s) with
    | LNone =>
      let l := if s_isbb s then LPrim else LWork in
      let ms := upd_model (s_cur s) (fun m => set_lib m l) (b_models n) in
      Ok (set_nl s (mkBnv ms (b_top n) (b_name n) (b_comments n)
             (if s_isbb s then b_work n else b_work n ++ [s_cur s])
             (if s_isbb s then b_prim n ++ [s_cur s] else b_prim n)))
    | _ => Error EAssert                          (* add_definition: already in a library *)
    end
  | SStop => Error EStop
  end.

Fixpoint exec_all (s : st) (l : list stmt) : result st :=
  match l with
  | [] => Ok s
  | x :: l' => do s' <- exec s x; exec_all s' l'
  end.

(* ---------- finish ---------- *)
Fixpoint find_map {A B} (f : A -> option B) (l : list A) : option B :=
  match l with
  | [] => None
  | x :: l' => match f x with Some y => Some y | None => find_map f l' end
  end.

(* the name set_subcircuit_names_by_convention gives instance [idx] of [m], if any: the pins
   are visited in reverse creation order (get_pins pops from the end of its work list); the
   first connected one whose port is an output decides *)
Definition conv_name (ms : list model) (m : model) (idx : nat) (i : inst) : option str :=
  let r := get_model (i_ref i) ms in
  find_map (fun pb =>
    if dir_eqb (port_dir (fst pb) r) DOut then
      match locate (PInst idx (fst pb) (snd pb)) (m_cables m ++ m_orphans m) with
      | Some (c, n, k) => Some (if Nat.ltb 1 n then c ++ [c_us] ++ dec k else c)
      | None => None
      end
    else None) (rev (i_pins i)).

Definition wants_conv (i : inst) : bool :=
  match i_kind i, i_cname i with
  | (KSub | KGate), None => true
  | _, _ => false
  end.

Fixpoint conv_model (ms : list model) (todo : list nat) (m : model) : result model :=
  match todo with
  | [] => Ok m
  | idx :: todo' =>
    match nth_error (m_insts m) idx with
    | None => Ok m
    | Some i =>
      if wants_conv i then
        match conv_name ms m idx i with
        | Some nm => do m' <- set_inst_name idx nm m; conv_model ms todo' m'
        | None => conv_model ms todo' m
        end
      else conv_model ms todo' m
    end
  end.

Fixpoint conv_all (ms : list model) (l : list model) : result (list model) :=
  match l with
  | [] => Ok []
  | m :: l' =>
    do m' <- conv_model ms (seq 0 (length (m_insts m))) m;
    do rest <- conv_all ms l';
    Ok (m' :: rest)
  end.

Definition finish (s : st) : result bnv :=
  let n := s_nl s in
  do ms <- conv_all (b_models n) (b_models n);
  let undef := map m_name (filter (fun m => negb (m_defined m)) ms) in
  let ms' := map (fun m => if m_defined m then m else set_lib m LPrim) ms in
  Ok (mkBnv ms' (b_top n) (b_name n) (b_comments n) (b_work n) (b_prim n ++ undef)).

Definition elab_stmts (ss : list stmt) : result bnv :=
  do s <- exec_all init_st ss; finish s.

Definition elab (d : doc) : result bnv :=
  do ss <- classify d; elab_stmts ss.
