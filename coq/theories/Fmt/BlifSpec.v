(* Declarative side of C18: well-formedness of a [bnv], what an EBLIF document denotes, the
   supported subset as a boolean predicate, the equivalence used for write-then-read, its boolean
   decision [equiv_b] with the round-trip checker [rt_check], and the structural side condition
   [roundtrippable].  The three booleans supported / roundtrippable / equiv_b are extracted
   (Extract/ExtractBlif.v) and evaluated on every document of the correspondence run.
   Definitions only; the proofs are in Proofs/Blif*.v. *)
From Coq Require Import List Arith NArith Bool Lia.
From SV Require Import Base.Base Fmt.Blif Fmt.BlifRead Fmt.BlifWrite.
Import ListNotations.

(* ====================================================================== well-formedness *)
Definition port_bit (m : model) (p : str) (b : nat) : Prop :=
  exists q, In q (m_ports m) /\ p_name q = p /\ b < p_width q.

(* port [p] bit [b] of the model called [r] *)
Definition sigb (ms : list model) (r p : str) (b : nat) : Prop :=
  exists m, find_model r ms = Some m /\ port_bit m p b.

(* a pin reference names a declared port bit: of the model itself (top-level pin) or of the model
   the instance at that position instantiates *)
Definition pin_ok (ms : list model) (m : model) (pr : pinref) : Prop :=
  match pr with
  | PTop p b => port_bit m p b
  | PInst i p b => exists x, nth_error (m_insts m) i = Some x /\ sigb ms (i_ref x) p b
  end.

Definition cable_pins (cs : list cable) : list pinref := concat (flat_map c_wires cs).
(* every pin that is on some wire the model's pins can reach: its own cables and the detached ones *)
Definition all_wire_pins (m : model) : list pinref := cable_pins (m_cables m ++ m_orphans m).

Record WFm (ms : list model) (m : model) : Prop := {
  wf_pins : forall pr, In pr (all_wire_pins m) -> pin_ok ms m pr;     (* pins name declared port bits *)
  wf_once : NoDup (all_wire_pins m);                                  (* a pin is on one wire, once *)
  wf_mirror : forall x, In x (m_insts m) ->                           (* instances mirror definitions *)
      (exists r, find_model (i_ref x) ms = Some r) /\
      NoDup (i_pins x) /\
      forall p b, In (p, b) (i_pins x) <-> sigb ms (i_ref x) p b;
  wf_ports : NoDup (map p_name (m_ports m));
  wf_cables : NoDup (map c_name (m_cables m));
  wf_self : cable_pins (m_orphans m) = []                             (* self-contained: no pin sits on
                                                                         a cable outside the model *)
}.

Definition WF (n : bnv) : Prop :=
  NoDup (map m_name (b_models n)) /\ Forall (WFm (b_models n)) (b_models n).

(* ====================================================================== grammar segmentation *)
(* The statements of a document as the format defines them (comments and blank lines may stand
   anywhere, .inputs/.outputs/.clock anywhere in a model, .cname/.attr/.param belong to the most
   recent instance statement, truth-table rows to the most recent .names).  [None]: some line is
   not a statement of the subset at all. *)
Inductive gmode := GTop | GBody (rows : bool).

Definition g_line (g : gmode) (l : line) : option (list stmt * gmode) :=
  match l with
  | [] => Some ([], g)
  | t :: rest =>
    if str_eqb t k_hash then Some ([SComment rest], g)
    else match g with
    | GTop =>
      if str_eqb t k_model then match rest with [nm] => Some ([SModel nm], GBody false) | _ => None end
      else None
    | GBody rows =>
      if str_eqb t k_inputs then Some ([SInputs rest], GBody false)
      else if str_eqb t k_outputs then Some ([SOutputs rest], GBody false)
      else if str_eqb t k_clock then Some ([SClock rest], GBody false)
      else if str_eqb t k_subckt || str_eqb t k_gate then
        match rest with r :: pairs => Some ([SSub (str_eqb t k_gate) r pairs], GBody false) | [] => None end
      else if str_eqb t k_names then Some ([SNames rest], GBody true)
      else if str_eqb t k_latch then Some ([SLatch rest], GBody false)
      else if str_eqb t k_param then match rest with [k; v] => Some ([SParam k v], GBody false) | _ => None end
      else if str_eqb t k_attr then match rest with [k; v] => Some ([SAttr k v], GBody false) | _ => None end
      else if str_eqb t k_cname then match rest with [n] => Some ([SCname n], GBody false) | _ => None end
      else if str_eqb t k_conn then match rest with [a; b] => Some ([SConn a b], GBody false) | _ => None end
      else if str_eqb t k_blackbox then match rest with [] => Some ([SBlackbox], GBody false) | _ => None end
      else if str_eqb t k_end then match rest with [] => Some ([SEnd], GTop) | _ => None end
      else if rows && is_row_tok t then
        match rest with
        | [] => Some ([SCover t None], GBody true)
        | [u] => Some ([SCover t (Some u)], GBody true)
        | _ => None
        end
      else None
    end
  end.

Fixpoint grammar_from (g : gmode) (d : doc) : option (list stmt) :=
  match d with
  | [] => match g with GTop => Some [] | GBody _ => Some [SEnd] end   (* .end is optional at the end *)
  | l :: d' =>
    match g_line g l with
    | None => None
    | Some (ss, g') => match grammar_from g' d' with None => None | Some rest => Some (ss ++ rest) end
    end
  end.
Definition grammar (d : doc) : option (list stmt) := grammar_from GTop d.

(* decidable equality of statements *)
Fixpoint strs_eqb (a b : list str) : bool :=
  match a, b with
  | [], [] => true
  | x :: a', y :: b' => str_eqb x y && strs_eqb a' b'
  | _, _ => false
  end.
Definition ostr_eqb (a b : option str) : bool :=
  match a, b with Some x, Some y => str_eqb x y | None, None => true | _, _ => false end.
Definition stmt_eqb (a b : stmt) : bool :=
  match a, b with
  | SComment x, SComment y => strs_eqb x y
  | SModel x, SModel y => str_eqb x y
  | SInputs x, SInputs y | SOutputs x, SOutputs y | SClock x, SClock y => strs_eqb x y
  | SSub g r p, SSub g' r' p' => Bool.eqb g g' && str_eqb r r' && strs_eqb p p'
  | SNames x, SNames y | SLatch x, SLatch y => strs_eqb x y
  | SCover a1 b1, SCover a2 b2 => str_eqb a1 a2 && ostr_eqb b1 b2
  | SParam k v, SParam k' v' | SAttr k v, SAttr k' v' => str_eqb k k' && str_eqb v v'
  | SCname x, SCname y => str_eqb x y
  | SConn a1 b1, SConn a2 b2 => str_eqb a1 a2 && str_eqb b1 b2
  | SBlackbox, SBlackbox | SEnd, SEnd | SStop, SStop => true
  | _, _ => false
  end.
Fixpoint stmts_eqb (a b : list stmt) : bool :=
  match a, b with
  | [], [] => true
  | x :: a', y :: b' => stmt_eqb x y && stmts_eqb a' b'
  | _, _ => false
  end.

(* ====================================================================== sections *)
(* the names of the models a statement list declares, and the statements of the section(s) of one
   model: everything between its .model and the next .model (.end, comments dropped) *)
Fixpoint model_names (ss : list stmt) : list str :=
  match ss with
  | [] => []
  | SModel nm :: r => nm :: model_names r
  | _ :: r => model_names r
  end.

Fixpoint body_of (nm cur : str) (ss : list stmt) : list stmt :=
  match ss with
  | [] => []
  | SModel c :: r => body_of nm c r
  | SEnd :: r => body_of nm cur r
  | SComment _ :: r => body_of nm cur r
  | x :: r => (if str_eqb cur nm then [x] else []) ++ body_of nm cur r
  end.

(* every statement other than a comment stands between a .model and its .end *)
Fixpoint well_nested (inside : bool) (ss : list stmt) : bool :=
  match ss with
  | [] => true
  | SModel _ :: r => well_nested true r
  | SEnd :: r => inside && well_nested false r
  | SComment _ :: r => well_nested inside r
  | _ :: r => inside && well_nested inside r
  end.

(* ---- instances of a section: one per .subckt/.gate/.names/.latch, with the data that follows *)
Record isig := mkIsig {
  g_kind : ikind; g_ref : str; g_cname : option str;
  g_attr : list (str * str); g_param : list (str * str); g_covers : list (str * option str) }.

Definition isig_of_inst (i : inst) : isig :=
  mkIsig (i_kind i) (i_ref i) (i_cname i) (i_attr i) (i_param i) (i_covers i).

Definition upd_last {A} (f : A -> A) (l : list A) : list A :=
  match rev l with [] => [] | x :: r => rev r ++ [f x] end.

Fixpoint spec_insts (acc : list isig) (body : list stmt) : list isig :=
  match body with
  | [] => acc
  | s :: body' =>
    let acc' :=
      match s with
      | SSub gate ref _ => acc ++ [mkIsig (if gate then KGate else KSub) ref None [] [] []]
      | SNames nets => acc ++ [mkIsig KNames (k_logic_gate ++ dec (length nets - 1)) None [] [] []]
      | SLatch _ => acc ++ [mkIsig KLatch k_latch_def None [] [] []]
      | SCover a b => upd_last (fun g => mkIsig (g_kind g) (g_ref g) (g_cname g) (g_attr g) (g_param g) (g_covers g ++ [(a, b)])) acc
      | SCname n => upd_last (fun g => mkIsig (g_kind g) (g_ref g) (Some n) (g_attr g) (g_param g) (g_covers g)) acc
      | SAttr k v => upd_last (fun g => mkIsig (g_kind g) (g_ref g) (g_cname g) (sassoc_set k v (g_attr g)) (g_param g) (g_covers g)) acc
      | SParam k v => upd_last (fun g => mkIsig (g_kind g) (g_ref g) (g_cname g) (g_attr g) (sassoc_set k v (g_param g)) (g_covers g)) acc
      | _ => acc
      end in
    spec_insts acc' body'
  end.

(* ---- attachments: which pin is joined to which net bit ([netbit]: Fmt/Blif.v) *)

Definition nb_of (tok : str) : option netbit :=
  match pni tok with Ok x => Some x | Error _ => None end.

(* formal=actual pairs of one instance statement as (port, bit, actual token), dictionary semantics
   on the formal token (a repeated formal keeps its first position and its last actual) *)
Definition pairs_of (pairs : list str) : list (str * str) := dict_of (map split_eq pairs).

Definition attach_pairs (idx : nat) (fas : list (str * str)) : list (pinref * netbit) :=
  flat_map (fun fa =>
    match nb_of (fst fa), nb_of (snd fa) with
    | Some (p, i), Some (c, k) => if str_eqb c k_unconn then [] else [(PInst idx p i, (c, k))]
    | _, _ => []
    end) fas.

Definition names_port_names (k : nat) : list str := map p_name (names_ports k).

Definition attach_ports (toks : list str) : list (pinref * netbit) :=
  flat_map (fun t => match nb_of t with Some (p, i) => [(PTop p i, (p, i))] | None => [] end) toks.

(* [inputs]: port tokens of .inputs lines seen so far in the section (an .outputs token naming an
   input port makes it INOUT and is not attached again) *)
Fixpoint spec_attach (idx : nat) (ins : list str) (body : list stmt) : list (pinref * netbit) :=
  match body with
  | [] => []
  | s :: body' =>
    match s with
    | SInputs l => attach_ports l ++ spec_attach idx (ins ++ map (fun t => match nb_of t with Some (p, _) => p | None => [] end) l) body'
    | SOutputs l =>
      attach_ports (filter (fun t => match nb_of t with
                                     | Some (p, _) => negb (existsb (str_eqb p) ins)
                                     | None => false end) l)
      ++ spec_attach idx ins body'
    | SSub _ _ pairs => attach_pairs idx (pairs_of pairs) ++ spec_attach (S idx) ins body'
    | SNames nets => attach_pairs idx (zip (names_port_names (length nets - 1)) nets) ++ spec_attach (S idx) ins body'
    | SLatch toks => attach_pairs idx (zip latch_order toks) ++ spec_attach (S idx) ins body'
    | _ => spec_attach idx ins body'
    end
  end.

Fixpoint spec_conns (body : list stmt) : list (netbit * netbit) :=
  match body with
  | [] => []
  | SConn a b :: body' =>
    match nb_of a, nb_of b with
    | Some x, Some y => (x, y) :: spec_conns body'
    | _, _ => spec_conns body'
    end
  | _ :: body' => spec_conns body'
  end.

(* two net bits are the same net: equal, or joined by a chain of .conn statements (in any direction, in
   any order) *)
Inductive same_bit (cs : list (netbit * netbit)) : netbit -> netbit -> Prop :=
| sb_refl x : same_bit cs x x
| sb_conn x y : In (x, y) cs -> same_bit cs x y
| sb_sym x y : same_bit cs x y -> same_bit cs y x
| sb_trans x y z : same_bit cs x y -> same_bit cs y z -> same_bit cs x z.

(* pins [a] and [b] of model [m] are on one wire *)
Definition same_wire (m : model) (a b : pinref) : Prop :=
  exists c w, In c (m_cables m) /\ In w (c_wires c) /\ In a w /\ In b w.

Definition has_blackbox (body : list stmt) : bool :=
  existsb (fun s => match s with SBlackbox => true | _ => false end) body.

(* ---- what the section of model [nm] with statements [body] says about the netlist *)
Record denote_model (n : bnv) (nm : str) (body : list stmt) : Prop := {
  ds_model : exists m, find_model nm (b_models n) = Some m;
  (* one instance per statement, in order, with the named definition, the kind and the data *)
  ds_insts : forall m, find_model nm (b_models n) = Some m ->
      map isig_of_inst (m_insts m) = spec_insts [] body;
  (* every definition named by an instance exists *)
  ds_refs : forall m x, find_model nm (b_models n) = Some m -> In x (m_insts m) ->
      exists r, find_model (i_ref x) (b_models n) = Some r;
  (* connectivity: two pins are on one wire exactly when they are attached to the same net *)
  ds_nets : has_blackbox body = false ->
      forall m, find_model nm (b_models n) = Some m ->
      forall a b, same_wire m a b <->
        exists x y, In (a, x) (spec_attach 0 [] body) /\ In (b, y) (spec_attach 0 [] body) /\
                    same_bit (spec_conns body) x y;
  (* black boxes end up as leaf primitives, other models in library work *)
  ds_lib : forall m, find_model nm (b_models n) = Some m ->
      if has_blackbox body
      then m_lib m = LPrim /\ m_cables m = [] /\ m_insts m = []
      else m_lib m = LWork
}.

(* direction of a port of a declared model: from the .inputs / .outputs lines that name it *)
Definition named_in (kind_inputs : bool) (body : list stmt) (p : str) : bool :=
  existsb (fun s =>
    match s, kind_inputs with
    | SInputs l, true | SOutputs l, false =>
      existsb (fun t => match nb_of t with Some (q, _) => str_eqb p q | None => false end) l
    | _, _ => false
    end) body.

Definition spec_dir (body : list stmt) (p : str) : dir :=
  match named_in true body p, named_in false body p with
  | true, true => DInout
  | true, false => DIn
  | false, true => DOut
  | false, false => DUndef
  end.

Definition denote_dirs (n : bnv) (nm : str) (body : list stmt) : Prop :=
  forall m q, find_model nm (b_models n) = Some m -> In q (m_ports m) ->
    p_dir q = spec_dir body (p_name q).

Definition denote (d : doc) (n : bnv) : Prop :=
  exists ss, grammar d = Some ss /\
    (forall nm, In nm (model_names ss) ->
       denote_model n nm (body_of nm [] ss) /\ denote_dirs n nm (body_of nm [] ss)) /\
    (* models that are instanced but never declared are leaf primitives *)
    (forall m, In m (b_models n) -> m_defined m = false -> m_lib m = LPrim /\ m_cables m = [] /\ m_insts m = []).

(* ====================================================================== the supported subset *)
(* (1) the reader segments the file like the grammar (no statement line is silently skipped);
   (2) a section instancing nothing but primitives that it does not itself redefine: model names
       are distinct, and the reserved definitions logic-gate_N / generic-latch are only created by
       .names / .latch; a black-box section consists of its port lists and .blackbox;
   (3) .latch has two, four or five operands;
   (4) in a section the .inputs lines come before the .outputs lines, those before the .clock lines, those
       before the other statements (comments and blank lines anywhere).
   Nothing is asked of .conn any more: since the repair of merge_wires (the merged net keeps the cable and
   the name of the first operand, the other name stands for it from then on) the statements may come in any
   order, name a net any number of times, and no net name is special. *)
Fixpoint nodup_strs (l : list str) : bool :=
  match l with [] => true | x :: l' => negb (existsb (str_eqb x) l') && nodup_strs l' end.

Definition reserved (nm : str) : bool := is_prefix k_logic_gate nm || str_eqb nm k_latch_def.

(* a black-box section consists of its port lists and .blackbox *)
Definition bb_shape (body : list stmt) : bool :=
  negb (has_blackbox body) ||
  forallb (fun s => match s with SInputs _ | SOutputs _ | SClock _ | SBlackbox => true | _ => false end) body.

(* .latch in out [type control] [init]: with three operands the third is the initial value, which the
   reader takes for the net of port "type"; one, or more than five, operands are not BLIF *)
Definition latch_arity_ok (body : list stmt) : bool :=
  forallb (fun s => match s with
                    | SLatch toks => let k := length toks in Nat.eqb k 2 || Nat.eqb k 4 || Nat.eqb k 5
                    | _ => true
                    end) body.

Definition body_ok (nm : str) (body : list stmt) : bool :=
  bb_shape body &&
  negb (reserved nm) && negb (match nm with [] => true | _ => false end) &&
  forallb (fun s => match s with SSub _ r _ => negb (reserved r) | _ => true end) body &&
  latch_arity_ok body.

(* the order of the port lines of a section the connectivity proof is carried out for: the .inputs lines,
   then the .outputs lines, then the .clock lines, then the other statements; comment lines (and blank
   lines, which give no statement) may stand anywhere between them.  The reader itself accepts the port lines
   of the header in any order and number (cl_hdr), a port named in an .outputs line and in a later .inputs
   line becoming INOUT (do_input / input_io) *)
Fixpoint hdr_sorted (ph : nat) (ss : list stmt) : bool :=
  match ss with
  | [] => true
  | SComment _ :: r => hdr_sorted ph r
  | SModel _ :: r => hdr_sorted 0 r
  | SInputs _ :: r => Nat.eqb ph 0 && hdr_sorted 0 r
  | SOutputs _ :: r => Nat.leb ph 1 && hdr_sorted 1 r
  | SClock _ :: r => Nat.leb ph 2 && hdr_sorted 2 r
  | _ :: r => hdr_sorted 3 r
  end.

(* A document is what the tokenizer hands to the parser: since the repair of generate_tokens a word that
   starts with "#" ends a statement line (the rest of the line is a comment and is not part of the
   document), and "#text" at the start of a line is the comment line "# text"; a "#" inside a word is part
   of the word.  The former condition "no statement line contains #" is gone. *)
Definition supported (d : doc) : bool :=
  match classify d, grammar d with
  | Ok a, Some b =>
    stmts_eqb a b && well_nested false b && nodup_strs (model_names b) &&
    forallb (fun nm => body_ok nm (body_of nm [] b)) (model_names b) && hdr_sorted 3 b
  | _, _ => false
  end.

(* ====================================================================== write-then-read *)
(* instances are compared by name (the writer groups them by type), pins by (instance name, port,
   bit); data = type, definition, attributes, parameters, truth table; a .cname present before is
   still there (the writer adds one to every instance) *)
Definition inst_named (m : model) (nm : str) (i : inst) : Prop :=
  In i (m_insts m) /\ i_name i = Some nm.

Definition same_data (i j : inst) : Prop :=
  i_kind i = i_kind j /\ i_ref i = i_ref j /\ i_attr i = i_attr j /\ i_param i = i_param j /\
  i_covers i = i_covers j /\ (forall c, i_cname i = Some c -> i_cname j = Some c).

Inductive npin := NTop (p : str) (b : nat) | NInst (inst : str) (p : str) (b : nat).

Definition npin_of (m : model) (pr : pinref) : option npin :=
  match pr with
  | PTop p b => Some (NTop p b)
  | PInst i p b => match nth_error (m_insts m) i with
                   | Some x => match i_name x with Some nm => Some (NInst nm p b) | None => None end
                   | None => None
                   end
  end.

Definition same_net_named (m : model) (a b : npin) : Prop :=
  exists pa pb, npin_of m pa = Some a /\ npin_of m pb = Some b /\ same_wire m pa pb.

Definition equiv_model (m m' : model) : Prop :=
  (forall nm i, inst_named m nm i -> exists j, inst_named m' nm j /\ same_data i j) /\
  (forall nm j, inst_named m' nm j -> exists i, inst_named m nm i /\ same_data i j) /\
  (forall a b, a <> b -> (same_net_named m a b <-> same_net_named m' a b)).

(* the models the writer keeps: the top model and what is instanced below it *)
Definition equiv (n n' : bnv) : Prop :=
  match b_top n, b_top n' with
  | Some (_, t), Some (_, t') =>
    t = t' /\
    forall nm, In nm (reach (S (length (b_models n) + total_insts (b_models n))) (b_models n) [t] []) ->
      m_lib (get_model nm (b_models n)) <> LPrim ->
      exists m', find_model nm (b_models n') = Some m' /\ equiv_model (get_model nm (b_models n)) m'
  | None, None => True
  | _, _ => False
  end.

Definition C18_roundtrip_statement : Prop :=
  forall d n, elab d = Ok n -> exists n', elab (emit n) = Ok n' /\ equiv n n'.

(* ====================================================================== write-then-read, decidably *)
(* [equiv_b] decides [equiv] (soundness: Proofs/BlifRound.v); [rt_check n] runs the written file of
   [n] through the reader and compares: a checker of the round trip of one netlist.
   [roundtrippable n] is the structural side condition under which the round trip is claimed to
   succeed: it excludes the classes of netlist on which C18_full fails (see Props/C18.v). *)
Definition npin_eqb (a b : npin) : bool :=
  match a, b with
  | NTop p x, NTop q y => str_eqb p q && Nat.eqb x y
  | NInst i p x, NInst j q y => str_eqb i j && str_eqb p q && Nat.eqb x y
  | _, _ => false
  end.

Definition onpin_is (m : model) (a : npin) (pr : pinref) : bool :=
  match npin_of m pr with Some x => npin_eqb x a | None => false end.

Definition snn_b (m : model) (a b : npin) : bool :=
  existsb (fun c => existsb (fun w => existsb (onpin_is m a) w && existsb (onpin_is m b) w) (c_wires c)) (m_cables m).

(* the wires of a model as lists of named pins *)
Definition named_wires (m : model) : list (list npin) :=
  map (fun w => flat_map (fun pr => match npin_of m pr with Some x => [x] | None => [] end) w)
      (flat_map c_wires (m_cables m)).

Definition snn_w (ws : list (list npin)) (a b : npin) : bool :=
  existsb (fun w => existsb (npin_eqb a) w && existsb (npin_eqb b) w) ws.

Definition npins (m : model) : list npin := concat (named_wires m).

(* every two pins of a wire of one model share a wire of the other, both ways *)
Definition nets_eq_b (m m' : model) : bool :=
  let ws := named_wires m in
  let ws' := named_wires m' in
  forallb (fun w => forallb (fun a => forallb (fun b => npin_eqb a b || snn_w ws' a b) w) w) ws &&
  forallb (fun w => forallb (fun a => forallb (fun b => npin_eqb a b || snn_w ws a b) w) w) ws'.

Definition kind_eqb (a b : ikind) : bool :=
  match a, b with KSub, KSub | KGate, KGate | KNames, KNames | KLatch, KLatch => true | _, _ => false end.

Fixpoint kvs_eqb (a b : list (str * str)) : bool :=
  match a, b with
  | [], [] => true
  | (k, v) :: a', (k', v') :: b' => str_eqb k k' && str_eqb v v' && kvs_eqb a' b'
  | _, _ => false
  end.

Fixpoint covers_eqb (a b : list (str * option str)) : bool :=
  match a, b with
  | [], [] => true
  | (k, v) :: a', (k', v') :: b' => str_eqb k k' && ostr_eqb v v' && covers_eqb a' b'
  | _, _ => false
  end.

Definition same_data_b (i j : inst) : bool :=
  kind_eqb (i_kind i) (i_kind j) && str_eqb (i_ref i) (i_ref j) && kvs_eqb (i_attr i) (i_attr j) &&
  kvs_eqb (i_param i) (i_param j) && covers_eqb (i_covers i) (i_covers j) &&
  match i_cname i with Some c => ostr_eqb (i_cname j) (Some c) | None => true end.

Definition insts_fwd_b (m m' : model) : bool :=
  forallb (fun i => match i_name i with
                    | Some nm => existsb (fun j => ostr_eqb (i_name j) (Some nm) && same_data_b i j) (m_insts m')
                    | None => true
                    end) (m_insts m).

Definition insts_bwd_b (m m' : model) : bool :=
  forallb (fun j => match i_name j with
                    | Some nm => existsb (fun i => ostr_eqb (i_name i) (Some nm) && same_data_b i j) (m_insts m)
                    | None => true
                    end) (m_insts m').

Definition equiv_model_b (m m' : model) : bool := insts_fwd_b m m' && insts_bwd_b m m' && nets_eq_b m m'.

(* the declared ports (those with a direction) of the models the writer keeps: name, direction, width *)
Definition ports_view (m : model) : list (str * dir * nat) :=
  map (fun q => (p_name q, p_dir q, p_width q)) (filter (fun q => negb (dir_eqb (p_dir q) DUndef)) (m_ports m)).

Definition same_ports (m m' : model) : Prop := forall x, In x (ports_view m) <-> In x (ports_view m').

Definition equiv_ports (n n' : bnv) : Prop :=
  match b_top n with
  | Some (_, t) =>
    forall nm, In nm (reach (S (length (b_models n) + total_insts (b_models n))) (b_models n) [t] []) ->
      m_lib (get_model nm (b_models n)) <> LPrim ->
      forall m', find_model nm (b_models n') = Some m' -> same_ports (get_model nm (b_models n)) m'
  | None => True
  end.

Definition pv_eqb (a b : str * dir * nat) : bool :=
  str_eqb (fst (fst a)) (fst (fst b)) && dir_eqb (snd (fst a)) (snd (fst b)) && Nat.eqb (snd a) (snd b).

Definition same_ports_b (m m' : model) : bool :=
  forallb (fun x => existsb (pv_eqb x) (ports_view m')) (ports_view m) &&
  forallb (fun x => existsb (pv_eqb x) (ports_view m)) (ports_view m').

(* the named pins that sit on some wire; every definition reached from the top still exists *)
Definition same_pins (m m' : model) : Prop := forall a, In a (npins m) <-> In a (npins m').

Definition equiv_pins (n n' : bnv) : Prop :=
  match b_top n with
  | Some (_, t) =>
    forall nm, In nm (reach (S (length (b_models n) + total_insts (b_models n))) (b_models n) [t] []) ->
      (exists m', find_model nm (b_models n') = Some m') /\
      (m_lib (get_model nm (b_models n)) <> LPrim ->
       forall m', find_model nm (b_models n') = Some m' -> same_pins (get_model nm (b_models n)) m')
  | None => True
  end.

Definition same_pins_b (m m' : model) : bool :=
  forallb (fun a => existsb (npin_eqb a) (npins m')) (npins m) &&
  forallb (fun a => existsb (npin_eqb a) (npins m)) (npins m').

Definition equiv_b (n n' : bnv) : bool :=
  match b_top n, b_top n' with
  | Some (_, t), Some (_, t') =>
    str_eqb t t' &&
    forallb (fun nm => match find_model nm (b_models n') with
                       | Some m' => lib_eqb (m_lib (get_model nm (b_models n))) LPrim ||
                                    (equiv_model_b (get_model nm (b_models n)) m' &&
                                     same_ports_b (get_model nm (b_models n)) m' &&
                                     same_pins_b (get_model nm (b_models n)) m')
                       | None => false
                       end)
            (reach (S (length (b_models n) + total_insts (b_models n))) (b_models n) [t] [])
  | None, None => true
  | _, _ => false
  end.

Definition rt_check (n : bnv) : bool :=
  match elab (emit n) with Ok n' => equiv_b n n' | Error _ => false end.

(* ---- the structural side condition ---- *)
(* every top-level pin sits on the wire its own name designates (only .conn moves it elsewhere):
   the writer names the port by itself and the net by its cable *)
Definition ports_on_own_nets (m : model) : bool :=
  forallb (fun c =>
    forallb (fun kw =>
      forallb (fun pr => match pr with
                         | PTop p b => str_eqb p (c_name c) && Nat.eqb b (fst kw)
                         | PInst _ _ _ => true
                         end) (snd kw)) (indexed (c_wires c))) (m_cables m).

(* the instances in the order the writer emits them *)
Definition written_insts (m : model) : list (nat * inst) :=
  flat_map (fun k => filter (fun ni => kind_is k (snd ni)) (indexed (m_insts m))) [KSub; KGate; KNames; KLatch].

(* the name the reader gives an instance statement of the written file before it reads its .cname *)
Definition reread_first_name (ms : list model) (m : model) (tbl : list (str * nat)) (ni : nat * inst)
  : option str * list (str * nat) :=
  let '(idx, i) := ni in
  match i_kind i with
  | KSub | KGate => let '(nm, tbl') := default_name tbl (i_ref i) in (Some nm, tbl')
  | KNames =>
    match rev (names_line ms m idx i) with
    | lastnet :: _ :: _ =>
      if str_eqb lastnet k_unconn then let '(nm, tbl') := default_name tbl (i_ref i) in (Some nm, tbl')
      else (Some lastnet, tbl)
    | _ => (None, tbl)
    end
  | KLatch =>
    match latch_line m idx i with
    | _ :: _ :: out :: _ => (Some out, tbl)
    | _ => (None, tbl)
    end
  end.

Fixpoint reread_names_from (ms : list model) (m : model) (tbl : list (str * nat)) (seen : list str)
  (l : list (nat * inst)) : bool :=
  match l with
  | [] => true
  | ni :: l' =>
    match reread_first_name ms m tbl ni, i_name (snd ni) with
    | (Some first, tbl'), Some final =>
      negb (existsb (str_eqb first) seen) && negb (existsb (str_eqb final) seen) &&
      reread_names_from ms m tbl' (seen ++ [final]) l'
    | _, _ => false
    end
  end.

Definition reread_names_ok (ms : list model) (m : model) : bool :=
  reread_names_from ms m [] [] (written_insts m).

(* no definition instantiates itself, directly or not: every chain of instantiations from [nm] ends *)
Fixpoint depth_ok (fuel : nat) (ms : list model) (nm : str) : bool :=
  match fuel with
  | O => false
  | S f => forallb (fun i => depth_ok f ms (i_ref i)) (m_insts (get_model nm ms))
  end.

(* every bit of a port with a direction is attached: the writer names all bits of such a port *)
Definition port_bits_attached (m : model) : bool :=
  forallb (fun q => dir_eqb (p_dir q) DUndef ||
                    forallb (fun b => cables_have (PTop (p_name q) b) (m_cables m)) (seq 0 (p_width q))) (m_ports m).

(* formal=actual is split at the first "=": no port of an instance written as .subckt/.gate may have
   the character in its name *)
Definition formals_ok (m : model) : bool :=
  forallb (fun i => match i_kind i with
                    | KSub | KGate => forallb (fun pb => negb (existsb (N.eqb c_eq) (fst pb))) (i_pins i)
                    | _ => true
                    end) (m_insts m).

(* the data of an instance comes back as it is: attribute and parameter keys are distinct (they are
   dictionaries), truth-table rows start with a row token and belong to .names instances only, a .names
   instance references logic-gate_<number of its operands - 1>, a .latch instance generic-latch *)
Fixpoint nodup_keys (l : list (str * str)) : bool :=
  match l with [] => true | (k, _) :: l' => negb (existsb (fun kv => str_eqb k (fst kv)) l') && nodup_keys l' end.

Definition data_ok (ms : list model) (m : model) (ni : nat * inst) : bool :=
  let '(idx, i) := ni in
  nodup_keys (i_attr i) && nodup_keys (i_param i) &&
  match i_kind i with
  | KSub | KGate => match i_covers i with [] => true | _ => false end
  | KNames => str_eqb (i_ref i) (k_logic_gate ++ dec (length (tl (names_line ms m idx i)) - 1))
  | KLatch => str_eqb (i_ref i) k_latch_def && match i_covers i with [] => true | _ => false end
  end.

Definition names_some (m : model) : bool :=
  forallb (fun i => match i_name i with Some _ => true | None => false end) (m_insts m).

Definition rows_ok (m : model) : bool :=
  forallb (fun i => forallb (fun c => is_row_tok (fst c)) (i_covers i)) (m_insts m).

(* the models the writer writes as sections of their own *)
Definition written_names (n : bnv) : list str :=
  match b_top n with
  | None => []
  | Some (_, tr) =>
    let ms := b_models n in
    filter (fun nm => negb (lib_eqb (m_lib (get_model nm ms)) LPrim)) (reach (S (length ms + total_insts ms)) ms [tr] [])
  end.

Definition roundtrippable0 (n : bnv) : bool :=
  match b_top n with
  | None => true
  | Some (_, tr) =>
    let ms := b_models n in
    negb (lib_eqb (m_lib (get_model tr ms)) LPrim) &&
    depth_ok (S (length ms)) ms tr &&
    forallb (fun nm => match m_insts (get_model nm ms) with [] => true | _ => false end)
            (filter (fun nm => lib_eqb (m_lib (get_model nm ms)) LPrim) (reach (S (length ms + total_insts ms)) ms [tr] [])) &&
    forallb (fun nm => let m := get_model nm ms in
               ports_on_own_nets m && port_bits_attached m && formals_ok m && reread_names_ok ms m &&
               names_some m && rows_ok m && forallb (data_ok ms m) (written_insts m))
            (written_names n)
  end.

(* ... and the written file is a document of the tokenizer: no name that is written as a word starts with
   "#" (since the repair of generate_tokens such a word would begin a comment on re-reading) *)
Definition roundtrippable (n : bnv) : bool := roundtrippable0 n && tokenized (emit n).

(* the round trip on the fragment: NOT proved in general (checked case by case by [rt_check],
   whose verdict is proved sound, on every document the correspondence run generates) *)
Definition C18_roundtrip_on_fragment : Prop :=
  forall d n, elab d = Ok n -> roundtrippable n = true ->
    exists n', elab (emit n) = Ok n' /\ equiv n n' /\ equiv_ports n n' /\ equiv_pins n n'.
