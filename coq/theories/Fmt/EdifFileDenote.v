(* Declarative meaning of an EDIF document: [denote_file d n] = "the netlist value n is what the
   document d says". Written over the document and the WHOLE result, not over reader state:
   a construct is looked at through [sel] (the children with a given keyword, in file order),
   declarations give objects (Forall2, same order), references are resolved in the result as a
   whole (so "declared later" is not excluded here: that is the reader's restriction, part of
   [supported] for the completeness direction), joined lists give connections through the
   per-cell meaning [denote_conn] of Fmt/EdifNetsSpec.v.

   Clauses that describe a choice of the reader rather than of the format are marked (R):
   (R1) a cell / instance whose display name is already taken by an earlier sibling is named by
        its identifier (finding C05-K12): the name is the display name OR the identifier;
   (R2) (member p z) with z < 0 counts from the end (Python indexing): [py_index];
   (R3) of several instanceRef in one portRef the last one counts;
   (R4) the status, properties and comments written inside the design construct are not kept.
   An instance has a viewRef, an array port a size >= 1, a file at most one design construct: a
   document that lacks one of these denotes nothing (and is refused by the reader).
   No proofs in this file. *)
From Coq Require Import String.
From Coq Require Import List NArith ZArith Bool.
From SV Require Import Base.Base Fmt.EdifLex Fmt.EdifName Fmt.EdifCable Fmt.EdifBus Fmt.EdifNets
  Fmt.EdifNetsSpec Fmt.EdifFile Fmt.EdifFileSpec.
Import ListNotations.

(* children with keyword k (compared case-insensitively): their argument lists, in file order *)
Definition kw_of (x : sexp) : option (str * list sexp) :=
  match x with SList (Atom a :: l) => Some (lower a, l) | _ => None end.

Fixpoint sel (k : string) (l : list sexp) : list (list sexp) :=
  match l with
  | [] => []
  | x :: l' =>
    match kw_of x with
    | Some (a, args) => if kweq a k then args :: sel k l' else sel k l'
    | None => sel k l'
    end
  end.

(* nameDef: identifier and optional original name *)
Inductive decl_nd : sexp -> str -> option str -> Prop :=
| dn_plain a : decl_nd (Atom a) a None
| dn_rename k a s v : is_kw "rename" k = true -> unescape_value s = Ok v ->   (* %34% in the text is the double quote *)
                       decl_nd (SList [k; Atom a; Str s]) a (Some v).

Definition display (i : str) (o : option str) : str := match o with Some s => s | None => i end.

(* ---- properties ---- *)
Inductive decl_value : sexp -> pval -> Prop :=
| dv_int k a z : is_kw "integer" k = true \/ is_kw "number" k = true -> int_tok a = Some z ->
                 decl_value (SList [k; Atom a]) (PVInt z)
| dv_str k s v : is_kw "string" k = true -> unescape_value s = Ok v ->       (* %34% in the text is the double quote *)
                 decl_value (SList [k; Str s]) (PVStr v)
| dv_bool k b v : is_kw "boolean" k = true ->
                  (is_kw "true" b = true /\ v = true \/ is_kw "false" b = true /\ v = false) ->
                  decl_value (SList [k; SList [b]]) (PVBool v).

Definition denote_prop (args : list sexp) (p : nvprop) : Prop :=
  exists nd tv rest, args = nd :: tv :: rest /\ decl_nd nd (pr_ident p) (pr_orig p) /\ decl_value tv (pr_val p).

(* ---- ports ---- *)
Inductive decl_port_head : sexp -> str -> option str -> N -> bool -> Prop :=
| dp_scalar nd i o : decl_nd nd i o -> decl_port_head nd i o 1%N false
| dp_array k nd a i o z : is_kw "array" k = true -> decl_nd nd i o -> int_tok a = Some z -> (1 <= z)%Z ->
                          decl_port_head (SList [k; nd; Atom a]) i o (Z.to_N z) true.

Definition dir_of (rest : list sexp) : N :=
  match sel "direction" rest with
  | [Atom d] :: _ => if kweq (lower d) "inout" then 3%N else if kweq (lower d) "input" then 1%N
                     else if kweq (lower d) "output" then 2%N else 0%N
  | _ => 0%N
  end.

Definition denote_port (args : list sexp) (p : nvport) : Prop :=
  exists nd rest o, args = nd :: rest /\ decl_port_head nd (po_ident p) o (po_width p) (po_array p) /\
                    po_name p = display (po_ident p) o /\ po_dir p = dir_of rest.

(* ---- instances ---- *)
(* (viewRef v [(cellRef c [(libraryRef l)])]) names cell (li, ci) of the result F *)
Definition refers (F : list nvlib) (curlib curcell : str) (vargs : list sexp) (li ci : str) : Prop :=
  match vargs with
  | [Atom _] => li = curlib /\ ci = curcell
  | [Atom _; SList [_; Atom c]] =>
    li = curlib /\ lower ci = lower c /\ exists D, lookup_cell F li ci = Some D
  | [Atom _; SList [_; Atom c; SList [_; Atom l]]] =>
    lower li = lower l /\ lower ci = lower c /\ exists D, lookup_cell F li ci = Some D
  | _ => False
  end.

Definition denote_inst (F : list nvlib) (curlib curcell : str) (args : list sexp) (I : nvinst) : Prop :=
  exists nd rest o, args = nd :: rest /\ decl_nd nd (in_ident I) o /\
    (in_name I = display (in_ident I) o \/ in_name I = in_ident I) /\                     (* R1 *)
    Forall2 denote_prop (sel "property" rest) (in_props I) /\
    match sel "viewref" rest with
    | [] => False
    | vargs :: _ => exists li ci, in_ref I = Some (li, ci) /\ refers F curlib curcell vargs li ci
    end.

(* ---- pins and nets ---- *)
Fixpoint last_instref (l : list sexp) (acc : option str) : option str :=
  match l with
  | [] => acc
  | x :: l' =>
    match kw_of x with
    | Some (k, [Atom a]) => if kweq k "instanceref" then last_instref l' (Some a) else last_instref l' acc
    | _ => last_instref l' acc
    end
  end.

Inductive decl_target : sexp -> str -> Z -> Prop :=
| dt_plain p : decl_target (Atom p) p 0%Z
| dt_member k nd a p o z : is_kw "member" k = true -> decl_nd nd p o -> int_tok a = Some z ->
                           decl_target (SList [k; nd; Atom a]) p z.

Definition port_pin (ports : list nvport) (p : str) (z : Z) (pi : str) (k : N) : Prop :=
  exists Q, In Q ports /\ lower (po_ident Q) = lower p /\ pi = po_ident Q /\ py_index z (po_width Q) = Some k.  (* R2 *)

Definition denote_pin (F : list nvlib) (ports : list nvport) (insts : list nvinst) (args : list sexp) (x : pd) : Prop :=
  exists tgt rest p z, args = tgt :: rest /\ decl_target tgt p z /\
    match last_instref rest None with                                                     (* R3 *)
    | None => exists pi k, x = PTop pi k /\ port_pin ports p z pi k
    | Some i => exists I li ci D pi k, x = PInst (in_ident I) pi k /\ In I insts /\ lower (in_ident I) = lower i /\
                  in_ref I = Some (li, ci) /\ lookup_cell F li ci = Some D /\ port_pin (ce_ports D) p z pi k
    end.

Definition denote_net (F : list nvlib) (ports : list nvport) (insts : list nvinst) (args : list sexp) (nt : net pd) : Prop :=
  exists nd j jargs rest o, args = nd :: SList (j :: jargs) :: rest /\ is_kw "joined" j = true /\
    decl_nd nd (n_ident nt) o /\ n_name nt = display (n_ident nt) o /\
    Forall2 (denote_pin F ports insts) (sel "portref" jargs) (n_pins nt).

(* the part of a cell item the meaning looks at: (cell nd ct .. (view vn vt (interface ..) .. (contents ..) ..) ..) *)
Definition view_args (rest : list sexp) : option (list sexp) :=
  match sel "view" rest with v :: _ => Some v | [] => None end.
Definition interface_items (vargs : list sexp) : list sexp :=
  match vargs with _ :: _ :: SList (_ :: items) :: _ => items | _ => [] end.
Definition contents_items (vargs : list sexp) : list sexp :=
  match vargs with _ :: _ :: _ :: rest => match sel "contents" rest with c :: _ => c | [] => [] end | _ => [] end.

(* [conn] = how the nets of a cell determine its cables; instantiated with [read_nets] (what the
   reader does, unconditionally) and, for supported documents, [denote_conn] (the meaning) *)
Definition denote_cell (conn : list (net pd) -> list (entry pd) -> Prop)
  (F : list nvlib) (curlib : str) (args : list sexp) (C : nvcell) : Prop :=
  exists nd ct rest o, args = nd :: ct :: rest /\ decl_nd nd (ce_ident C) o /\
    (ce_name C = display (ce_ident C) o \/ ce_name C = ce_ident C) /\                     (* R1 *)
    match view_args rest with
    | None => ce_view C = None /\ ce_ports C = [] /\ ce_insts C = [] /\ ce_cabs C = []
    | Some vargs =>
      (exists vn vrest v vo, vargs = vn :: vrest /\ decl_nd vn v vo /\ ce_view C = Some v) /\
      Forall2 denote_port (sel "port" (interface_items vargs)) (ce_ports C) /\
      Forall2 (denote_inst F curlib (ce_ident C)) (sel "instance" (contents_items vargs)) (ce_insts C) /\
      exists nets, Forall2 (denote_net F (ce_ports C) (ce_insts C)) (sel "net" (contents_items vargs)) nets /\
                   conn nets (ce_cabs C)
    end.

Definition is_lib_item (x : sexp) : bool :=
  match kw_of x with Some (k, _) => kweq k "library" || kweq k "external" | None => false end.
Fixpoint lib_items (l : list sexp) : list (list sexp) :=
  match l with
  | [] => []
  | x :: l' => if is_lib_item x then match kw_of x with Some (_, a) => a :: lib_items l' | None => lib_items l' end
               else lib_items l'
  end.

Definition denote_lib (conn : list (net pd) -> list (entry pd) -> Prop)
  (F : list nvlib) (args : list sexp) (L : nvlib) : Prop :=
  exists nd rest o, args = nd :: rest /\ decl_nd nd (li_ident L) o /\ li_name L = display (li_ident L) o /\
    Forall2 (denote_cell conn F (li_ident L)) (sel "cell" rest) (li_cells L).

(* (design nd (cellRef x (libraryRef y)) ..): the top instance references the cell of the result
   whose identifiers are x / y case-insensitively; what follows the cellRef is not kept (R4) *)
Definition denote_top (F : list nvlib) (args : list sexp) (t : nvtop) : Prop :=
  exists nd k1 x k2 y tl o, args = nd :: SList [k1; Atom x; SList [k2; Atom y]] :: tl /\
    is_kw "cellref" k1 = true /\ is_kw "libraryref" k2 = true /\
    decl_nd nd (tp_ident t) o /\ tp_name t = display (tp_ident t) o /\
    lower (tp_lib t) = lower y /\ lower (tp_cell t) = lower x /\
    exists D, lookup_cell F (tp_lib t) (tp_cell t) = Some D.

(* every library / external item of the body, wherever it stands; at most one design *)
Definition denote_file_with (conn : list (net pd) -> list (entry pd) -> Prop) (d : sexp) (n : nvfile) : Prop :=
  exists e nd ver lvl km items o, d = SList (e :: nd :: ver :: lvl :: km :: items) /\
    decl_nd nd (nf_ident n) o /\ nf_name n = display (nf_ident n) o /\
    Forall2 (denote_lib conn (nf_libs n)) (lib_items items) (nf_libs n) /\
    match sel "design" items with
    | [] => nf_top n = None
    | [dargs] => exists t, nf_top n = Some t /\ denote_top (nf_libs n) dargs t
    | _ :: _ :: _ => False
    end.

(* what the reader does with the nets of a cell, stated on the denoted nets *)
Definition conn_read (nets : list (net pd)) (cabs : list (entry pd)) : Prop := read_nets [] nets = Some cabs.

Definition denote_file (d : sexp) (n : nvfile) : Prop := denote_file_with denote_conn d n.

(* ---- the supported subset (decidable on the document) for the soundness direction: in every
   cell the nets satisfy [nets_ok] (no bit given twice, no scalar net named like a bus of the
   cell, no short identifier owned by another net: findings C05-K11, K13, K10) ---- *)
Definition nd_names (nd : sexp) : str * str :=
  match nd with
  | Atom a => (a, a)
  | SList [_; Atom a; Str s] => (a, match unescape_value s with Ok v => v | Err _ => [] end)
  | _ => ([], [])
  end.
Definition net_names (args : list sexp) : net pd :=
  match args with nd :: _ => (fst (nd_names nd), snd (nd_names nd), []) | [] => ([], [], []) end.

Definition cell_nets_ok (cargs : list sexp) : bool :=
  match cargs with
  | _ :: _ :: rest => match view_args rest with
                      | Some vargs => nets_okb (map net_names (sel "net" (contents_items vargs)))
                      | None => true
                      end
  | _ => true
  end.
Definition lib_nets_ok (largs : list sexp) : bool :=
  match largs with _ :: rest => forallb cell_nets_ok (sel "cell" rest) | [] => true end.
Definition supported (d : sexp) : bool :=
  match d with
  | SList (_ :: _ :: _ :: _ :: _ :: items) => forallb lib_nets_ok (lib_items items)
  | _ => true
  end.
