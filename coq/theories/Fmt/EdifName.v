(* Model of EdifParser.separate_name_and_index (spydrnet/parsers/edif/parser.py:1065-1113) and of
   the writer's per-bit net names (composer.py:441-452), with the Python string primitives they
   use (str.split, str.isdigit, int, str(int), slicing).

   Writer, for wire number k of a cable that is an array or has more than one wire:
       idx        = k + cable.lower_index
       identifier = cable["EDIF.identifier"] + "_" + str(idx) + "_"
       name       = cable.name + "[" + str(idx) + "]"
       -> (net (rename identifier "name") ...)
   Reader (multibit_add_cable): e_index, e_short = separate(identifier, "_");
       n_index, n_short = separate(name, "["); index = n_index unless e_index is None.

   separate_name_and_index no longer raises (repaired: name_split[-1][-1] on a name ending in "[";
   K9: name[0] on an empty name): [sep_bracket] / [net_bit] never return [None].
   No proofs in this file. *)
From Coq Require Import List NArith Bool.
From SV Require Import Base.Base.
Import ListNotations.
Local Open Scope N_scope.

Definition c_lbr : N := 91.   (* [ *)
Definition c_rbr : N := 93.   (* ] *)
Definition c_us : N := 95.    (* _ *)
Definition c_bsl : N := 92.   (* \ *)
Definition c_amp : N := 38.   (* & *)
Definition c_space : N := 32.

(* str.split(c): never empty *)
Fixpoint split_on (c : N) (s : str) : list str :=
  match s with
  | [] => [[]]
  | x :: s' =>
    if N.eqb x c then [] :: split_on c s'
    else match split_on c s' with
         | h :: t => (x :: h) :: t
         | [] => [[x]]
         end
  end.

(* str.isdigit() on ASCII *)
Definition isdigit (s : str) : bool := match s with [] => false | _ => forallb is_digit s end.

(* int(s) for a digit string *)
Definition int_of (s : str) : N := fold_left (fun a d => 10 * a + (d - 48)) s 0.

(* str(n) *)
Fixpoint dec_go (fuel : nat) (n : N) (acc : str) : str :=
  match fuel with
  | O => acc
  | S f => if n <? 10 then (48 + n) :: acc
           else dec_go f (n / 10) ((48 + n mod 10) :: acc)
  end.
Definition dec (n : N) : str := dec_go (S (N.size_nat n)) n [].

(* s[:i] where i is the index of the LAST occurrence of c (the reversed search loops) *)
Fixpoint before_last (c : N) (s : str) : option str :=
  match s with
  | [] => None
  | x :: s' =>
    match before_last c s' with
    | Some p => Some (x :: p)
    | None => if N.eqb x c then Some [] else None
    end
  end.

Definition is_empty (s : str) : bool := match s with [] => true | _ => false end.

(* split_character == "["  (repaired K9: a name starting with a backslash is split like any other - the
   test name[0] != "\\" or len(name.split(" ")) == 2 and name.split(" ")[1] != "" is gone, and with it the
   IndexError on an empty name; the result is never None, the option is kept for the callers) *)
Definition sep_bracket (name : str) : option (option N * str) :=
  match rev (split_on c_lbr name) with
  | last :: _ :: _ =>
    match rev last with
    | [] => Some (None, name)                         (* name_split[-1].endswith("]") is False: not a bus bit *)
    | e :: body_rev =>
      if N.eqb e c_rbr && isdigit (rev body_rev)
      then match before_last c_lbr name with
           | Some p => Some (Some (int_of (rev body_rev)), p)
           | None => Some (None, name)
           end
      else Some (None, name)
    end
  | _ => Some (None, name)
  end.

(* split_character == "_"  (repaired K4: identifiers starting with "&_" are split like any other; the
   test name[0:2] != "&_" or name_split[-3] == "" is gone) *)
Definition starts_amp_us (name : str) : bool :=
  match name with a :: b :: _ => N.eqb a c_amp && N.eqb b c_us | _ => false end.

Definition sep_underscore (name : str) : option N * str :=
  match rev (split_on c_us name) with
  | l1 :: l2 :: _ :: _ =>
    if is_empty l1 && isdigit l2
    then match before_last c_us name with
         | Some p1 => match before_last c_us p1 with
                      | Some p2 => (Some (int_of l2), p2)
                      | None => (None, name)
                      end
         | None => (None, name)
         end
    else (None, name)
  | _ => (None, name)
  end.

(* the writer's names of bit idx *)
Definition bit_ident (ident : str) (idx : N) : str := ident ++ c_us :: dec idx ++ [c_us].
Definition bit_name (name : str) (idx : N) : str := name ++ c_lbr :: dec idx ++ [c_rbr].

(* what multibit_add_cable derives from one (net (rename ident "name")):
   (index, n_short, e_short); None = IndexError *)
Definition net_bit (ident name : str) : option (option N * str * str) :=
  let '(e_index, e_short) := sep_underscore ident in
  match sep_bracket name with
  | None => None
  | Some (n_index, n_short) =>
    Some (match e_index with None => None | Some _ => n_index end, n_short, e_short)
  end.
