(* Engine `verilog`: the document-level READER - model of VerilogParser.parse_verilog
   (/repo/spydrnet/parsers/verilog/parser.py) from the document (Fmt/VDoc.v) to the netlist value.
   Model only - proofs are in Proofs/VElab*.v. Characters -> tokens -> document is not modelled.

   The model follows the parser construct by construct and keeps its state: the black-box holder (every
   definition ever named, in creation order), per definition the ordered ports and cables (bundles of
   VBits.v: lower index + list of pin / wire identities, grown and re-based by VBits.update_port /
   update_cable exactly as create_or_update_port / create_or_update_cable do), the ordered instances and the
   pin -> wire connections in the order of the connect_pin calls; the top candidates of VTop.v; the
   positional port maps, deferred to the end of the file as connect_implicitly_mapped_ports does.

   Identities. A pin of a port is (position of the port in its definition, ordinal of creation inside the
   port); a wire is (position of the cable, ordinal). Ports, cables and instances are only ever appended, so
   these are stable; prepend_pins / prepend_wires reorder the list of ordinals, a "defining" declaration
   changes the lower index under them. An outer pin is the value (instance position, inner pin), as in
   spydrnet. The Verilog index of a pin / wire is lower index + position of its ordinal in the bundle.

   Outcomes. Ok n | Err e where e is the class of the Python exception (AssertionError, ValueError,
   AttributeError, IndexError) or EUnsupported: the document is outside the modelled subset (nothing is
   claimed; the harness counts and skips these):
     - names containing * or ? (looked up as glob patterns: open finding V06-glob-identifier),
     - a module that instantiates itself,
     - a top that depends on the iteration order of a Python set (several candidates, cf. VTop.v),
     - a port declaration naming a cable that reaches several ports (header aliases) with a multi-bit cable,
     - IOther outside `celldefine. *)
From Coq Require Import List ZArith Bool Arith.
From Coq Require Import String.
From Coq Require Import List.
Local Close Scope string_scope.
From SV Require Import Base.Base Fmt.VBits Fmt.VTop Fmt.VDoc.
Import ListNotations.
Open Scope Z_scope.

(* why a document is outside the modelled subset *)
Inductive unsup :=
| UGlob        (* a cable / port name with * or ?: looked up as a glob pattern (open finding V06-glob-identifier) *)
| USelfInst    (* the top module instantiates itself while other instances of it exist: set iteration order *)
| UTopChoice   (* the elected top depends on the iteration order of a Python set *)
| UAliasDecl   (* declaration of a multi-bit cable that reaches several ports (header aliases): set iteration order *)
| UStatement   (* a statement that is neither declaration, assign, defparam nor instantiation *)
| UInternal.   (* a state the parser cannot be in (never returned; see Proofs) *)
Inductive err := EAssert | EValue | EAttr | EIndex | EUnsupported (u : unsup).
Inductive result (A : Type) := Ok (a : A) | Err (e : err).
Arguments Ok {A} a.
Arguments Err {A} e.

Definition bind {A B} (r : result A) (f : A -> result B) : result B :=
  match r with Ok a => f a | Err e => Err e end.
Notation "'let*' x ':=' r 'in' k" := (bind r (fun x => k)) (at level 200, x pattern, r at level 100, k at level 200).

(* ---------- list helpers ---------- *)
Fixpoint nth_upd {A} (k : nat) (f : A -> A) (l : list A) : list A :=
  match l, k with
  | [], _ => []
  | x :: r, O => f x :: r
  | x :: r, S k' => x :: nth_upd k' f r
  end.

Fixpoint find_idx {A} (p : A -> bool) (l : list A) : option nat :=
  match l with
  | [] => None
  | x :: r => if p x then Some O else match find_idx p r with Some k => Some (S k) | None => None end
  end.

Definition index_of (x : nat) (l : list nat) : option nat := find_idx (Nat.eqb x) l.

Definition number {A} (l : list A) : list (nat * A) := combine (seq 0 (length l)) l.

Definition or_else {A} (a b : option A) : option A := match a with Some _ => a | None => b end.

(* Python dict built from pairs in order (a later pair replaces the value, the key keeps its place) *)
Definition dict_of {B} (l : list (str * B)) : list (str * B) := fold_left (fun acc kv => sassoc_set (fst kv) (snd kv) acc) l [].
(* set_single_parameter: only keys that are not there yet (values are never None here) *)
Definition dict_add_new {B} (d : list (str * B)) (l : list (str * B)) : list (str * B) :=
  fold_left (fun acc kv => match sassoc (fst kv) acc with Some _ => acc | None => acc ++ [kv] end) l d.

(* str(int) of a natural number *)
Fixpoint dec_aux (fuel : nat) (n : N) (acc : str) : str :=
  match fuel with
  | O => acc
  | S f => let acc' := (48 + N.modulo n 10)%N :: acc in
           if N.eqb (N.div n 10) 0 then acc' else dec_aux f (N.div n 10) acc'
  end.
Definition dec (n : nat) : str := let m := N.of_nat n in dec_aux (S (N.to_nat (N.log2 m))) m [].

Definition has_glob (s : str) : bool := existsb (fun c => N.eqb c 42 || N.eqb c 63) s.

(* ---------- state ---------- *)
Record eport := { ep_name : option str; ep_dir : option vdir; ep_b : bundle }.
Record ecable := { ec_name : str; ec_b : bundle; ec_type : option vtype; ec_attrs : list attr }.
Inductive dref := RName (n : str) | RAssign (w : nat).     (* a held definition, or SDN_VERILOG_ASSIGNMENT_w *)
Record einst := { ei_name : str; ei_ref : dref; ei_params : list (str * str); ei_attrs : list attr }.
Inductive epin := PInner (port ord : nat) | POuter (inst port ord : nat).
Definition ewire := (nat * nat)%type.                       (* cable position, ordinal *)

Record edef := {
  ed_name : str;
  ed_lib : option bool;               (* None: only named so far; Some false: work; Some true: hdi_primitives *)
  ed_prim : bool;                     (* VERILOG.primitive *)
  ed_params : list (str * str); ed_attrs : list attr;
  ed_ports : list eport; ed_cables : list ecable; ed_insts : list einst;
  ed_conn : list (epin * ewire) }.

Record estate := {
  st_defs : list edef;                                      (* BlackboxHolder.name_lookup, creation order *)
  st_tops : option (list nat); st_ps : list (nat * nat);    (* VTop: candidates for top; (instantiated, parent) *)
  st_acount : nat;                                          (* assignment_count *)
  st_curinst : option (nat * nat);                          (* current_instance: (definition, instance) *)
  st_pending : list (nat * nat * nat * list (option dexpr)) }.  (* implicitly_mapped_ports, textual order:
                                                               (definition, instance, referenced definition, tokens) *)

Definition set_ports (d : edef) (v : list eport) : edef :=
  {| ed_name := ed_name d; ed_lib := ed_lib d; ed_prim := ed_prim d; ed_params := ed_params d; ed_attrs := ed_attrs d;
     ed_ports := v; ed_cables := ed_cables d; ed_insts := ed_insts d; ed_conn := ed_conn d |}.
Definition set_cables (d : edef) (v : list ecable) : edef :=
  {| ed_name := ed_name d; ed_lib := ed_lib d; ed_prim := ed_prim d; ed_params := ed_params d; ed_attrs := ed_attrs d;
     ed_ports := ed_ports d; ed_cables := v; ed_insts := ed_insts d; ed_conn := ed_conn d |}.
Definition set_insts (d : edef) (v : list einst) : edef :=
  {| ed_name := ed_name d; ed_lib := ed_lib d; ed_prim := ed_prim d; ed_params := ed_params d; ed_attrs := ed_attrs d;
     ed_ports := ed_ports d; ed_cables := ed_cables d; ed_insts := v; ed_conn := ed_conn d |}.
Definition set_conn (d : edef) (v : list (epin * ewire)) : edef :=
  {| ed_name := ed_name d; ed_lib := ed_lib d; ed_prim := ed_prim d; ed_params := ed_params d; ed_attrs := ed_attrs d;
     ed_ports := ed_ports d; ed_cables := ed_cables d; ed_insts := ed_insts d; ed_conn := v |}.
(* library, flag, dictionaries: nothing structural *)
Definition set_meta (d : edef) (lib : option bool) (prim : bool) (params : list (str * str)) (attrs : list attr) : edef :=
  {| ed_name := ed_name d; ed_lib := lib; ed_prim := prim; ed_params := params; ed_attrs := attrs;
     ed_ports := ed_ports d; ed_cables := ed_cables d; ed_insts := ed_insts d; ed_conn := ed_conn d |}.

Definition set_defs (s : estate) (v : list edef) : estate :=
  {| st_defs := v; st_tops := st_tops s; st_ps := st_ps s; st_acount := st_acount s; st_curinst := st_curinst s;
     st_pending := st_pending s |}.
Definition set_elect (s : estate) (t : option (list nat)) (ps : list (nat * nat)) : estate :=
  {| st_defs := st_defs s; st_tops := t; st_ps := ps; st_acount := st_acount s; st_curinst := st_curinst s;
     st_pending := st_pending s |}.
Definition set_acount (s : estate) (n : nat) : estate :=
  {| st_defs := st_defs s; st_tops := st_tops s; st_ps := st_ps s; st_acount := n; st_curinst := st_curinst s;
     st_pending := st_pending s |}.
Definition set_curinst (s : estate) (c : option (nat * nat)) : estate :=
  {| st_defs := st_defs s; st_tops := st_tops s; st_ps := st_ps s; st_acount := st_acount s; st_curinst := c;
     st_pending := st_pending s |}.
Definition set_pending (s : estate) (p : list (nat * nat * nat * list (option dexpr))) : estate :=
  {| st_defs := st_defs s; st_tops := st_tops s; st_ps := st_ps s; st_acount := st_acount s; st_curinst := st_curinst s;
     st_pending := p |}.

Definition empty_def (name : str) : edef :=
  {| ed_name := name; ed_lib := None; ed_prim := false; ed_params := []; ed_attrs := [];
     ed_ports := []; ed_cables := []; ed_insts := []; ed_conn := [] |}.
Definition dummy_def : edef := empty_def [].

Definition get_def (k : nat) (s : estate) : edef := nth k (st_defs s) dummy_def.
Definition upd_def (k : nat) (f : edef -> edef) (s : estate) : estate := set_defs s (nth_upd k f (st_defs s)).
Definition put_def (k : nat) (d : edef) (s : estate) : estate := upd_def k (fun _ => d) s.

Definition find_def (name : str) (s : estate) : option nat := find_idx (fun d => str_eqb (ed_name d) name) (st_defs s).

(* BlackboxHolder.get_blackbox *)
Definition get_blackbox (name : str) (s : estate) : estate * nat :=
  match find_def name s with
  | Some k => (s, k)
  | None => (set_defs s (st_defs s ++ [empty_def name]), length (st_defs s))
  end.

(* ---------- lookups by name inside a definition (namespace look-up: exact name) ---------- *)
Definition port_named (n : str) (p : eport) : bool := match ep_name p with Some m => str_eqb m n | None => false end.
Definition find_port (n : str) (d : edef) : option nat := find_idx (port_named n) (ed_ports d).
Definition find_cable (n : str) (d : edef) : option nat := find_idx (fun c => str_eqb (ec_name c) n) (ed_cables d).
Definition find_inst (n : str) (d : edef) : option nat := find_idx (fun i => str_eqb (ei_name i) n) (ed_insts d).

(* ---------- create_or_update_port / populate_new_port ---------- *)
Definition cou_port (name : str) (l r : option Z) (dir : option vdir) (defining : bool) (d : edef) : edef * nat :=
  match find_port name d with
  | None =>
      (set_ports d (ed_ports d ++ [{| ep_name := Some name; ep_dir := dir; ep_b := new_bundle l r 0 |}]), length (ed_ports d))
  | Some k =>
      (set_ports d (nth_upd k (fun p => {| ep_name := ep_name p; ep_dir := or_else dir (ep_dir p);
                                           ep_b := update_port l r defining (ep_b p) |}) (ed_ports d)), k)
  end.

(* ---------- create_or_update_cable / populate_new_cable ---------- *)
Definition cou_cable (name : str) (l r : option Z) (ty : option vtype) (defining : bool) (d : edef) : edef * nat :=
  match find_cable name d with
  | None =>
      (set_cables d (ed_cables d ++ [{| ec_name := name; ec_b := new_bundle l r 0; ec_type := ty; ec_attrs := [] |}]),
       length (ed_cables d))
  | Some k =>
      (set_cables d (nth_upd k (fun c => {| ec_name := ec_name c; ec_b := update_cable l r defining (ec_b c);
                                            ec_type := or_else ty (ec_type c); ec_attrs := ec_attrs c |}) (ed_cables d)), k)
  end.

Definition dummy_bundle : bundle := {| b_lo := 0; b_items := []; b_next := 0 |}.
Definition port_bundle (k : nat) (d : edef) : bundle :=
  match nth_error (ed_ports d) k with Some p => ep_b p | None => dummy_bundle end.
Definition cable_bundle (k : nat) (d : edef) : bundle :=
  match nth_error (ed_cables d) k with Some c => ec_b c | None => dummy_bundle end.

(* get_wires_from_cable *)
Definition wires_from (k : nat) (l r : option Z) (d : edef) : result (list ewire) :=
  let b := cable_bundle k d in
  match get_wires (b_lo b) (map (pair k) (b_items b)) l r with Some ws => Ok ws | None => Err EIndex end.

(* wire_sort_func: w.cable.wires.index(w) *)
Definition wire_key (d : edef) (w : ewire) : Z :=
  match index_of (snd w) (b_items (cable_bundle (fst w) d)) with Some p => Z.of_nat p | None => 0 end.

(* ---------- expressions ---------- *)
Definition const_name (b : bool) : str := if b then s2l "\<const1>"%string else s2l "\<const0>"%string.
Definition atom_name (a : datom) : str :=
  match a with DId n | DBit n _ | DPart n _ _ => n | DConst b => const_name b end.
Definition atom_l (a : datom) : option Z := match a with DBit _ i => Some i | DPart _ h _ => Some h | _ => None end.
Definition atom_r (a : datom) : option Z := match a with DPart _ _ l => Some l | _ => None end.

(* parse_variable_instantiation: the cable is created or grown to hold the selected indices *)
Definition var_inst (a : datom) (d : edef) : result (edef * nat) :=
  if has_glob (atom_name a) then Err (EUnsupported UGlob)
  else Ok (cou_cable (atom_name a) (atom_l a) (atom_r a) None false d).

Definition atom_wires (a : datom) (d : edef) : result (edef * list ewire) :=
  let* (d1, k) := var_inst a d in
  let* ws := wires_from k (atom_l a) (atom_r a) d1 in
  Ok (d1, ws).

(* parse_cable_concatenation *)
Fixpoint cat_wires (l : list datom) (d : edef) : result (edef * list ewire) :=
  match l with
  | [] => Ok (d, [])
  | a :: r =>
      let* (d1, ws) := atom_wires a d in
      let ws' := sort_desc (wire_key d1) ws in
      let* (d2, rest) := cat_wires r d1 in
      Ok (d2, ws' ++ rest)
  end.

(* "{}": the loop of parse_cable_concatenation does not run and leaves the closing brace unread; whoever called it
   then finds "}" where it expects ")" *)
Definition expr_wires (e : dexpr) (d : edef) : result (edef * list ewire) :=
  match e with DAtom a => atom_wires a d | DCat [] => Err EAssert | DCat l => cat_wires l d end.

(* ---------- connections ---------- *)
Definition pin_eqb (a b : epin) : bool :=
  match a, b with
  | PInner p o, PInner p' o' => Nat.eqb p p' && Nat.eqb o o'
  | POuter i p o, POuter i' p' o' => Nat.eqb i i' && Nat.eqb p p' && Nat.eqb o o'
  | _, _ => false
  end.
Definition wire_eqb (a b : ewire) : bool := Nat.eqb (fst a) (fst b) && Nat.eqb (snd a) (snd b).

Definition pin_wire (p : epin) (d : edef) : option ewire :=
  match find (fun c => pin_eqb (fst c) p) (ed_conn d) with Some c => Some (snd c) | None => None end.

(* Wire.connect_pin: the pin must be free *)
Definition connect (w : ewire) (p : epin) (d : edef) : result edef :=
  match pin_wire p d with
  | Some _ => Err EAssert
  | None => Ok (set_conn d (ed_conn d ++ [(p, w)]))
  end.

Fixpoint connect_all (l : list (ewire * epin)) (d : edef) : result edef :=
  match l with
  | [] => Ok d
  | (w, p) :: r => let* d1 := connect w p d in connect_all r d1
  end.

(* the low-end alignment of parse_port_map_single / connect_implicitly_mapped_ports / header aliases:
   [items] = the ordinals of the port's pins in port order; the pins are sorted by descending position
   (VBits.align) and wire i takes pin offset + i *)
Definition aligned (mk : nat -> epin) (items : list nat) (wires : list ewire) : result (list (ewire * epin)) :=
  match align Z.of_nat (seq 0 (length items)) wires with
  | None => Err EAssert
  | Some calls => Ok (map (fun c => (fst c, mk (nth (snd c) items O))) calls)
  end.

(* ---------- module header ---------- *)
Definition range_l (rg : option (Z * Z)) : option Z := match rg with Some (h, _) => Some h | None => None end.
Definition range_r (rg : option (Z * Z)) : option Z := match rg with Some (_, l) => Some l | None => None end.

(* parse_module_header_port *)
Definition header_port (dir : option vdir) (rg : option (Z * Z)) (name : str) (d : edef) : result edef :=
  if has_glob name then Err (EUnsupported UGlob) else
  let defining := match dir with Some _ => true | None => false end in
  let '(d1, pk) := cou_port name (range_l rg) (range_r rg) dir defining d in
  let pb := port_bundle pk d1 in
  let '(l, r) := match rg with
                 | Some (h, lo) => (Some h, Some lo)
                 | None => (Some (b_lo pb + Z.of_nat (length (b_items pb)) - 1), Some (b_lo pb))
                 end in
  let '(d2, ck) := cou_cable name l r None defining d1 in
  let cb := cable_bundle ck d2 in
  if negb (Nat.eqb (length (b_items pb)) (length (b_items cb))) then Err EAssert
  else connect_all (combine (map (pair ck) (b_items cb)) (map (PInner pk) (b_items pb))) d2.

(* parse_module_header_port_alias *)
Definition header_alias (name : str) (e : dexpr) (d : edef) : result edef :=
  if has_glob name then Err (EUnsupported UGlob) else
  let* (d1, wires) := expr_wires e d in
  let '(d2, pk) := cou_port name (Some (Z.of_nat (length wires) - 1)) (Some 0) None false d1 in
  let pb := port_bundle pk d2 in
  if negb (Nat.eqb (length (b_items pb)) (length wires)) then Err EAssert
  else connect_all (combine wires (map (PInner pk) (rev (b_items pb)))) d2.

Definition header_entry (h : vhport) (d : edef) : result edef :=
  match h with HPort dir rg name => header_port dir rg name d | HAlias name e => header_alias name e d end.

(* parse_module_header_ports: a direction, and the range given with it or after it, stays in force for the names
   that follow until the next direction keyword (the [declaration] handed from port to port) *)
Fixpoint inherit_header (decl : option (vdir * option (Z * Z))) (l : list vhport) : list vhport :=
  match l with
  | [] => []
  | HPort (Some dr) rg n :: r => HPort (Some dr) rg n :: inherit_header (Some (dr, rg)) r
  | HPort None rg n :: r =>
      match decl with
      | None => HPort None rg n :: inherit_header None r
      | Some (dr, rg0) =>
          let rg1 := match rg with Some _ => rg | None => rg0 end in
          HPort (Some dr) rg1 n :: inherit_header (Some (dr, rg1)) r
      end
  | HAlias n e :: r => HAlias n e :: inherit_header decl r
  end.

Fixpoint fold_res {A S} (f : A -> S -> result S) (l : list A) (s : S) : result S :=
  match l with
  | [] => Ok s
  | x :: r => let* s1 := f x s in fold_res f r s1
  end.

(* ---------- port declarations in a body ---------- *)
(* get_all_ports_from_wires: the ports with an inner pin on one of the wires, without repetition *)
Definition ports_on (ws : list ewire) (d : edef) : list nat :=
  nodup Nat.eq_dec
    (flat_map (fun c => match fst c with
                        | PInner p _ => if existsb (wire_eqb (snd c)) ws then [p] else []
                        | POuter _ _ _ => []
                        end) (ed_conn d)).

(* connect_resized_port_cable *)
Definition connect_resized (ck pk : nat) (d : edef) : result edef :=
  let cb := cable_bundle ck d in
  let pb := port_bundle pk d in
  if negb (Nat.eqb (length (b_items cb)) (length (b_items pb))) then Err EAssert
  else fold_res (fun wp d' =>
                   match pin_wire (snd wp) d' with
                   | Some _ => Ok d'          (* already on this wire, or on another one (alias): left alone *)
                   | None => connect (fst wp) (snd wp) d'
                   end)
                (combine (map (pair ck) (b_items cb)) (map (PInner pk) (b_items pb))) d.

Definition vtype_wr (ty : option vtype) : option vtype :=
  match ty with Some TWire => Some TWire | Some TReg => Some TReg | _ => None end.

Definition port_name_of (k : nat) (d : edef) : option str :=
  match nth_error (ed_ports d) k with Some p => ep_name p | None => None end.

Definition port_decl_one (dir : vdir) (ty : option vtype) (rg : option (Z * Z)) (name : str) (d : edef) : result edef :=
  if has_glob name then Err (EUnsupported UGlob) else
  let '(d1, ck) := cou_cable name (range_l rg) (range_r rg) (vtype_wr ty) true d in
  let* ws := wires_from ck (range_l rg) (range_r rg) d1 in
  match ports_on ws d1 with
  | [] => Err EAssert
  | [pk] =>
      match port_name_of pk d1 with
      | None => Err (EUnsupported UInternal)     (* a module's own port without a name: not reachable *)
      | Some pn =>
          let '(d2, pk') := cou_port pn (range_l rg) (range_r rg) (Some dir) true d1 in
          if (1 <? length (b_items (cable_bundle ck d2)))%nat then connect_resized ck pk' d2 else Ok d2
      end
  | pks =>
      if (1 <? length (b_items (cable_bundle ck d1)))%nat then Err (EUnsupported UAliasDecl)
      else fold_res (fun pk d' => match port_name_of pk d' with
                                  | None => Err (EUnsupported UInternal)
                                  | Some pn => Ok (fst (cou_port pn None None (Some dir) false d'))
                                  end) pks d1
  end.

(* ---------- cable declarations ---------- *)
Definition set_cable_attrs (k : nat) (a : list attr) (d : edef) : edef :=
  set_cables d (nth_upd k (fun c => {| ec_name := ec_name c; ec_b := ec_b c; ec_type := ec_type c; ec_attrs := a |}) (ed_cables d)).

Definition wire_decl_one (ty : vtype) (rg : option (Z * Z)) (attrs : list attr) (name : str) (d : edef) : result edef :=
  if has_glob name then Err (EUnsupported UGlob) else
  let '(d1, ck) := cou_cable name (range_l rg) (range_r rg) (Some ty) false d in
  Ok (set_cable_attrs ck (dict_of attrs) d1).

(* parse_cable_declaration: the range goes to every name, the attributes to the first name only *)
Definition wire_decl (ty : vtype) (rg : option (Z * Z)) (attrs : list attr) (names : list str) (d : edef) : result edef :=
  match names with
  | [] => Err EAssert
  | n :: rest =>
      let* d1 := wire_decl_one ty rg attrs n d in
      fold_res (wire_decl_one ty rg []) rest d1
  end.

(* ---------- assign ---------- *)
Definition assign_name (w n : nat) : str := s2l "SDN_VERILOG_ASSIGNMENT_"%string ++ dec w ++ s2l "_"%string ++ dec n.

(* Definition.create_child(name) / instance.name = name: the name must be free *)
Definition add_inst (i : einst) (d : edef) : result (edef * nat) :=
  match find_inst (ei_name i) d with
  | Some _ => Err EValue
  | None => Ok (set_insts d (ed_insts d ++ [i]), length (ed_insts d))
  end.

Fixpoint interleave {A} (a b : list A) : list A :=
  match a, b with
  | x :: a', y :: b' => x :: y :: interleave a' b'
  | _, _ => []
  end.

(* parse_assign + connect_wires_for_assign; ports of SDN_VERILOG_ASSIGNMENT_w: i = 0, o = 1, pin k = ordinal k.
   The wire lists are most significant first; pin k takes out_wires[-1-k] / in_wires[-1-k] (bit k from the low end) *)
Definition assign_item (lhs rhs : datom) (acount : nat) (d : edef) : result edef :=
  let* (d1, kl) := var_inst lhs d in
  let* (d2, kr) := var_inst rhs d1 in
  let* outs := wires_from kl (atom_l lhs) (atom_r lhs) d2 in
  let* ins := wires_from kr (atom_l rhs) (atom_r rhs) d2 in
  let w := Nat.min (length outs) (length ins) in
  let* (d3, ii) := add_inst {| ei_name := assign_name w acount; ei_ref := RAssign w; ei_params := []; ei_attrs := [] |} d2 in
  connect_all (interleave (combine (firstn w (rev outs)) (map (POuter ii 1) (seq 0 w)))
                          (combine (firstn w (rev ins)) (map (POuter ii 0) (seq 0 w)))) d3.

(* ---------- instances ---------- *)
(* parse_port_map_single: .pname(e) on instance ii (of definition cur) whose reference is definition rk *)
Definition named_conn (cur ii rk : nat) (pc : str * option dexpr) (s : estate) : result estate :=
  let '(pname, e) := pc in
  if has_glob pname then Err (EUnsupported UGlob) else
  match e with
  | None =>
      (* the port is intentionally left unconnected: create_or_update_port_on_instance(port_name, 1) *)
      Ok (upd_def rk (fun rd => fst (cou_port pname (Some 0) (Some 0) None false rd)) s)
  | Some e =>
      let* (d1, wires) := expr_wires e (get_def cur s) in
      let s1 := put_def cur d1 s in
      let '(rd1, pk) := cou_port pname (Some (Z.of_nat (length wires) - 1)) (Some 0) None false (get_def rk s1) in
      let s2 := put_def rk rd1 s1 in
      let* calls := aligned (POuter ii pk) (b_items (port_bundle pk rd1)) wires in
      let* d2 := connect_all calls (get_def cur s2) in
      Ok (put_def cur d2 s2)
  end.

(* the top election of parse_instantiation, on the candidates of VTop.v *)
Definition elect_step (cur rk : nat) (s : estate) : estate :=
  match st_tops s with
  | None => s
  | Some tops => let r := step_inst cur (tops, st_ps s) rk in set_elect s (Some (fst r)) (snd r)
  end.

Definition inst_item (cur : nat) (modname iname : str) (params : list (str * str)) (attrs : list attr) (conns : vconns)
    (s : estate) : result estate :=
  let '(s1, rk) := get_blackbox modname s in
  (* the top instantiating itself: "references" then holds the top instance, whose parent is None *)
  let tops := match st_tops s1 with Some t => t | None => [] end in
  if Nat.eqb rk cur && existsb (Nat.eqb cur) tops
  then (match parents_of (st_ps s1) cur with
        | [] => if forallb (Nat.eqb cur) tops then Err EAttr else Err (EUnsupported USelfInst)
        | _ => Err (EUnsupported USelfInst) end) else
  let s2 := elect_step cur rk s1 in
  let* (d1, ii) := add_inst {| ei_name := iname; ei_ref := RName modname; ei_params := []; ei_attrs := dict_of attrs |} (get_def cur s2) in
  let s3 := set_curinst (put_def cur d1 s2) (Some (cur, ii)) in
  let* s4 := match conns with
             | CNamed l => fold_res (named_conn cur ii rk) l s3
             | CPos l => Ok (set_pending s3 (st_pending s3 ++ [(cur, ii, rk, l)]))
             end in
  Ok (upd_def cur (fun d => set_insts d (nth_upd ii (fun i => {| ei_name := ei_name i; ei_ref := ei_ref i;
                                                                  ei_params := dict_add_new (ei_params i) (dict_of params);
                                                                  ei_attrs := ei_attrs i |}) (ed_insts d))) s4).

(* parse_defparam_parameters *)
Definition defparam_item (cur : nat) (iname key value : str) (s : estate) : result estate :=
  match st_curinst s with
  | None => Err EAttr
  | Some (cd, ci) =>
      let cur_name := match nth_error (ed_insts (get_def cd s)) ci with Some i => ei_name i | None => [] end in
      let* tgt := if str_eqb cur_name iname then Ok (cd, ci)
                  else if has_glob iname then Err (EUnsupported UGlob)
                  else match find_inst iname (get_def cur s) with Some k => Ok (cur, k) | None => Err EAssert end in
      Ok (upd_def (fst tgt) (fun d => set_insts d (nth_upd (snd tgt) (fun i => {| ei_name := ei_name i; ei_ref := ei_ref i;
                                                                                  ei_params := dict_add_new (ei_params i) [(key, value)];
                                                                                  ei_attrs := ei_attrs i |}) (ed_insts d))) s)
  end.

Definition lift (cur : nat) (f : edef -> result edef) (s : estate) : result estate :=
  let* d := f (get_def cur s) in Ok (put_def cur d s).

(* parse_module_body, one item *)
Definition body_item (cur : nat) (it : vitem) (s : estate) : result estate :=
  match it with
  | IPortDecl dir ty rg names _ => lift cur (fold_res (port_decl_one dir ty rg) names) s
  | IWire ty rg names attrs => lift cur (wire_decl ty rg attrs names) s
  | IAssign lhs rhs =>
      let* s1 := lift cur (assign_item lhs rhs (st_acount s)) s in Ok (set_acount s1 (S (st_acount s1)))
  | IInst m i params attrs conns => inst_item cur m i params attrs conns s
  | IDefparam i k v => defparam_item cur i k v s
  | IOther => Err (EUnsupported UStatement)
  end.

(* parse_primitive_body: only the port declarations are looked at *)
Definition cell_item (cur : nat) (it : vitem) (s : estate) : result estate :=
  match it with
  | IPortDecl dir ty rg names _ => lift cur (fold_res (port_decl_one dir ty rg) names) s
  | _ => Ok s
  end.

(* parse_module / parse_primitive *)
Definition module_decl (m : vmodule) (s : estate) : result estate :=
  let '(s1, cur) := get_blackbox (vm_name m) s in
  match ed_lib (get_def cur s1) with
  | Some _ => Err EAssert                   (* Library.add_definition: already in a library *)
  | None =>
      let s2 := upd_def cur (fun d => set_meta d (Some (vm_cell m)) (ed_prim d) (ed_params d) (ed_attrs d)) s1 in
      let s3 := if vm_cell m then s2
                else set_acount (match st_tops s2 with None => set_elect s2 (Some [cur]) (st_ps s2) | Some _ => s2 end) O in
      let s4 := upd_def cur (fun d => set_meta d (ed_lib d) (ed_prim d) (dict_add_new (ed_params d) (dict_of (vm_params m))) (ed_attrs d)) s3 in
      let* s5 := lift cur (fold_res header_entry (inherit_header None (vm_header m))) s4 in
      let* s6 := if vm_cell m
                 then fold_res (cell_item cur) (vm_body m) s5
                 else fold_res (body_item cur) (vm_body m) s5 in
      Ok (match vm_attrs m with
          | [] => s6
          | a => upd_def cur (fun d => set_meta d (ed_lib d) (ed_prim d) (ed_params d) (dict_of a)) s6
          end)
  end.

(* connect_implicitly_mapped_ports, one position of one instance. [fresh]: the position lies beyond the ports the
   referenced definition had when the instance's turn came: an unnamed port of the width of the expression is made *)
Definition pos_conn (cur ii rk : nat) (fresh : bool) (index : nat) (oe : option dexpr) (s : estate) : result estate :=
  match oe with
  | None =>
      (* an empty position: nothing is connected; beyond the ports of the referenced definition an unnamed one-bit
         port still takes the position (populate_new_port(port, None, 0, 0, None)) *)
      if fresh
      then let rd := get_def rk s in
           Ok (put_def rk (set_ports rd (ed_ports rd ++ [{| ep_name := None; ep_dir := None;
                                                            ep_b := new_bundle (Some 0) (Some 0) 0 |}])) s)
      else Ok s
  | Some e =>
      let* (d1, wires) := expr_wires e (get_def cur s) in
      let s1 := put_def cur d1 s in
      let rd := get_def rk s1 in
      let '(s2, pk) :=
          if fresh
          then (put_def rk (set_ports rd (ed_ports rd ++ [{| ep_name := None; ep_dir := None;
                                                              ep_b := new_bundle (Some (Z.of_nat (length wires) - 1)) (Some 0) 0 |}])) s1,
                length (ed_ports rd))
          else (s1, index) in
      let* calls := aligned (POuter ii pk) (b_items (port_bundle pk (get_def rk s2))) wires in
      let* d2 := connect_all calls (get_def cur s2) in
      Ok (put_def cur d2 s2)
  end.

Definition pending_one (p : nat * nat * nat * list (option dexpr)) (s : estate) : result estate :=
  let '(cur, ii, rk, l) := p in
  (* port_list is taken once, before the loop *)
  let nports := length (ed_ports (get_def rk s)) in
  fold_res (fun ie s' => pos_conn cur ii rk (negb (fst ie <? nports)%nat) (fst ie) (snd ie) s') (number l) s.

(* add_blackbox_definitions *)
Definition close_blackboxes (s : estate) : estate :=
  set_defs s (map (fun d => match ed_lib d with
                            | None => set_meta d (Some true) true (ed_params d) (ed_attrs d)
                            | Some _ => d end) (st_defs s)).

Definition run (doc : vdoc) : result estate :=
  let s0 := {| st_defs := []; st_tops := None; st_ps := []; st_acount := O; st_curinst := None; st_pending := [] |} in
  let* s1 := fold_res module_decl doc s0 in
  let s2 := close_blackboxes s1 in
  fold_res pending_one (st_pending s2) s2.

(* ---------- the netlist value of a final state (the counterpart of verilog_world.canon) ---------- *)
Definition port_label (pos : nat) (p : eport) : plabel := match ep_name p with Some n => LName n | None => LPos pos end.

Definition assign_ports (w : nat) : list eport :=
  [{| ep_name := Some (s2l "i"%string); ep_dir := Some DIn; ep_b := {| b_lo := 0; b_items := seq 0 w; b_next := w |} |};
   {| ep_name := Some (s2l "o"%string); ep_dir := Some DOut; ep_b := {| b_lo := 0; b_items := seq 0 w; b_next := w |} |}].

Definition ref_ports (s : estate) (r : dref) : list eport :=
  match r with
  | RName n => match find_def n s with Some k => ed_ports (get_def k s) | None => [] end
  | RAssign w => assign_ports w
  end.

Definition is_assign (r : dref) : bool := match r with RAssign _ => true | RName _ => false end.

(* (label, Verilog index) of pin ordinal [ord] of port [pk] among [ports] *)
Definition pin_bit (ports : list eport) (pk ord : nat) : option (plabel * Z) :=
  match nth_error ports pk with
  | Some p => match index_of ord (b_items (ep_b p)) with
              | Some k => Some (port_label pk p, b_lo (ep_b p) + Z.of_nat k)
              | None => None end
  | None => None
  end.

Definition pin_endpoint (s : estate) (d : edef) (p : epin) : option endpoint :=
  match p with
  | PInner pk ord => match pin_bit (ed_ports d) pk ord with Some (lb, i) => Some (EPort lb i) | None => None end
  | POuter ii pk ord =>
      match nth_error (ed_insts d) ii with
      | Some i => if is_assign (ei_ref i) then None
                  else match pin_bit (ref_ports s (ei_ref i)) pk ord with
                       | Some (lb, b) => Some (EInst (ei_name i) lb b)
                       | None => None end
      | None => None
      end
  end.

Definition wire_endpoints (s : estate) (d : edef) (w : ewire) : list endpoint :=
  flat_map (fun c => if wire_eqb (snd c) w then match pin_endpoint s d (fst c) with Some e => [e] | None => [] end else [])
           (ed_conn d).

Definition cable_nets (s : estate) (d : edef) (ck : nat) (c : ecable) : list (bitref * list endpoint) :=
  flat_map (fun ko => match wire_endpoints s d (ck, snd ko) with
                      | [] => []
                      | eps => [((ec_name c, b_lo (ec_b c) + Z.of_nat (fst ko)), eps)]
                      end) (number (b_items (ec_b c))).

Definition wire_label (d : edef) (w : ewire) : option bitref :=
  match nth_error (ed_cables d) (fst w) with
  | Some c => match index_of (snd w) (b_items (ec_b c)) with
              | Some k => Some (ec_name c, b_lo (ec_b c) + Z.of_nat k)
              | None => None end
  | None => None
  end.

Definition pin_label (d : edef) (p : epin) : option bitref :=
  match pin_wire p d with Some w => wire_label d w | None => None end.

Definition def_assigns (d : edef) : list (list (option bitref * option bitref)) :=
  flat_map (fun ki => match ei_ref (snd ki) with
                      | RAssign w => [map (fun k => (pin_label d (POuter (fst ki) 1 k), pin_label d (POuter (fst ki) 0 k))) (seq 0 w)]
                      | RName _ => [] end) (number (ed_insts d)).

Definition vtype_or_wire (t : option vtype) : vtype := match t with Some t => t | None => TWire end.

Definition abs_def (s : estate) (d : edef) : nv_def :=
  {| nd_name := ed_name d;
     nd_lib := match ed_lib d with Some false => s2l "work"%string | _ => s2l "hdi_primitives"%string end;
     nd_prim := ed_prim d;
     nd_params := ed_params d; nd_attrs := ed_attrs d;
     nd_ports := map (fun kp => {| np_label := port_label (fst kp) (snd kp); np_dir := ep_dir (snd kp);
                                   np_width := length (b_items (ep_b (snd kp))); np_lower := b_lo (ep_b (snd kp)) |})
                     (number (ed_ports d));
     nd_cables := map (fun c => {| nc_name := ec_name c; nc_width := length (b_items (ec_b c)); nc_lower := b_lo (ec_b c);
                                   nc_type := vtype_or_wire (ec_type c); nc_attrs := ec_attrs c |}) (ed_cables d);
     nd_insts := flat_map (fun i => match ei_ref i with
                                    | RName n => [{| ni_name := ei_name i; ni_ref := n; ni_params := ei_params i; ni_attrs := ei_attrs i |}]
                                    | RAssign _ => [] end) (ed_insts d);
     nd_nets := flat_map (fun kc => cable_nets s d (fst kc) (snd kc)) (number (ed_cables d));
     nd_assigns := def_assigns d |}.

(* the candidate that parse_module / parse_instantiation arrived at *)
Definition parsed_top (s : estate) : result (option str) :=
  match st_tops s with
  | None => Ok None
  | Some [] => Ok None
  | Some (t :: r) => if forallb (Nat.eqb t) r then Ok (Some (ed_name (get_def t s))) else Err (EUnsupported UTopChoice)
  end.

(* elect_top: the definitions of library work - those of the modules of the document outside `celldefine, since a
   run that comes back has added each of them to work once - none of whose references has another module as parent;
   st_ps holds (instantiated, instantiating) for every instance created *)
Definition root_defs (doc : vdoc) (s : estate) : list nat :=
  filter (fun k => existsb (fun m => negb (vm_cell m) && str_eqb (vm_name m) (ed_name (get_def k s))) doc
                   && negb (existsb (fun p : nat * nat => Nat.eqb (fst p) k && negb (Nat.eqb (snd p) k)) (st_ps s)))
         (seq 0 (length (st_defs s))).

Definition final_top (doc : vdoc) (s : estate) : result (option str) :=
  match root_defs doc s with
  | [k] => Ok (Some (ed_name (get_def k s)))
  | _ => parsed_top s
  end.

Definition abs_state (doc : vdoc) (s : estate) : result nv :=
  let* t := final_top doc s in
  Ok {| nv_top := t; nv_defs := map (abs_def s) (st_defs s) |}.

(* VerilogParser.parse_verilog on a document *)
Definition elab (doc : vdoc) : result nv := let* s := run doc in abs_state doc s.
