(* Specifications for the whole-file EDIF reader model (Fmt/EdifFile.v): what a well-formed
   result is. Definitions only; the theorems are in Proofs/EdifFile*.v.

   [wf_core n]  (the C15 clause "never hands back a half-built netlist", EDIF reader):
     - sibling identifiers are distinct case-insensitively (libraries; cells of a library;
       ports, instances, nets of a cell);
     - every instance that HAS a reference references a cell of the result
       ([lookup_cell]: library identifier, then cell identifier, compared exactly);
     - every pin on a wire names an existing bit of an existing port of the cell itself, or of
       the cell referenced by an instance of that same cell;
     - no pin is on two wires (nor twice on one);
     - the top instance (if any) references a cell of the result.
   [all_referenced n]: every instance has a reference (an "(instance n)" without viewRef is
   refused by the reader).
   [ports_nonempty n]: every port has at least one pin (an array of size < 1 is refused).
   [wf_file n] = all three; it holds of every result (Proofs/EdifFileWf.v elab_file_wf). *)
From Coq Require Import List NArith Bool.
From SV Require Import Base.Base Fmt.EdifLex Fmt.EdifCable Fmt.EdifNets Fmt.EdifFile.
Import ListNotations.

Definition lookup_cell (libs : list nvlib) (li ci : str) : option nvcell :=
  match find (fun L => str_eqb (li_ident L) li) libs with
  | Some L => find (fun C => str_eqb (ce_ident C) ci) (li_cells L)
  | None => None
  end.

(* bit k of the port with identifier pi *)
Definition port_bit (ports : list nvport) (pi : str) (k : N) : Prop :=
  exists P, In P ports /\ po_ident P = pi /\ (k < po_width P)%N.

Definition pin_ok (libs : list nvlib) (C : nvcell) (p : pd) : Prop :=
  match p with
  | PTop pi k => port_bit (ce_ports C) pi k
  | PInst ii pi k =>
    exists I li ci D, In I (ce_insts C) /\ in_ident I = ii /\ in_ref I = Some (li, ci) /\
                      lookup_cell libs li ci = Some D /\ port_bit (ce_ports D) pi k
  end.

Definition cab_pins (e : entry pd) : list pd := concat (c_wires (e_cab e)).
Definition pins_of (cabs : list (entry pd)) : list pd := flat_map cab_pins cabs.
Definition cell_pins (C : nvcell) : list pd := pins_of (ce_cabs C).

Definition distinct_ci (l : list str) : Prop := NoDup (map lower l).

Record wf_ncell (libs : list nvlib) (C : nvcell) : Prop := mk_wf_ncell {
  wc_refs : forall I li ci, In I (ce_insts C) -> in_ref I = Some (li, ci) ->
            exists D, lookup_cell libs li ci = Some D;
  wc_pins : forall p, In p (cell_pins C) -> pin_ok libs C p;
  wc_once : NoDup (cell_pins C);
  wc_port_ids : distinct_ci (map po_ident (ce_ports C));
  wc_inst_ids : distinct_ci (map in_ident (ce_insts C));
  wc_cab_ids : distinct_ci (map (@e_ident pd) (ce_cabs C)) }.

Record wf_core (n : nvfile) : Prop := mk_wf_core {
  wf_lib_ids : distinct_ci (map li_ident (nf_libs n));
  wf_ncell_ids : forall L, In L (nf_libs n) -> distinct_ci (map ce_ident (li_cells L));
  wf_ncells : forall L C, In L (nf_libs n) -> In C (li_cells L) -> wf_ncell (nf_libs n) C;
  wf_top : forall t, nf_top n = Some t ->
           exists D, lookup_cell (nf_libs n) (tp_lib t) (tp_cell t) = Some D }.

Definition all_referenced (n : nvfile) : Prop :=
  forall L C I, In L (nf_libs n) -> In C (li_cells L) -> In I (ce_insts C) -> in_ref I <> None.

Definition ports_nonempty (n : nvfile) : Prop :=
  forall L C P, In L (nf_libs n) -> In C (li_cells L) -> In P (ce_ports C) -> (1 <= po_width P)%N.

Definition wf_file (n : nvfile) : Prop := wf_core n /\ all_referenced n /\ ports_nonempty n.

(* [all_referenced] decided on the result *)
Definition all_referencedb (n : nvfile) : bool :=
  forallb (fun L => forallb (fun C => forallb (fun I => match in_ref I with Some _ => true | None => false end)
                                              (ce_insts C)) (li_cells L)) (nf_libs n).
