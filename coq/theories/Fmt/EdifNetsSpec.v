(* Declarative meaning of the nets of ONE cell (what "the file says" about connections), written
   over the list of nets only - no reader state:

     a net (identifier, name, pins) is classified by its names alone ([net_bit] of Fmt/EdifName.v:
     the naming convention "id_i_" / "name[i]" of bus bits): [n_index] = Some i for bit i of the
     bus [key_name] (short name) with short identifier [key_ident]; None for a scalar net, whose
     key is its own name / identifier;
     the nets with the same key form a [group]; the cables of the cell are the groups in order of
     first appearance ([uniq]); a scalar group is one net = one one-wire cable holding its pins;
     a bus group is ONE array cable whose wire of bit i holds the pins of the net(s) of bit i
     (a bit given by several nets holds the pins of all of them, in file order: [gather]), empty
     wires in the gaps, lower index = least bit, width = greatest - least + 1 ([cab_inv] of
     Proofs/EdifCableProofs.v states exactly that for the bits in file order).

   [nets_ok] is the hypothesis under which the reader implements this meaning: two nets have the
   same key name iff they have the same key identifier (case-insensitively), and nets sharing a
   key are bits (of any indices: since the repair of K11 a bit may be given twice). It excludes
   exactly the shapes of the open findings C05-K13 (scalar net named like a bus of the cell) and
   C05-K10 (short identifier owned by another net). No proofs in this file. *)
From Coq Require Import List NArith Bool.
From SV Require Import Base.Base Fmt.EdifName Fmt.EdifCable Fmt.EdifBus Fmt.EdifNets Proofs.EdifCableProofs.
Import ListNotations.

Section D.
Context {P : Type}.
Implicit Types (nt : net P) (nets : list (net P)).

Definition n_ident nt : str := fst (fst nt).
Definition n_name nt : str := snd (fst nt).
Definition n_pins nt : list P := snd nt.

Definition n_index nt : option N :=
  match net_bit (n_ident nt) (n_name nt) with Some (i, _, _) => i | None => None end.
Definition key_name nt : str :=
  match net_bit (n_ident nt) (n_name nt) with Some (Some _, ns, _) => ns | _ => n_name nt end.
Definition key_ident nt : str :=
  match net_bit (n_ident nt) (n_name nt) with Some (Some _, _, es) => es | _ => n_ident nt end.

Definition compat (a b : net P) : Prop :=
  (key_name a = key_name b <-> lower (key_ident a) = lower (key_ident b)) /\
  (key_name a = key_name b -> exists i j, n_index a = Some i /\ n_index b = Some j).

Definition nets_ok nets : Prop := ForallOrdPairs compat nets.

Definition compatb (a b : net P) : bool :=
  Bool.eqb (str_eqb (key_name a) (key_name b)) (str_eqb (lower (key_ident a)) (lower (key_ident b))) &&
  (negb (str_eqb (key_name a) (key_name b)) ||
   match n_index a, n_index b with Some _, Some _ => true | _, _ => false end).

Fixpoint nets_okb nets : bool :=
  match nets with
  | [] => true
  | a :: rest => forallb (compatb a) rest && nets_okb rest
  end.

(* keys in order of first appearance *)
Fixpoint uniq_from (seen l : list str) : list str :=
  match l with
  | [] => []
  | x :: l' => if existsb (str_eqb x) seen then uniq_from seen l' else x :: uniq_from (x :: seen) l'
  end.
Definition uniq (l : list str) : list str := uniq_from [] l.

Definition group (k : str) nets : list (net P) := filter (fun nt => str_eqb (key_name nt) k) nets.

(* the bits a group gives: only nets that ARE bits contribute (a scalar net sharing the key of a bus
   - finding C05-K13 - is no bit of it: a cable holding its pins on some wire is not the meaning) *)
Definition bits_of (grp : list (net P)) : list (N * list P) :=
  flat_map (fun nt => match n_index nt with Some i => [(i, n_pins nt)] | None => [] end) grp.

Definition denote_conn nets (s : list (entry P)) : Prop :=
  map (@e_name P) s = uniq (map key_name nets) /\
  forall e, In e s ->
    match group (e_name e) nets with
    | [] => False
    | nt :: rest =>
      e_ident e = key_ident nt /\
      match n_index nt with
      | None => rest = [] /\ e_cab e = mkcab 0%N false [n_pins nt]
      | Some _ => cab_inv (e_cab e) (bits_of (nt :: rest))
      end
    end.
End D.
