(* Whole-file model of the EDIF WRITER (spydrnet/composers/edif/composer.py, ComposeEdif) from the
   pure netlist value [nvfile] of Fmt/EdifFile.v (the type the reader model returns, so that reader
   and writer compose) to an s-expression document, construct by construct:

     _output_environment_                      -> [emit_file]   (edif name, edifversion 2 0 0, edifLevel 0,
                                                  keywordmap (keywordlevel 0), status, libraries in the
                                                  order given, design)
     _output_status_                           -> [status_sexp] (timestamp atoms and the optional
                                                  EDIF.status.written.program[.version] metadata are PARAMETERS)
     _output_library_                          -> [lib_sexp]
     _output_definition_                       -> [cell_sexp]   (celltype GENERIC, view netlist, viewtype
                                                  NETLIST, interface, contents iff children or cables)
     _output_port_ / _output_direction_        -> [port_sexp]   (array form iff is_array; no direction
                                                  construct for UNDEFINED)
     _output_instance_ / _get_edif_name_       -> [inst_sexp]
     _output_property_                         -> [prop_sexp], [xprop_sexp]   (string / boolean / integer; number (e m x)
                                                  for floats, which are a parameter [fl])
     _output_cable_ / _output_name_of_cable_wire_ / _get_wire_index_
                                               -> Fmt/EdifNets.emit_nets (reused) + [net_sexp]
     _output_inner_pin_ / _output_port_ref_    -> [pin_sexp]    (member iff the port is an array)
     _output_name_of_object_ / _get_name_string_ / _escape_string_
                                               -> [name_sexp], [escape_string]

   The value handed to [emit_file] is the netlist AFTER the pre-pass _edifify_netlist (libraries
   and cells ordered, every element carries its EDIF.identifier); the pre-pass itself is
   Fmt/EdifTopo.topological_sort + Names/Edifify.assign_all; [prepass] below is its reordering
   part on [nvfile] (identifier recording is the identity on a value that carries identifiers:
   _add_rename_property returns at once when "EDIF.identifier" is present).

   The writer addresses objects by Python identity, the value by identifiers: [emit_file] answers
   [EmUnsupported] unless sibling identifiers are pairwise different (case-insensitively, what the
   EDIF namespace policy enforces), so that the lookups below find the object the writer holds.

   Outside the model ([EmUnsupported], never guessed):
   - an identifier / reference that is not one token (white space, parenthesis, quote, empty),
   - a name, original property identifier or string value containing \n or \r (the tokenizer drops
     them inside quotes: the text is not the document), a program / version text with a quote,
   - a direction other than 0..3, a pin whose port / instance / referenced cell is not found or
     whose index is not below the port's width, duplicate sibling identifiers.
   Not expressible in [nvfile] at all (the harness counts such netlists and does not compare them):
   EDIF.rename set on an element whose name equals its identifier ((rename x "x") is written),
   "oldName" metadata, None / non-finite float / other property values, negative lower_index.
   [EmRaises]: compose raises (instance without reference, netlist without top instance).
   No proofs in this file. *)
From Coq Require Import List NArith ZArith Bool Arith String.
From SV Require Import Base.Base Fmt.EdifTopo Fmt.EdifLex Fmt.EdifName Fmt.EdifCable Fmt.EdifBus Fmt.EdifNets
  Fmt.EdifFile.
Import ListNotations.
Local Open Scope N_scope.

Inductive emres (A : Type) : Type := EmOk (a : A) | EmRaises | EmUnsupported.
Arguments EmOk {A} a.
Arguments EmRaises {A}.
Arguments EmUnsupported {A}.

Notation "'edo' x <- m ; f" :=
  (match m with EmOk x => f | EmRaises => EmRaises | EmUnsupported => EmUnsupported end)
  (at level 200, x name, m at level 100, f at level 200).

Fixpoint emap {A B : Type} (f : A -> emres B) (l : list A) : emres (list B) :=
  match l with
  | [] => EmOk []
  | a :: l' => edo b <- f a; edo r <- emap f l'; EmOk (b :: r)
  end.

Definition KW (s : string) : sexp := Atom (K s).

(* ---------------------------------------------------------------------------------------- *)
(* strings and names *)
(* _escape_string_: string.replace("%", "%37%").replace(dq, "%34%") with dq the double quote; the first replacement
   introduces no double quote, so one pass per character gives the same text *)
Definition esc_char (c : N) : str :=
  if N.eqb c 37 then [37; 51; 55; 37] else if N.eqb c 34 then [37; 51; 52; 37] else [c].
Definition escape_string (s : str) : str := flat_map esc_char s.

Definition has_nlcr (s : str) : bool := existsb is_nlcr s.

Definition atom_of (a : str) : emres sexp := if atom_ok a then EmOk (Atom a) else EmUnsupported.
Definition estr_of (s : str) : emres sexp :=
  if has_nlcr s then EmUnsupported else EmOk (Str (escape_string s)).

Definition rename_sexp (ident name : str) : emres sexp :=
  edo i <- atom_of ident; edo s <- estr_of name; EmOk (SList [KW "rename"; i; s]).

(* _get_name_string_ on an element whose EDIF.rename flag agrees with (name != identifier) *)
Definition name_sexp (ident name : str) : emres sexp :=
  if str_eqb name ident then atom_of ident else rename_sexp ident name.

(* str(int) *)
Definition dec_z (z : Z) : str :=
  match z with
  | Z0 => dec 0
  | Zpos p => dec (Npos p)
  | Zneg p => 45 :: dec (Npos p)
  end.

(* boolean equality, first part *)
Fixpoint list_eqb {X : Type} (e : X -> X -> bool) (a b : list X) : bool :=
  match a, b with
  | [], [] => true
  | x :: a', y :: b' => e x y && list_eqb e a' b'
  | _, _ => false
  end.
Definition opt_eqb {X : Type} (e : X -> X -> bool) (a b : option X) : bool :=
  match a, b with
  | None, None => true
  | Some x, Some y => e x y
  | _, _ => false
  end.
Definition pair_eqb (a b : str * str) : bool := str_eqb (fst a) (fst b) && str_eqb (snd a) (snd b).
Definition pval_eqb (a b : pval) : bool :=
  match a, b with
  | PVInt x, PVInt y => Z.eqb x y
  | PVStr x, PVStr y => str_eqb x y
  | PVBool x, PVBool y => Bool.eqb x y
  | _, _ => false
  end.
Definition prop_eqb (a b : nvprop) : bool :=
  str_eqb (pr_ident a) (pr_ident b) && opt_eqb str_eqb (pr_orig a) (pr_orig b) && pval_eqb (pr_val a) (pr_val b).

(* FLOAT-valued properties. The value type [pval] of Fmt/EdifFile.v has no real numbers (the reader
   model answers FeUnsupported on (number (e m x))), so a netlist value cannot carry them. They are
   a parameter of the writer model, like the timestamp: [fl] gives, for the instances that have at
   least one float property, the complete property list with every float as sign, decimal digits
   and exponent of Decimal(repr(value)).normalize() (that conversion is Python's; the harness
   recomputes it from repr(value) by string operations). The instance's [in_props] must be that
   list without the floats, else EmUnsupported. *)
Inductive xval := XV (v : pval) | XNum (neg : bool) (digits : N) (exp : Z).
Record xprop := mkxprop { xp_ident : str; xp_orig : option str; xp_val : xval }.
Definition fkey := (str * str * str)%type.                 (* library, cell, instance identifiers *)
Definition floats := list (fkey * list xprop).
Definition fkey_eqb (a b : fkey) : bool :=
  str_eqb (fst (fst a)) (fst (fst b)) && str_eqb (snd (fst a)) (snd (fst b)) && str_eqb (snd a) (snd b).
Definition float_props (fl : floats) (k : fkey) : option (list xprop) :=
  option_map snd (find (fun kv : fkey * list xprop => fkey_eqb (fst kv) k) fl).
Fixpoint xbase (xs : list xprop) : list nvprop :=
  match xs with
  | [] => []
  | x :: r => match xp_val x with
              | XV v => mkprop (xp_ident x) (xp_orig x) v :: xbase r
              | XNum _ _ _ => xbase r
              end
  end.

(* ---------------------------------------------------------------------------------------- *)
(* properties, ports, instances *)
Definition val_sexp (v : pval) : emres sexp :=
  match v with
  | PVStr s => edo x <- estr_of s; EmOk (SList [KW "string"; x])
  | PVBool b => EmOk (SList [KW "boolean"; SList [KW (if b then "True" else "False")]])
  | PVInt z => EmOk (SList [KW "integer"; Atom (dec_z z)])
  end.

Definition prop_sexp (p : nvprop) : emres sexp :=
  edo n <- match pr_orig p with
           | Some o => rename_sexp (pr_ident p) o
           | None => atom_of (pr_ident p)
           end;
  edo v <- val_sexp (pr_val p);
  EmOk (SList [KW "property"; n; v]).

Definition xprop_sexp (p : xprop) : emres sexp :=
  match xp_val p with
  | XV v => prop_sexp (mkprop (xp_ident p) (xp_orig p) v)
  | XNum neg digits e =>
    edo n <- match xp_orig p with
             | Some o => rename_sexp (xp_ident p) o
             | None => atom_of (xp_ident p)
             end;
    EmOk (SList [KW "property"; n;
                 SList [KW "number"; SList [KW "e"; Atom ((if neg then [45] else []) ++ dec digits); Atom (dec_z e)]]])
  end.

Definition props_sexp (fl : floats) (k : fkey) (ps : list nvprop) : emres (list sexp) :=
  match float_props fl k with
  | None => emap prop_sexp ps
  | Some xs => if list_eqb prop_eqb (xbase xs) ps then emap xprop_sexp xs else EmUnsupported
  end.

Definition dir_sexp (d : N) : emres (list sexp) :=
  if N.eqb d 0 then EmOk []
  else if N.eqb d 1 then EmOk [SList [KW "direction"; KW "INPUT"]]
  else if N.eqb d 2 then EmOk [SList [KW "direction"; KW "OUTPUT"]]
  else if N.eqb d 3 then EmOk [SList [KW "direction"; KW "INOUT"]]
  else EmUnsupported.

Definition port_sexp (p : nvport) : emres sexp :=
  edo n <- name_sexp (po_ident p) (po_name p);
  edo d <- dir_sexp (po_dir p);
  if po_array p
  then EmOk (SList ([KW "port"; SList [KW "array"; n; Atom (dec (po_width p))]] ++ d))
  else EmOk (SList (KW "port" :: n :: d)).

Definition inst_sexp (fl : floats) (lib cell : str) (i : nvinst) : emres sexp :=
  match in_ref i with
  | None => EmRaises
  | Some (l, c) =>
    edo n <- name_sexp (in_ident i) (in_name i);
    edo ca <- atom_of c;
    edo la <- atom_of l;
    edo ps <- props_sexp fl (lib, cell, in_ident i) (in_props i);
    EmOk (SList ([KW "instance"; n;
                  SList [KW "viewref"; KW "netlist"; SList [KW "cellref"; ca; SList [KW "libraryref"; la]]]] ++ ps))
  end.

(* ---------------------------------------------------------------------------------------- *)
(* nets *)
Definition target_sexp (p : nvport) (k : N) : emres sexp :=
  if negb (k <? po_width p) then EmUnsupported else
  edo a <- atom_of (po_ident p);
  if po_array p then EmOk (SList [KW "member"; a; Atom (dec k)]) else EmOk a.

Definition find_inst_v (i : str) (insts : list nvinst) : option nvinst :=
  find (fun x => ident_eqb (in_ident x) i) insts.

Definition pin_sexp (libs : list nvlib) (c : nvcell) (p : pd) : emres sexp :=
  match p with
  | PTop pt k =>
    match find_port pt (ce_ports c) with
    | Some po => edo t <- target_sexp po k; EmOk (SList [KW "portref"; t])
    | None => EmUnsupported
    end
  | PInst i pt k =>
    match find_inst_v i (ce_insts c) with
    | Some x =>
      match in_ref x with
      | Some (l, cn) =>
        match find_lib l libs with
        | Some L =>
          match find_cell cn (li_cells L) with
          | Some C =>
            match find_port pt (ce_ports C) with
            | Some po =>
              edo t <- target_sexp po k;
              edo ia <- atom_of (in_ident x);
              EmOk (SList [KW "portref"; t; SList [KW "instanceref"; ia]])
            | None => EmUnsupported
            end
          | None => EmUnsupported
          end
        | None => EmUnsupported
        end
      | None => EmUnsupported
      end
    | None => EmUnsupported
    end
  end.

(* one net of Fmt/EdifBus.emit_cable: (identifier, name, pins). A bit of a bus has identifier
   <ident>_<i>_ and name <name>[<i>], which differ, so it is written with rename like the code
   does unconditionally; a scalar cable goes through _output_name_of_object_ *)
Definition net_sexp (libs : list nvlib) (c : nvcell) (n : str * str * list pd) : emres sexp :=
  edo nm <- name_sexp (fst (fst n)) (snd (fst n));
  edo refs <- emap (pin_sexp libs c) (snd n);
  EmOk (SList [KW "net"; nm; SList (KW "joined" :: refs)]).

(* ---------------------------------------------------------------------------------------- *)
(* cells, libraries *)
Fixpoint uniq_ci (l : list str) : bool :=
  match l with
  | [] => true
  | a :: l' => negb (existsb (ident_eqb a) l') && uniq_ci l'
  end.

Definition is_nil {X : Type} (l : list X) : bool := match l with [] => true | _ => false end.

Definition cell_sexp (fl : floats) (libs : list nvlib) (lib : str) (c : nvcell) : emres sexp :=
  if negb (uniq_ci (map po_ident (ce_ports c)) && uniq_ci (map in_ident (ce_insts c))) then EmUnsupported else
  edo n <- name_sexp (ce_ident c) (ce_name c);
  edo ports <- emap port_sexp (ce_ports c);
  edo insts <- emap (inst_sexp fl lib (ce_ident c)) (ce_insts c);
  edo nets <- emap (net_sexp libs c) (emit_nets (ce_cabs c));
  let contents := if is_nil (ce_insts c) && is_nil (ce_cabs c) then []
                  else [SList (KW "contents" :: insts ++ nets)] in
  EmOk (SList [KW "Cell"; n; SList [KW "celltype"; KW "GENERIC"];
               SList ([KW "view"; KW "netlist"; SList [KW "viewtype"; KW "NETLIST"];
                       SList (KW "interface" :: ports)] ++ contents)]).

Definition lib_sexp (fl : floats) (libs : list nvlib) (L : nvlib) : emres sexp :=
  if negb (uniq_ci (map ce_ident (li_cells L))) then EmUnsupported else
  edo n <- name_sexp (li_ident L) (li_name L);
  edo cells <- emap (cell_sexp fl libs (li_ident L)) (li_cells L);
  EmOk (SList ([KW "Library"; n; SList [KW "edifLevel"; KW "0"];
                SList [KW "technology"; SList [KW "numberDefinition"]]] ++ cells)).

(* ---------------------------------------------------------------------------------------- *)
(* status, file *)
Definition plain_str (s : str) : emres sexp := if str_ok s then EmOk (Str s) else EmUnsupported.

(* ts: the six fields of strftime("%Y %m %d %H %M %S"); prog: EDIF.status.written.program and
   EDIF.status.written.program.version of the netlist (written without escaping) *)
Definition status_sexp (ts : list str) (prog : option (str * option str)) : emres sexp :=
  edo t <- emap atom_of ts;
  edo p <- match prog with
           | None => EmOk []
           | Some (p, v) =>
             edo ps <- plain_str p;
             edo vs <- match v with
                       | None => EmOk []
                       | Some v => edo x <- plain_str v; EmOk [SList [KW "version"; x]]
                       end;
             EmOk [SList ([KW "program"; ps] ++ vs)]
           end;
  EmOk (SList [KW "status";
               SList ([KW "written"; SList (KW "timeStamp" :: t)] ++ p ++
                      [SList [KW "comment"; Str (K "Built by 'BYU spydrnet tool'")]])]).

Definition emit_file (ts : list str) (prog : option (str * option str)) (fl : floats) (n : nvfile) : emres sexp :=
  match nf_top n with
  | None => EmRaises
  | Some t =>
    if negb (uniq_ci (map li_ident (nf_libs n))) then EmUnsupported else
    edo nm <- name_sexp (nf_ident n) (nf_name n);
    edo st <- status_sexp ts prog;
    edo libs <- emap (lib_sexp fl (nf_libs n)) (nf_libs n);
    edo tn <- name_sexp (tp_ident t) (tp_name t);
    edo tc <- atom_of (tp_cell t);
    edo tl <- atom_of (tp_lib t);
    EmOk (SList ([KW "edif"; nm; SList [KW "edifversion"; KW "2"; KW "0"; KW "0"]; SList [KW "edifLevel"; KW "0"];
                  SList [KW "keywordmap"; SList [KW "keywordlevel"; KW "0"]]; st] ++ libs ++
                 [SList [KW "design"; tn; SList [KW "cellref"; tc; SList [KW "libraryref"; tl]]]]))
  end.

(* the text written (without the composer's line breaks and indentation: the tokenizer does not
   see them, Proofs/EdifLexProofs.tokenize_print) *)
Definition emit_text (ts : list str) (prog : option (str * option str)) (fl : floats) (n : nvfile) : emres str :=
  edo d <- emit_file ts prog fl n; EmOk (print d).

(* ---------------------------------------------------------------------------------------- *)
(* the reordering part of the pre-pass on the value: libraries by "a cell of mine instantiates a
   cell of that library", cells of a library by "instantiates that cell of the same library"
   (dependency lists in instance order; the theorems of Fmt/EdifTopo hold for any order) *)
Fixpoint index_ci (i : str) (l : list str) : option nat :=
  match l with
  | [] => None
  | a :: l' => if ident_eqb a i then Some O else option_map S (index_ci i l')
  end.

Definition opt_list {X : Type} (o : option X) : list X := match o with Some x => [x] | None => [] end.

Definition lib_deps (libs : list nvlib) (k : nat) : list nat :=
  match nth_error libs k with
  | None => []
  | Some L =>
    flat_map (fun c => flat_map (fun i =>
      match in_ref i with
      | Some (l, _) => if ident_eqb l (li_ident L) then [] else opt_list (index_ci l (map li_ident libs))
      | None => []
      end) (ce_insts c)) (li_cells L)
  end.

Definition cell_deps (L : nvlib) (k : nat) : list nat :=
  match nth_error (li_cells L) k with
  | None => []
  | Some c =>
    flat_map (fun i =>
      match in_ref i with
      | Some (l, cn) => if ident_eqb l (li_ident L) then opt_list (index_ci cn (map ce_ident (li_cells L))) else []
      | None => []
      end) (ce_insts c)
  end.

Fixpoint pick {X : Type} (l : list X) (ks : list nat) : option (list X) :=
  match ks with
  | [] => Some []
  | k :: ks' => match nth_error l k, pick l ks' with Some x, Some r => Some (x :: r) | _, _ => None end
  end.

Definition reorder {X : Type} (deps : nat -> list nat) (l : list X) : option (list X) :=
  match topological_sort deps (seq 0 (List.length l)) with
  | Some ks => pick l ks
  | None => None
  end.

Fixpoint omap {X Y : Type} (f : X -> option Y) (l : list X) : option (list Y) :=
  match l with
  | [] => Some []
  | a :: l' => match f a, omap f l' with Some b, Some r => Some (b :: r) | _, _ => None end
  end.

Definition prepass (n : nvfile) : option nvfile :=
  match reorder (lib_deps (nf_libs n)) (nf_libs n) with
  | None => None
  | Some libs =>
    match omap (fun L => option_map (mklib (li_name L) (li_ident L)) (reorder (cell_deps L) (li_cells L))) libs with
    | None => None
    | Some libs' => Some (mkfile (nf_name n) (nf_ident n) libs' (nf_top n))
    end
  end.

(* ---------------------------------------------------------------------------------------- *)
(* what the reader returns for a written value: the view is called "netlist", a bus carries the
   array flag (Fmt/EdifNets.norm_entry) *)
Definition norm_cell (c : nvcell) : nvcell :=
  mkcell (ce_name c) (ce_ident c) (Some (K "netlist")) (ce_ports c) (ce_insts c) (map (@norm_entry pd) (ce_cabs c)).
Definition norm_lib (L : nvlib) : nvlib := mklib (li_name L) (li_ident L) (map norm_cell (li_cells L)).
Definition norm_file (n : nvfile) : nvfile := mkfile (nf_name n) (nf_ident n) (map norm_lib (nf_libs n)) (nf_top n).

(* ---------------------------------------------------------------------------------------- *)
(* boolean equality of netlist values *)
Definition port_eqb (a b : nvport) : bool :=
  str_eqb (po_name a) (po_name b) && str_eqb (po_ident a) (po_ident b) && N.eqb (po_dir a) (po_dir b) &&
  N.eqb (po_width a) (po_width b) && Bool.eqb (po_array a) (po_array b).
Definition inst_eqb (a b : nvinst) : bool :=
  str_eqb (in_name a) (in_name b) && str_eqb (in_ident a) (in_ident b) && opt_eqb pair_eqb (in_ref a) (in_ref b) &&
  list_eqb prop_eqb (in_props a) (in_props b).
Definition cab_eqb (a b : entry pd) : bool :=
  str_eqb (e_name a) (e_name b) && str_eqb (e_ident a) (e_ident b) &&
  N.eqb (c_lower (e_cab a)) (c_lower (e_cab b)) && Bool.eqb (c_array (e_cab a)) (c_array (e_cab b)) &&
  list_eqb (list_eqb pd_eqb) (c_wires (e_cab a)) (c_wires (e_cab b)).
Definition cell_eqb (a b : nvcell) : bool :=
  str_eqb (ce_name a) (ce_name b) && str_eqb (ce_ident a) (ce_ident b) && opt_eqb str_eqb (ce_view a) (ce_view b) &&
  list_eqb port_eqb (ce_ports a) (ce_ports b) && list_eqb inst_eqb (ce_insts a) (ce_insts b) &&
  list_eqb cab_eqb (ce_cabs a) (ce_cabs b).
Definition lib_eqb (a b : nvlib) : bool :=
  str_eqb (li_name a) (li_name b) && str_eqb (li_ident a) (li_ident b) && list_eqb cell_eqb (li_cells a) (li_cells b).
Definition top_eqb (a b : nvtop) : bool :=
  str_eqb (tp_name a) (tp_name b) && str_eqb (tp_ident a) (tp_ident b) && str_eqb (tp_lib a) (tp_lib b) &&
  str_eqb (tp_cell a) (tp_cell b).
Definition file_eqb (a b : nvfile) : bool :=
  str_eqb (nf_name a) (nf_name b) && str_eqb (nf_ident a) (nf_ident b) && list_eqb lib_eqb (nf_libs a) (nf_libs b) &&
  opt_eqb top_eqb (nf_top a) (nf_top b).

(* the round-trip CHECKER evaluated on every generated case by the extracted model:
   0 = the written document is read back as [norm_file n] (Proofs/EdifEmitProofs.rt_check_sound),
   1 = the reader model is outside its subset on the written document, 2 = it refuses it,
   3 = it returns another value, 4 = the document is not its own text (sexp_ok fails),
   5 = the writer model raises / is outside its subset *)
Definition rt_status (ts : list str) (prog : option (str * option str)) (fl : floats) (n : nvfile) : N :=
  match emit_file ts prog fl n with
  | EmOk d =>
    if negb (sexp_ok d) then 4 else
    match elab_file d with
    | Ok n' => if file_eqb n' (norm_file n) then 0 else 3
    | Err FeUnsupported => 1
    | Err _ => 2
    end
  | _ => 5
  end.
Definition rt_check (ts : list str) (prog : option (str * option str)) (fl : floats) (n : nvfile) : bool :=
  N.eqb (rt_status ts prog fl n) 0.

(* ---------------------------------------------------------------------------------------- *)
(* "already in dependency order": every dependency of the k-th object has a smaller position
   (what the pre-pass leaves behind; decided on the value) *)
Definition ordered_by (deps : nat -> list nat) (len : nat) : bool :=
  forallb (fun o => forallb (fun d => Nat.ltb d o) (deps o)) (seq 0 len).
Definition ordered (n : nvfile) : bool :=
  ordered_by (lib_deps (nf_libs n)) (List.length (nf_libs n)) &&
  forallb (fun L => ordered_by (cell_deps L) (List.length (li_cells L))) (nf_libs n).

(* ---------------------------------------------------------------------------------------- *)
(* [writable]: the decidable class of netlist values for which write-then-read is claimed
   (Props/C03.v C03_emit_roundtrip_full; every run evaluates writable -> rt_check and
   writable -> the implementation's round trip holds, on every generated netlist).
   What it asks is what the READER checks on the written file, clause by clause:
   - identifiers: legal EDIF identifiers (namespace policy), one token, ASCII, no * or ?
     (the get_* lookups take them for patterns); property identifiers: identifier tokens;
   - names, original property identifiers, string values: printable ASCII or tab (the reader's
     string token), net names without * and ?;
   - siblings: identifiers pairwise different case-insensitively, names pairwise different;
   - ports: direction 0..3, width 1..65536, a non-array port has one pin;
   - instances: the referenced cell is declared BEFORE the instantiating cell (same library or
     an earlier one) and is named by its exact identifiers;
   - cables (Proofs/EdifNetsProofs.wf_cell): at least one wire; a bus has an identifier that is not
     "&" / "&_.." and a name not starting with a backslash, upper index <= 65536; a scalar cable
     has lower index 0 and is not named like a bit of a bus; the generated bit identifiers are legal;
   - pins: port / instance found under its exact identifier, index below the width, every pin
     on at most one wire;
   - the top instance names a declared cell; six integer timestamp fields.
   Excluded on purpose = the open findings and unsupported forms: "&_" buses (C03-K..), bit-like
   scalar names, names with * ?, non-ASCII text, \n \r in strings. *)
Definition text_ok (s : str) : bool := forallb (fun c => N.eqb c 9 || ((32 <=? c) && (c <=? 126))) s.
Definition ascii_ok (s : str) : bool := forallb (fun c => c <? 128) s.
Definition ident_w (i : str) : bool :=
  NS.check_edif_identifier i && ident_tok_ok i && atom_ok i && negb (has_wild i) && ascii_ok i.
Definition propid_w (i : str) : bool := ident_tok_ok i && atom_ok i && ascii_ok i.
Definition elem_w (ident name : str) : bool := ident_w ident && text_ok name.

Fixpoint uniq_x (l : list str) : bool :=
  match l with
  | [] => true
  | a :: l' => negb (existsb (str_eqb a) l') && uniq_x l'
  end.
Fixpoint uniq_pd (l : list pd) : bool :=
  match l with
  | [] => true
  | a :: l' => negb (existsb (pd_eqb a) l') && uniq_pd l'
  end.

Definition prop_w (p : nvprop) : bool :=
  propid_w (pr_ident p) &&
  match pr_orig p with Some o => text_ok o | None => true end &&
  match pr_val p with PVStr s => text_ok s | _ => true end.

Definition port_w (p : nvport) : bool :=
  elem_w (po_ident p) (po_name p) && (po_dir p <=? 3) && (1 <=? po_width p) && (po_width p <=? 65536) &&
  (po_array p || N.eqb (po_width p) 1).

(* the cell an instance reference names, as the reader resolves it while reading cell number
   [length cells] of library [lib]: [prev] = the libraries before it *)
Definition ref_cell (prev : list nvlib) (lib : str) (cells : list nvcell) (r : option (str * str)) : option nvcell :=
  match r with
  | None => None
  | Some (l, c) =>
    let cs := if ident_eqb lib l then (if str_eqb lib l then Some cells else None)
              else match find_lib l prev with
                   | Some L => if str_eqb (li_ident L) l then Some (li_cells L) else None
                   | None => None
                   end in
    match cs with
    | Some cs => match find_cell c cs with
                 | Some C => if str_eqb (ce_ident C) c then Some C else None
                 | None => None
                 end
    | None => None
    end
  end.

Definition inst_w (prev : list nvlib) (lib : str) (cells : list nvcell) (i : nvinst) : bool :=
  elem_w (in_ident i) (in_name i) && forallb prop_w (in_props i) &&
  match ref_cell prev lib cells (in_ref i) with Some _ => true | None => false end.

Definition port_pin_w (ports : list nvport) (pt : str) (k : N) : bool :=
  match find_port pt ports with
  | Some po => str_eqb (po_ident po) pt && (k <? po_width po)
  | None => false
  end.

Definition pin_w (prev : list nvlib) (lib : str) (cells : list nvcell) (c : nvcell) (p : pd) : bool :=
  match p with
  | PTop pt k => port_pin_w (ce_ports c) pt k
  | PInst i pt k =>
    match find_inst_v i (ce_insts c) with
    | Some x => str_eqb (in_ident x) i &&
                match ref_cell prev lib cells (in_ref x) with
                | Some C => port_pin_w (ce_ports C) pt k
                | None => false
                end
    | None => false
    end
  end.

Definition cab_w (e : entry pd) : bool :=
  text_ok (e_name e) && negb (is_nil (c_wires (e_cab e))) &&
  forallb (fun n : str * str * list pd => ident_w (fst (fst n))) (emit_cable (e_ident e) (e_name e) (e_cab e)) &&
  if is_busb (e_cab e)
  then (c_lower (e_cab e) + N.of_nat (List.length (c_wires (e_cab e))) <=? 65536)
  else N.eqb (c_lower (e_cab e)) 0 &&
       match net_bit (e_ident e) (e_name e) with Some (None, _, _) => true | _ => false end.

Definition cell_w (prev : list nvlib) (lib : str) (cells : list nvcell) (c : nvcell) : bool :=
  elem_w (ce_ident c) (ce_name c) &&
  forallb port_w (ce_ports c) && uniq_ci (map po_ident (ce_ports c)) && uniq_x (map po_name (ce_ports c)) &&
  forallb (inst_w prev lib cells) (ce_insts c) &&
  uniq_ci (map in_ident (ce_insts c)) && uniq_x (map in_name (ce_insts c)) &&
  forallb cab_w (ce_cabs c) &&
  uniq_ci (map (@e_ident pd) (ce_cabs c)) && uniq_x (map (@e_name pd) (ce_cabs c)) &&
  forallb (pin_w prev lib cells c) (flat_map (fun e : entry pd => List.concat (c_wires (e_cab e))) (ce_cabs c)) &&
  uniq_pd (flat_map (fun e : entry pd => List.concat (c_wires (e_cab e))) (ce_cabs c)).

Fixpoint cells_w (prev : list nvlib) (lib : str) (done todo : list nvcell) : bool :=
  match todo with
  | [] => true
  | c :: r => cell_w prev lib done c && cells_w prev lib (done ++ [c]) r
  end.

Definition lib_w (prev : list nvlib) (L : nvlib) : bool :=
  elem_w (li_ident L) (li_name L) && cells_w prev (li_ident L) [] (li_cells L) &&
  uniq_ci (map ce_ident (li_cells L)) && uniq_x (map ce_name (li_cells L)).

Fixpoint libs_w (done todo : list nvlib) : bool :=
  match todo with
  | [] => true
  | L :: r => lib_w done L && libs_w (done ++ [L]) r
  end.

Definition top_w (libs : list nvlib) (t : nvtop) : bool :=
  elem_w (tp_ident t) (tp_name t) &&
  match find_lib (tp_lib t) libs with
  | Some L => str_eqb (li_ident L) (tp_lib t) &&
              match find_cell (tp_cell t) (li_cells L) with
              | Some C => str_eqb (ce_ident C) (tp_cell t)
              | None => false
              end
  | None => false
  end.

Definition params_w (ts : list str) (prog : option (str * option str)) : bool :=
  Nat.eqb (List.length ts) 6 && forallb (fun a => is_int_atom (Atom a) && atom_ok a && ascii_ok a) ts &&
  match prog with
  | None => true
  | Some (p, v) => str_tok_ok p && match v with Some v => str_tok_ok v | None => true end
  end.

Definition writable (n : nvfile) : bool :=
  elem_w (nf_ident n) (nf_name n) && libs_w [] (nf_libs n) &&
  uniq_ci (map li_ident (nf_libs n)) && uniq_x (map li_name (nf_libs n)) &&
  match nf_top n with Some t => top_w (nf_libs n) t | None => false end.
