(* Models of (1) EdifParser.multibit_add_cable (parser.py:1003-1063) on a pure cable value and
   (2) the (member port x) index computations of the writer (composer.py:464-510) together with
   the reader's port.pins[index] (parser.py:780,792).

   (1) A wire is the ordered list of the pins joined to it (any type P); a cable is its lower
   index, its array flag and its wires by position. The reader sees the bits of a bus as separate
   one-wire nets "name[i]" in file order and merges each into the cable found under the short
   name:
       no existing cable : index None -> scalar cable, lower 0 ; index i -> array cable, lower i
       existing cable    : not an array, or index None -> the net is added as a cable of its own
                           (MbSeparate; name clashes are handled by the caller)
         index >= lower, index <  lower+len : pins of the new wire are MOVED to wires[index-lower]
         index >= lower, index >= lower+len : create_wires(index-lower-len) empty wires, append
         index <  lower : append the wire, create_wires(lower-index-1), lower := index,
                          wires := wires[len0:] + wires[:len0]
       (repaired K11: the first test was index > lower, so a second net for the bit that is the
        lower index was PREPENDED as a new wire; now it joins wire 0 like any bit given twice.)
   (2) outer pins: every x with port.pins[x] == inner_pin is written; inner pins: the
   for/continue/break loop of _output_port_ref_, whose result is the loop variable after the loop.
   No proofs in this file. *)
From Coq Require Import List NArith Arith Bool.
From SV Require Import Base.Base.
Import ListNotations.

Section Cable.
Variable P : Type.

Record cab := mkcab { c_lower : N; c_array : bool; c_wires : list (list P) }.

(* Bundle.is_array: more than one item, or the flag *)
Definition cab_is_array (c : cab) : bool :=
  (1 <? length (c_wires c))%nat || c_array c.

Inductive mb_result :=
| MbCable (c : cab)       (* the (new or updated) cable registered under the short name *)
| MbSeparate.             (* definition.add_cable(cable) under the full name *)

Definition mb_merge (c : cab) (index : N) (w : list P) : cab :=
  let lower := c_lower c in
  let ws := c_wires c in
  let len := N.of_nat (length ws) in
  if (lower <=? index)%N then
    if (index <? lower + len)%N then
      let k := N.to_nat (index - lower) in
      mkcab lower (c_array c) (firstn k ws ++ (nth k ws [] ++ w) :: skipn (S k) ws)
    else
      mkcab lower (c_array c) (ws ++ repeat [] (N.to_nat (index - lower - len)) ++ [w])
  else
    mkcab index (c_array c) (w :: repeat [] (N.to_nat (lower - index - 1)) ++ ws).

Definition mb_add (existing : option cab) (index : option N) (w : list P) : mb_result :=
  match existing with
  | None =>
    match index with
    | None => MbCable (mkcab 0%N false [w])
    | Some i => MbCable (mkcab i true [w])
    end
  | Some c =>
    match index with
    | None => MbSeparate
    | Some i => if cab_is_array c then MbCable (mb_merge c i w) else MbSeparate
    end
  end.

(* the bits of one bus, in file order *)
Fixpoint assemble_from (c : cab) (bits : list (N * list P)) : cab :=
  match bits with
  | [] => c
  | (i, w) :: bits' => assemble_from (mb_merge c i w) bits'
  end.

Definition assemble (bits : list (N * list P)) : option cab :=
  match bits with
  | [] => None
  | (i, w) :: bits' => Some (assemble_from (mkcab i true [w]) bits')
  end.

(* the wire of bit i of a cable (empty outside the range) *)
Definition wire_of (c : cab) (i : N) : list P :=
  if (i <? c_lower c)%N then [] else nth (N.to_nat (i - c_lower c)) (c_wires c) [].
End Cable.

Arguments mkcab {P}. Arguments c_lower {P}. Arguments c_array {P}. Arguments c_wires {P}.
Arguments mb_merge {P}. Arguments mb_add {P}. Arguments assemble {P}. Arguments assemble_from {P}.
Arguments wire_of {P}. Arguments cab_is_array {P}. Arguments MbCable {P}. Arguments MbSeparate {P}.

(* (2) member indices; pins are handles *)
Fixpoint positions_of (p : nat) (pins : list nat) (x : nat) : list nat :=
  match pins with
  | [] => []
  | q :: pins' => (if Nat.eqb q p then [x] else []) ++ positions_of p pins' (S x)
  end.

(* _output_inner_pin_: " x)" is written for every x in this list *)
Definition member_outer (pins : list nat) (p : nat) : list nat := positions_of p pins 0.

(* _output_port_ref_: value of x after the loop; None = the loop body never ran (NameError) *)
Fixpoint portref_go (haswire : nat -> bool) (p : nat) (pins : list nat) (x : nat) : option nat :=
  match pins with
  | [] => None
  | q :: pins' =>
    if haswire q && Nat.eqb q p then Some x
    else match pins' with
         | [] => Some x
         | _ => portref_go haswire p pins' (S x)
         end
  end.
Definition member_inner (haswire : nat -> bool) (pins : list nat) (p : nat) : option nat :=
  portref_go haswire p pins 0.

(* the reader: port.pins[index] *)
Definition member_read (pins : list nat) (index : nat) : option nat := nth_error pins index.
