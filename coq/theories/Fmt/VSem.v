(* Engine `verilog`: the meaning of the constructs of a document, stated independently of the reader's mechanics
   (definitions only; theorems in Proofs/VElabSem*.v and Props/C06.v). The Coq counterpart of the pieces of
   harness/verilog_gen.expected:

     cenv            what is known of the nets of a module: name -> (lower index, width)
     datom_bits      the net bits an atom names, LEAST significant first; a plain identifier that is not declared
                     is an implied one-bit net (index 0); 1'b0 / 1'b1 are the nets \<const0> / \<const1>
     dexpr_bits      the same for an expression: in {a, b, c} the last item is the least significant
     datom_typed     the property's input class for one atom: selects only on declared nets, inside their range,
                     msb >= lsb (a select outside the range makes the reader grow the cable - outside the class) *)
From Coq Require Import List ZArith Bool.
From SV Require Import Base.Base Fmt.VBits Fmt.VExpr Fmt.VDoc Fmt.VElab.
Import ListNotations.
Open Scope Z_scope.

Definition cenv := str -> option (Z * nat).

Definition datom_bits (E : cenv) (a : datom) : list bitref :=
  let n := atom_name a in
  match atom_l a, atom_r a with
  | Some h, Some l => map (pair n) (zup l h)
  | Some i, None => [(n, i)]
  | None, _ => match E n with
               | Some (lo, w) => map (pair n) (zup lo (lo + Z.of_nat w - 1))
               | None => [(n, 0)]
               end
  end.

Definition dexpr_bits (E : cenv) (e : dexpr) : list bitref :=
  match e with DAtom a => datom_bits E a | DCat l => flat_map (datom_bits E) (rev l) end.

Definition datom_typed (E : cenv) (a : datom) : Prop :=
  has_glob (atom_name a) = false /\
  match atom_l a, atom_r a with
  | Some h, Some l => exists lo w, E (atom_name a) = Some (lo, w) /\ lo <= l /\ l <= h /\ h <= lo + Z.of_nat w - 1
  | Some i, None => exists lo w, E (atom_name a) = Some (lo, w) /\ lo <= i <= lo + Z.of_nat w - 1
  | None, _ => True
  end.

Definition dexpr_typed (E : cenv) (e : dexpr) : Prop :=
  match e with DAtom a => datom_typed E a | DCat l => l <> [] /\ Forall (datom_typed E) l end.

(* ---------- reading the same notions off a state of the reader ---------- *)
(* Verilog index of the object with ordinal o in a bundle *)
Definition blabel (b : bundle) (o : nat) : option Z :=
  match index_of o (b_items b) with Some k => Some (b_lo b + Z.of_nat k) | None => None end.

(* what a definition knows of its nets *)
Definition crange (d : edef) : cenv := fun n =>
  match find_cable n d with
  | Some k => match nth_error (ed_cables d) k with
              | Some c => Some (b_lo (ec_b c), length (b_items (ec_b c)))
              | None => None end
  | None => None
  end.

(* the connections of a definition, each seen as (endpoint, net bit) *)
Definition lconn (s : estate) (d : edef) : list (option endpoint * option bitref) :=
  map (fun pw => (pin_endpoint s d (fst pw), wire_label d (snd pw))) (ed_conn d).
