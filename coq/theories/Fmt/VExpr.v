(* Engine `verilog`: connection expressions (reader side) and the text of one instance port (writer side),
   built from the primitives of Fmt/VBits.v. Model only.

   reader : parse_port_map_single / connect_implicitly_mapped_ports up to the wire list:
            identifier, bit-select, part-select (parse_variable_instantiation + get_wires_from_cable) and
            concatenation (parse_cable_concatenation: per item get_wires_from_cable, descending sort, append).
            1'b0 / 1'b1 are the one-wire cables \<const0> / \<const1> (an identifier here).
   writer : _write_instance_port: concatenation or plain slice chosen by _is_pinset_concatenated. *)
From Coq Require Import List ZArith Bool Lia Arith.
From SV Require Import Fmt.VBits.
Import ListNotations.
Open Scope Z_scope.

Inductive atom := AId (c : nat) | ABit (c : nat) (i : Z) | APart (c : nat) (h l : Z).
Inductive vexpr := EAtom (a : atom) | ECat (l : list atom).

Definition atom_cable (a : atom) : nat := match a with AId c | ABit c _ | APart c _ _ => c end.

(* wires of an atom as the reader lists them (most significant first); None = IndexError *)
Definition reader_atom (e : env) (a : atom) : option (list wire) :=
  let c := atom_cable a in
  let lo := fst (e c) in
  let ws := cable_wires c lo (snd (e c)) in
  match a with
  | AId _ => get_wires lo ws None None
  | ABit _ i => get_wires lo ws (Some i) None
  | APart _ h l => get_wires lo ws (Some h) (Some l)
  end.

Fixpoint reader_cat (e : env) (l : list atom) : option (list wire) :=
  match l with
  | [] => Some []
  | a :: r =>
      match reader_atom e a, reader_cat e r with
      | Some t, Some u => Some (sort_desc (fun w : wire => snd w - fst (e (atom_cable a))) t ++ u)
      | _, _ => None
      end
  end.

Definition reader_expr (e : env) (x : vexpr) : option (list wire) :=
  match x with EAtom a => reader_atom e a | ECat l => reader_cat e l end.

(* the meaning of an expression: its net bits, LEAST significant first *)
Definition zup (l h : Z) : list Z := map (fun k => l + Z.of_nat k) (seq 0 (Z.to_nat (h - l + 1))).

Definition atom_bits (e : env) (a : atom) : list wire :=
  match a with
  | AId c => map (fun i => (c, i)) (zup (fst (e c)) (fst (e c) + Z.of_nat (snd (e c)) - 1))
  | ABit c i => [(c, i)]
  | APart c h l => map (fun i => (c, i)) (zup l h)
  end.

Definition expr_bits (e : env) (x : vexpr) : list wire :=
  match x with EAtom a => atom_bits e a | ECat l => flat_map (atom_bits e) (rev l) end.

Definition atom_typed (e : env) (a : atom) : Prop :=
  let lo := fst (e (atom_cable a)) in
  let up := lo + Z.of_nat (snd (e (atom_cable a))) - 1 in
  (1 <= snd (e (atom_cable a)))%nat /\
  match a with
  | AId _ => True
  | ABit _ i => lo <= i <= up
  | APart _ h l => lo <= l /\ l <= h /\ h <= up
  end.

Definition expr_typed (e : env) (x : vexpr) : Prop :=
  match x with EAtom a => atom_typed e a | ECat l => Forall (atom_typed e) l end.

(* ---------- writer: one named instance port ---------- *)
Inductive ptext := PEmpty | PPlain (c : nat) (b : brk) | PConcat (t : list (nat * brk)).

(* ws: the wires of the instance's pins in port order (pin 0 first) *)
Definition emit_port (e : env) (ws : list (option wire)) : option ptext :=
  let name := match ws with Some (c, _) :: _ => Some c | _ => None end in
  if is_pinset_concatenated name ws then
    (* sorted_wires: pins sorted by descending index = the reverse of the port order *)
    match write_concat e (rev ws) with Some t => Some (PConcat t) | None => None end
  else match ws with
       | Some _ :: _ => match write_plain_port e ws with Some (c, b) => Some (PPlain c b) | None => None end
       | _ => Some PEmpty
       end.

(* reader: the wire list of the text *)
Definition read_port (e : env) (t : ptext) : option (list wire) :=
  match t with
  | PEmpty => Some []
  | PPlain c b => get_wires (fst (e c)) (cable_wires c (fst (e c)) (snd (e c))) (fst (read_brackets b)) (snd (read_brackets b))
  | PConcat t => read_concat e t
  end.

(* ---------- assign statements ---------- *)
(* reader: connect_wires_for_assign. Pin k (position k of the ports o / i of SDN_VERILOG_ASSIGNMENT_w) takes
   out_wires[-1-k] / in_wires[-1-k], both lists being MOST significant first: bit k from the low end of each side.
   Result: per pin (o wire, i wire). *)
Definition read_assign (e : env) (lhs rhs : atom) : option (list (wire * wire)) :=
  match reader_atom e lhs, reader_atom e rhs with
  | Some o, Some i =>
      let w := Nat.min (length o) (length i) in
      Some (combine (firstn w (rev o)) (firstn w (rev i)))
  | _, _ => None
  end.

(* the text "c" / "c[i]" / "c[h:l]" that _write_bundle_with_indicies emitted, as parse_variable_instantiation reads it *)
Definition brk_atom (c : nat) (b : brk) : atom :=
  match b with BNone => AId c | BIdx i => ABit c i | BRange h l => APart c h l end.

(* writer: _write_assignment over the pins in port order; None = AssertionError *)
Definition write_assign (e : env) (pins : list (wire * wire)) : option ((nat * brk) * (nat * brk)) :=
  let outs := map fst pins in
  let ins := map snd pins in
  match ins, outs with
  | (ci, i0) :: _, (co, o0) :: _ =>
      if is_pinset_concatenated (Some ci) (map Some ins) then None
      else if is_pinset_concatenated (Some co) (map Some outs) then None
      else
        match write_brackets (fst (e co)) (Z.of_nat (snd (e co))) (Some o0) (Some (snd (last outs (co, o0)))),
              write_brackets (fst (e ci)) (Z.of_nat (snd (e ci))) (Some i0) (Some (snd (last ins (ci, i0)))) with
        | Some bo, Some bi => Some ((co, bo), (ci, bi))
        | _, _ => None
        end
  | _, _ => None
  end.
