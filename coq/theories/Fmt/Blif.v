(* EBLIF engine (property C18): documents, the pure flat-netlist value [bnv] and the primitive
   netlist edits the reader is built from.

   A document is what the harness hands to both sides: the list of lines of the file, every line
   the list of its whitespace-separated tokens, backslash continuations already joined
   (spydrnet/parsers/eblif/eblif_tokenizer.py: [generate_tokens] = str.split per line, [next]
   swallows a backslash token together with the token that follows it).

   [bnv] is id-free: models are addressed by name (EBLIFParser.BlackboxHolder.name_lookup),
   ports and cables by name inside a model, instances by their position in the children list
   (nothing is ever removed from it), pins by (port name, bit).  A wire is the list of pins
   connected to it; a cable the list of its wires.  [m_orphans] is the place for cables that were
   detached from the model while their wires still hold pins; since the repair of make_blackbox
   (it now disconnects every pin before remove_cables_from) the reader never puts anything there,
   which is what the self-containedness clause of WF says.
   No proofs in this file. *)
From Coq Require Import List Arith NArith Bool Lia.
From Coq Require String.
From SV Require Import Base.Base.
Import ListNotations.

Definition line := list str.
Definition doc := list line.

(* outcome of the reader: EOutside = the input leaves the line-oriented fragment that is
   modelled (the theorems and the correspondence exclude it); the others are the exception
   classes the Python reader raises *)
Inductive err := EOutside | EAssert | EValue | EKey | EIndex | EStop | EAttr.
Inductive result (A : Type) := Ok (a : A) | Error (e : err).
Arguments Ok {A} a.
Arguments Error {A} e.

Definition bind {A B} (r : result A) (f : A -> result B) : result B :=
  match r with Ok a => f a | Error e => Error e end.
Notation "'do' x <- r ; k" := (bind r (fun x => k)) (at level 200, x name, r at level 100, k at level 200).
Notation "'do' ' p <- r ; k" := (bind r (fun p => k)) (at level 200, p pattern, r at level 100, k at level 200).

(* ---------- strings ---------- *)
Local Open Scope N_scope.
Definition c_lb : N := 91.   (* [ *)
Definition c_rb : N := 93.   (* ] *)
Definition c_eq : N := 61.   (* = *)
Definition c_colon : N := 58.
Definition c_us : N := 95.   (* _ *)
Definition c_star : N := 42.
Definition c_qm : N := 63.
Definition c_0 : N := 48.
Definition c_1 : N := 49.
Definition c_dash : N := 45.
Local Close Scope N_scope.

Fixpoint dec_aux (fuel : nat) (n : N) (acc : str) : str :=
  match fuel with
  | O => acc
  | S f =>
    let acc' := (48 + N.modulo n 10)%N :: acc in
    if N.eqb (N.div n 10) 0 then acc' else dec_aux f (N.div n 10) acc'
  end.
(* decimal numeral of a natural number (Python str(int)) *)
Definition dec (n : nat) : str :=
  let m := N.of_nat n in dec_aux (S (N.to_nat (N.log2 m))) m [].

Fixpoint is_prefix (p s : str) : bool :=
  match p, s with
  | [], _ => true
  | x :: p', y :: s' => N.eqb x y && is_prefix p' s'
  | _, [] => false
  end.
(* Python [p in s] for strings *)
Fixpoint contains (p s : str) : bool :=
  is_prefix p s || match s with [] => false | _ :: s' => contains p s' end.

Fixpoint take_until (c : N) (s : str) : str :=
  match s with [] => [] | x :: s' => if N.eqb x c then [] else x :: take_until c s' end.
Fixpoint drop_until (c : N) (s : str) : option str :=   (* text after the first [c] *)
  match s with [] => None | x :: s' => if N.eqb x c then Some s' else drop_until c s' end.
Fixpoint rfind_aux (c : N) (s : str) (pos : nat) (best : option nat) : option nat :=
  match s with
  | [] => best
  | x :: s' => rfind_aux c s' (S pos) (if N.eqb x c then Some pos else best)
  end.
Definition rfind (c : N) (s : str) : option nat := rfind_aux c s 0 None.
Definition last_is (c : N) (s : str) : bool :=
  match rev s with x :: _ => N.eqb x c | [] => false end.

Definition digits_val (ds : str) : nat :=
  fold_left (fun a d => 10 * a + N.to_nat (d - 48)%N) ds 0.

Definition has_wild (s : str) : bool := existsb (fun c => N.eqb c c_star || N.eqb c c_qm) s.

(* a name the reader looks up with get_ports / get_cables: literal only without * and ?,
   and never empty *)
Definition name_ok (s : str) : bool := negb (has_wild s) && match s with [] => false | _ => true end.

(* EBLIFParser.get_port_name_and_index.  Indices must be 1-3 ASCII digits here; anything else
   that Python's int() may or may not accept is EOutside. *)
Definition pni (s : str) : result (str * nat) :=
  if last_is c_rb s then
    match rfind c_lb s with
    | None => if name_ok s then Ok (s, 0) else Error EOutside
    | Some o =>
      let name := firstn o s in
      let idx := take_until c_colon (take_until c_rb (skipn (S o) s)) in
      if negb (name_ok name) then Error EOutside
      else if forallb is_digit idx && Nat.ltb 0 (length idx) && Nat.ltb (length idx) 4
      then Ok (name, digits_val idx) else Error EOutside
    end
  else if name_ok s then Ok (s, 0) else Error EOutside.

(* token.find("=") : formal = token[:k], actual = token[k+1:]; with k = -1 the formal is the
   token without its last character and the actual the whole token *)
Definition split_eq (t : str) : str * str :=
  match drop_until c_eq t with
  | Some a => (take_until c_eq t, a)
  | None => (removelast t, t)
  end.

(* ---------- the netlist value ---------- *)
Inductive dir := DIn | DOut | DInout | DUndef.
Inductive pinref := PTop (p : str) (b : nat) | PInst (i : nat) (p : str) (b : nat).
Record port := mkPort { p_name : str; p_dir : dir; p_width : nat }.
Definition wire := list pinref.
Record cable := mkCable { c_name : str; c_wires : list wire }.
Inductive ikind := KSub | KGate | KNames | KLatch.
Record inst := mkInst {
  i_name : option str;
  i_ref : str;                       (* name of the model it instantiates *)
  i_kind : ikind;                    (* EBLIF.type *)
  i_pins : list (str * nat);         (* Instance._pins in creation order: (port, bit) *)
  i_cname : option str;              (* EBLIF.cname *)
  i_attr : list (str * str);         (* EBLIF.attr, insertion-ordered dict *)
  i_param : list (str * str);        (* EBLIF.param *)
  i_covers : list (str * option str);(* EBLIF.output_covers rows: first token, optional second *)
  i_unconn : list str }.             (* data key "unconn": "port[bit]" strings *)
Inductive lib := LNone | LWork | LPrim.
Record model := mkModel {
  m_name : str;
  m_ports : list port;
  m_cables : list cable;
  m_orphans : list cable;            (* detached cables whose wires keep pins: always [] (see above) *)
  m_insts : list inst;
  m_clock : option (list str);       (* EBLIF.clock *)
  m_lib : lib;
  m_defined : bool }.                (* a .model header was seen *)
Record bnv := mkBnv {
  b_models : list model;             (* creation order of the definitions *)
  b_top : option (str * str);        (* top instance: name, referenced model *)
  b_name : option str;
  b_comments : list (list str);      (* EBLIF.comment, each comment as its tokens *)
  b_work : list str;                 (* library "work": model names in insertion order *)
  b_prim : list str }.               (* library "hdi_primitives" *)

Definition dir_eqb (a b : dir) : bool :=
  match a, b with DIn, DIn | DOut, DOut | DInout, DInout | DUndef, DUndef => true | _, _ => false end.
Definition pinref_eqb (a b : pinref) : bool :=
  match a, b with
  | PTop p x, PTop q y => str_eqb p q && Nat.eqb x y
  | PInst i p x, PInst j q y => Nat.eqb i j && str_eqb p q && Nat.eqb x y
  | _, _ => false
  end.
Definition pb_eqb (a b : str * nat) : bool := str_eqb (fst a) (fst b) && Nat.eqb (snd a) (snd b).
Definition lib_eqb (a b : lib) : bool :=
  match a, b with LNone, LNone | LWork, LWork | LPrim, LPrim => true | _, _ => false end.

(* setters (explicit, so that extraction and proofs see plain constructors) *)
Definition set_pdir (q : port) d := mkPort (p_name q) d (p_width q).
Definition set_pwidth (q : port) w := mkPort (p_name q) (p_dir q) w.
Definition set_iname (i : inst) v := mkInst v (i_ref i) (i_kind i) (i_pins i) (i_cname i) (i_attr i) (i_param i) (i_covers i) (i_unconn i).
Definition set_ipins (i : inst) v := mkInst (i_name i) (i_ref i) (i_kind i) v (i_cname i) (i_attr i) (i_param i) (i_covers i) (i_unconn i).
Definition set_icname (i : inst) v := mkInst (i_name i) (i_ref i) (i_kind i) (i_pins i) v (i_attr i) (i_param i) (i_covers i) (i_unconn i).
Definition set_iattr (i : inst) v := mkInst (i_name i) (i_ref i) (i_kind i) (i_pins i) (i_cname i) v (i_param i) (i_covers i) (i_unconn i).
Definition set_iparam (i : inst) v := mkInst (i_name i) (i_ref i) (i_kind i) (i_pins i) (i_cname i) (i_attr i) v (i_covers i) (i_unconn i).
Definition set_icovers (i : inst) v := mkInst (i_name i) (i_ref i) (i_kind i) (i_pins i) (i_cname i) (i_attr i) (i_param i) v (i_unconn i).
Definition set_iunconn (i : inst) v := mkInst (i_name i) (i_ref i) (i_kind i) (i_pins i) (i_cname i) (i_attr i) (i_param i) (i_covers i) v.
Definition set_ports (m : model) v := mkModel (m_name m) v (m_cables m) (m_orphans m) (m_insts m) (m_clock m) (m_lib m) (m_defined m).
Definition set_cables (m : model) v := mkModel (m_name m) (m_ports m) v (m_orphans m) (m_insts m) (m_clock m) (m_lib m) (m_defined m).
Definition set_orphans (m : model) v := mkModel (m_name m) (m_ports m) (m_cables m) v (m_insts m) (m_clock m) (m_lib m) (m_defined m).
Definition set_insts (m : model) v := mkModel (m_name m) (m_ports m) (m_cables m) (m_orphans m) v (m_clock m) (m_lib m) (m_defined m).
Definition set_clock (m : model) v := mkModel (m_name m) (m_ports m) (m_cables m) (m_orphans m) (m_insts m) v (m_lib m) (m_defined m).
Definition set_lib (m : model) v := mkModel (m_name m) (m_ports m) (m_cables m) (m_orphans m) (m_insts m) (m_clock m) v (m_defined m).
Definition set_defined (m : model) v := mkModel (m_name m) (m_ports m) (m_cables m) (m_orphans m) (m_insts m) (m_clock m) (m_lib m) v.
Definition set_models (n : bnv) v := mkBnv v (b_top n) (b_name n) (b_comments n) (b_work n) (b_prim n).

Definition new_model (nm : str) : model := mkModel nm [] [] [] [] None LNone false.
Definition empty_bnv : bnv := mkBnv [] None None [] [] [].

(* ---------- lookups and pointwise updates ---------- *)
Definition find_model (nm : str) (ms : list model) : option model :=
  find (fun m => str_eqb (m_name m) nm) ms.
Definition upd_model (nm : str) (f : model -> model) (ms : list model) : list model :=
  map (fun m => if str_eqb (m_name m) nm then f m else m) ms.
(* BlackboxHolder.get_blackbox: create the definition on first mention *)
Definition ensure_model (nm : str) (ms : list model) : list model :=
  match find_model nm ms with Some _ => ms | None => ms ++ [new_model nm] end.

Definition find_port (p : str) (ps : list port) : option port :=
  find (fun q => str_eqb (p_name q) p) ps.
Definition upd_port (p : str) (f : port -> port) (ps : list port) : list port :=
  map (fun q => if str_eqb (p_name q) p then f q else q) ps.
Definition find_cable (c : str) (cs : list cable) : option cable :=
  find (fun x => str_eqb (c_name x) c) cs.
Definition upd_cable (c : str) (f : list wire -> list wire) (cs : list cable) : list cable :=
  map (fun x => if str_eqb (c_name x) c then mkCable (c_name x) (f (c_wires x)) else x) cs.

Fixpoint upd_nth {A} (k : nat) (f : A -> A) (l : list A) : list A :=
  match k, l with
  | _, [] => []
  | O, x :: l' => f x :: l'
  | S k', x :: l' => x :: upd_nth k' f l'
  end.
Definition port_width (p : str) (m : model) : nat :=
  match find_port p (m_ports m) with Some q => p_width q | None => 0 end.
Definition port_dir (p : str) (m : model) : dir :=
  match find_port p (m_ports m) with Some q => p_dir q | None => DUndef end.

(* all (port, bit) pairs of a model: ports in order, bits ascending *)
Definition bits_of (q : port) : list (str * nat) := map (pair (p_name q)) (seq 0 (p_width q)).
Definition all_pins (m : model) : list (str * nat) := flat_map bits_of (m_ports m).

(* Port.add_pin / Definition.add_port on an instanced definition: every reference gets the new
   outer pins appended to its _pins dictionary *)
Definition add_pins_refs (r : str) (new : list (str * nat)) (ms : list model) : list model :=
  map (fun m => set_insts m
    (map (fun i => if str_eqb (i_ref i) r then set_ipins i (i_pins i ++ new) else i) (m_insts m))) ms.

(* make port [p] of model [r] at least [w] bits wide (create_pin in a loop) *)
Definition grow_port (r p : str) (w : nat) (ms : list model) : list model :=
  match find_model r ms with
  | None => ms
  | Some m =>
    let old := port_width p m in
    if Nat.ltb old w then
      add_pins_refs r (map (pair p) (seq old (w - old)))
        (upd_model r (fun m => set_ports m (upd_port p (fun q => set_pwidth q w) (m_ports m))) ms)
    else ms
  end.

(* append a new port (with [w] pins) to model [r] *)
Definition add_port (r : str) (q : port) (ms : list model) : list model :=
  add_pins_refs r (bits_of q) (upd_model r (fun m => set_ports m (m_ports m ++ [q])) ms).

(* ---------- connectivity ---------- *)
Definition wire_has (pr : pinref) (w : wire) : bool := existsb (pinref_eqb pr) w.
Definition cables_have (pr : pinref) (cs : list cable) : bool :=
  existsb (fun c => existsb (wire_has pr) (c_wires c)) cs.
(* pin.wire is not None *)
Definition connected (m : model) (pr : pinref) : bool :=
  cables_have pr (m_cables m) || cables_have pr (m_orphans m).

(* wires[k].append(pr) after the cable was grown to k+1 wires *)
Fixpoint add_to_wire (k : nat) (pr : pinref) (ws : list wire) : list wire :=
  match k, ws with
  | O, [] => [[pr]]
  | O, w :: ws' => (w ++ [pr]) :: ws'
  | S k', [] => [] :: add_to_wire k' pr []
  | S k', w :: ws' => w :: add_to_wire k' pr ws'
  end.

(* ---------- .conn: wires merged into other wires ---------- *)
(* a wire of the model under construction, addressed by cable name and position (wires are never
   removed or reordered while a model is read) *)
Definition netbit := (str * nat)%type.
Definition nb_eqb (x y : netbit) : bool := str_eqb (fst x) (fst y) && Nat.eqb (snd x) (snd y).

(* EBLIFParser.merged_wires: (wire that was emptied, wire that took its pins), in insertion order *)
Definition mtable := list (netbit * netbit).

(* EBLIFParser.merged_into:  while wire in merged_wires: wire = merged_wires[wire].
   merge_wires enters (k, v) when wire k is emptied into wire v; both are, at that moment, wires that stand
   for themselves (no keys), and v differs from k.  So a key is entered once, and whatever entry continues a
   chain (an entry whose key is v) is entered later: the chain from any wire runs through the table in
   insertion order, and one pass from left to right follows it to its end *)
Fixpoint merged_into (al : mtable) (x : netbit) : netbit :=
  match al with
  | [] => x
  | (k, v) :: r => if nb_eqb k x then merged_into r v else merged_into r x
  end.

(* grow a cable to k+1 wires without connecting anything (get_connected_wires) *)
Fixpoint pad_wires (k : nat) (ws : list wire) : list wire :=
  match k, ws with
  | O, [] => [[]]
  | O, _ => ws
  | S k', [] => [] :: pad_wires k' []
  | S k', w :: ws' => w :: pad_wires k' ws'
  end.
Definition ensure_wire (c : str) (k : nat) (cs : list cable) : list cable :=
  match find_cable c cs with
  | Some _ => upd_cable c (pad_wires k) cs
  | None => cs ++ [mkCable c (pad_wires k [])]
  end.
Definition wire_at (c : str) (k : nat) (cs : list cable) : wire :=
  match find_cable c cs with Some x => nth k (c_wires x) [] | None => [] end.

Definition set_wire (c : str) (k : nat) (f : wire -> wire) (cs : list cable) : list cable :=
  upd_cable c (upd_nth k f) cs.

(* EBLIFParser.connect_pin_to_wire in model [m]: the cable is looked up (created, grown) under the
   name written in the file, the pin goes to the wire that stands for that one after the .conn
   statements read so far *)
Definition connect_to (al : mtable) (pr : pinref) (c : str) (k : nat) (m : model) : result model :=
  if connected m pr then Error EAssert
  else
    let cs := ensure_wire c k (m_cables m) in
    let t := merged_into al (c, k) in
    Ok (set_cables m (upd_cable (fst t) (add_to_wire (snd t) pr) cs)).

(* the wire a pin sits on: cable name, number of wires of that cable, position *)
Fixpoint find_wire_pos (pr : pinref) (ws : list wire) (pos : nat) : option nat :=
  match ws with
  | [] => None
  | w :: ws' => if wire_has pr w then Some pos else find_wire_pos pr ws' (S pos)
  end.
Fixpoint locate (pr : pinref) (cs : list cable) : option (str * nat * nat) :=
  match cs with
  | [] => None
  | c :: cs' =>
    match find_wire_pos pr (c_wires c) 0 with
    | Some k => Some (c_name c, length (c_wires c), k)
    | None => locate pr cs'
    end
  end.

(* ---------- constant strings ---------- *)
Module BlifK.
Import String.
Local Open Scope string_scope.
Definition k_model := s2l ".model".
Definition k_inputs := s2l ".inputs".
Definition k_outputs := s2l ".outputs".
Definition k_clock := s2l ".clock".
Definition k_subckt := s2l ".subckt".
Definition k_gate := s2l ".gate".
Definition k_names := s2l ".names".
Definition k_latch := s2l ".latch".
Definition k_cname := s2l ".cname".
Definition k_attr := s2l ".attr".
Definition k_param := s2l ".param".
Definition k_conn := s2l ".conn".
Definition k_blackbox := s2l ".blackbox".
Definition k_end := s2l ".end".
Definition k_hash := s2l "#".
Definition k_unconn := s2l "unconn".
Definition k_instance := s2l "_instance_".
Definition k_logic_gate := s2l "logic-gate_".
Definition k_logic := s2l "logic-gate".
Definition k_latch_def := s2l "generic-latch".
Definition k_in_ := s2l "in_".
Definition k_out := s2l "out".
Definition latch_order : list str :=
  [s2l "input"; s2l "output"; s2l "type"; s2l "control"; s2l "init-val"].
Definition k_output := s2l "output".
Definition s2l_gen1 := s2l "Generated".
Definition s2l_gen2 := s2l "by".
Definition s2l_gen3 := s2l "'BYU".
Definition s2l_gen4 := s2l "spydrnet".
Definition s2l_gen5 := s2l "tool'".
End BlifK.
Export BlifK.
