(* Engine `verilog`: specifications at document level (definitions only; proofs in Proofs/VElab*.v, property
   theorems in Props/C06.v).

   wf_nv : the netlist value is well-formed and self-contained - what C06 demands of every accepted source:
           every instance names a definition of the value, every endpoint of a net is an existing bit of a port of
           the module or of a port of the instantiated definition, every net bit lies inside its cable, no
           endpoint is on two nets (or twice on one), names are unique among siblings, nothing has width 0. *)
From Coq Require Import List ZArith Bool.
From SV Require Import Base.Base Fmt.VDoc.
Import ListNotations.
Open Scope Z_scope.

Definition label_in (lb : plabel) (bit : Z) (ports : list nv_port) : Prop :=
  exists p, In p ports /\ np_label p = lb /\ np_lower p <= bit < np_lower p + Z.of_nat (np_width p).

Definition endpoint_ok (n : nv) (d : nv_def) (e : endpoint) : Prop :=
  match e with
  | EPort lb bit => label_in lb bit (nd_ports d)
  | EInst i lb bit => exists ni d', In ni (nd_insts d) /\ ni_name ni = i /\ In d' (nv_defs n) /\ nd_name d' = ni_ref ni /\
                                    label_in lb bit (nd_ports d')
  end.

Definition bit_ok (d : nv_def) (r : bitref) : Prop :=
  exists c, In c (nd_cables d) /\ nc_name c = fst r /\ nc_lower c <= snd r < nc_lower c + Z.of_nat (nc_width c).

Definition obit_ok (d : nv_def) (o : option bitref) : Prop := match o with Some r => bit_ok d r | None => True end.

Record wf_def (n : nv) (d : nv_def) : Prop := {
  wd_refs : forall i, In i (nd_insts d) -> exists d', In d' (nv_defs n) /\ nd_name d' = ni_ref i;
  wd_bits : forall r eps, In (r, eps) (nd_nets d) -> bit_ok d r /\ eps <> [];
  wd_eps : forall r eps e, In (r, eps) (nd_nets d) -> In e eps -> endpoint_ok n d e;
  wd_once : NoDup (flat_map snd (nd_nets d));
  wd_keys : NoDup (map fst (nd_nets d));
  wd_port_labels : NoDup (map np_label (nd_ports d));
  wd_cable_names : NoDup (map nc_name (nd_cables d));
  wd_inst_names : NoDup (map ni_name (nd_insts d));
  wd_port_widths : forall p, In p (nd_ports d) -> (1 <= np_width p)%nat;
  wd_cable_widths : forall c, In c (nd_cables d) -> (1 <= nc_width c)%nat;
  wd_assigns : forall prs oi, In prs (nd_assigns d) -> In oi prs -> obit_ok d (fst oi) /\ obit_ok d (snd oi) }.

Definition wf_nv (n : nv) : Prop :=
  NoDup (map nd_name (nv_defs n)) /\
  (forall t, nv_top n = Some t -> exists d, In d (nv_defs n) /\ nd_name d = t) /\
  (forall d, In d (nv_defs n) -> wf_def n d).
