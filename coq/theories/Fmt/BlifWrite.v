(* Model of spydrnet/composers/eblif/eblif_composer.py (EBLIFComposer with write_blackbox=True,
   write_cname=True): [emit] gives the lines of the written file as token lists, continuation
   lines joined (the composer breaks .subckt lines with more than 5 pins after every pin).

   Order of the sections: comments, the top model, the other non-primitive models reached from
   it (the composer walks get_hinstances; here: first reach, depth first - the harness compares
   the sections after the first as a set), then the black boxes in library order.
   No proofs in this file. *)
From Coq Require Import List Arith NArith Bool Lia.
From SV Require Import Base.Base Fmt.Blif Fmt.BlifRead.
Import ListNotations.

Definition idx_tok (nm : str) (k : nat) : str := nm ++ [c_lb] ++ dec k ++ [c_rb].

(* find_connected_wire_info / the inline copies in compose_names, compose_latches *)
Definition wire_tok (m : model) (pr : pinref) : str :=
  match locate pr (m_cables m ++ m_orphans m) with
  | Some (c, n, k) => if Nat.ltb 1 n then idx_tok c k else c
  | None => k_unconn
  end.

Definition port_toks (q : port) : list str :=
  if Nat.ltb 1 (p_width q) then map (idx_tok (p_name q)) (seq 0 (p_width q)) else [p_name q].

Definition is_in (d : dir) : bool := match d with DIn | DInout => true | _ => false end.
Definition is_out (d : dir) : bool := match d with DOut | DInout => true | _ => false end.

Definition info_lines (i : inst) : list line :=
  [[k_cname; match i_name i with Some x => x | None => [] end]]
  ++ map (fun kv => [k_attr; fst kv; snd kv]) (i_attr i)
  ++ map (fun kv => [k_param; fst kv; snd kv]) (i_param i).

Definition sub_line (ms : list model) (m : model) (idx : nat) (i : inst) : line :=
  let r := get_model (i_ref i) ms in
  (if match i_kind i with KGate => true | _ => false end then k_gate else k_subckt) :: i_ref i ::
  flat_map (fun q =>
    map (fun pb =>
      (if Nat.ltb 1 (p_width q) then idx_tok (p_name q) (snd pb) else p_name q)
      ++ [c_eq] ++ wire_tok m (PInst idx (fst pb) (snd pb)))
    (filter (fun pb => str_eqb (fst pb) (p_name q)) (rev (i_pins i))))
  (m_ports r).

Definition names_line (ms : list model) (m : model) (idx : nat) (i : inst) : line :=
  let r := get_model (i_ref i) ms in
  k_names ::
  map (fun pb => wire_tok m (PInst idx (fst pb) (snd pb)))
    (filter (fun pb => dir_eqb (port_dir (fst pb) r) DIn) (i_pins i))
  ++ map (fun pb => wire_tok m (PInst idx (fst pb) (snd pb)))
    (filter (fun pb => dir_eqb (port_dir (fst pb) r) DOut) (rev (i_pins i))).

Definition cover_line (c : str * option str) : line :=
  match snd c with Some b => [fst c; b] | None => [fst c] end.

Definition latch_line (m : model) (idx : nat) (i : inst) : line :=
  k_latch ::
  flat_map (fun pt =>
    map (fun pb => wire_tok m (PInst idx (fst pb) (snd pb)))
      (filter (fun pb => str_eqb (fst pb) pt) (rev (i_pins i))))
  latch_order.

Definition indexed {A} (l : list A) : list (nat * A) := combine (seq 0 (length l)) l.

Definition kind_is (k : ikind) (i : inst) : bool :=
  match k, i_kind i with
  | KSub, KSub | KGate, KGate | KNames, KNames | KLatch, KLatch => true
  | _, _ => false
  end.

Definition inst_lines (ms : list model) (m : model) (ni : nat * inst) : list line :=
  let '(idx, i) := ni in
  match i_kind i with
  | KSub | KGate => [sub_line ms m idx i] ++ info_lines i
  | KNames => [names_line ms m idx i] ++ map cover_line (i_covers i) ++ info_lines i
  | KLatch => [latch_line m idx i] ++ info_lines i
  end.

Definition model_lines (ms : list model) (m : model) : list line :=
  match m_lib m with
  | LPrim => []
  | _ =>
    [[k_model; m_name m];
     k_inputs :: flat_map (fun q => if is_in (p_dir q) then port_toks q else []) (m_ports m);
     k_outputs :: flat_map (fun q => if is_out (p_dir q) then port_toks q else []) (m_ports m)]
    ++ match m_clock m with Some c => [k_clock :: c] | None => [] end
    ++ flat_map (fun k => flat_map (inst_lines ms m) (filter (fun ni => kind_is k (snd ni)) (indexed (m_insts m))))
         [KSub; KGate; KNames; KLatch]
    ++ [[k_end]; []]
  end.

(* non-primitive models reached from [todo], each once, in first-reach order *)
Fixpoint reach (fuel : nat) (ms : list model) (todo : list str) (seen : list str) : list str :=
  match fuel with
  | O => seen
  | S f =>
    match todo with
    | [] => seen
    | nm :: todo' =>
      if existsb (str_eqb nm) seen then reach f ms todo' seen
      else reach f ms (map i_ref (m_insts (get_model nm ms)) ++ todo') (seen ++ [nm])
    end
  end.

Definition total_insts (ms : list model) : nat :=
  fold_left (fun a m => a + length (m_insts m)) ms 0.

Definition is_leaf (ms : list model) (r : str) : bool :=
  let m := get_model r ms in
  match m_insts m, m_cables m with [], [] => true | _, _ => false end.

Definition blackbox_lines (m : model) : list line :=
  [[k_model; m_name m];
   k_inputs :: map p_name (filter (fun q => dir_eqb (p_dir q) DIn) (m_ports m));
   k_outputs :: map p_name (filter (fun q => dir_eqb (p_dir q) DOut) (m_ports m));
   [k_blackbox]; [k_end]; []].

Definition generated_by : line :=
  [k_hash; s2l_gen1; s2l_gen2; s2l_gen3; s2l_gen4; s2l_gen5].

Definition emit (n : bnv) : doc :=
  let ms := b_models n in
  map (fun c => k_hash :: c) (b_comments n) ++ [generated_by; []] ++
  match b_top n with
  | None => []              (* the composer raises AttributeError here *)
  | Some (_, tr) =>
    let order := reach (S (length ms + total_insts ms)) ms [tr] [] in
    let written := filter (fun nm => negb (lib_eqb (m_lib (get_model nm ms)) LPrim)) order in
    let leafs := flat_map (fun nm =>
                   map i_ref (filter (fun i => (kind_is KSub i || kind_is KGate i) && is_leaf ms (i_ref i))
                                     (m_insts (get_model nm ms)))) written in
    flat_map (fun nm => model_lines ms (get_model nm ms)) written
    ++ flat_map (fun nm =>
         if existsb (str_eqb nm) leafs && negb (contains k_logic nm)
         then blackbox_lines (get_model nm ms) else []) (b_prim n)
  end.
