(* One cable through the writer and back through the reader (composition of EdifName and
   EdifCable): the writer's nets of a cable (composer.py:418-452, _output_cable_ and
   _output_name_of_cable_wire_) and the reader's treatment of a run of nets that resolve to the
   same short name (parser.py:562-571 + multibit_add_cable).

   Writer:  a cable with exactly one wire that is not an array is ONE net under its own name;
            otherwise wire number k (0-based position in cable.wires) is the net
            (rename <ident>_<lower+k>_ "<name>[<lower+k>]").
   Reader:  per net: (index, n_short, e_short) := net_bit ident name; the first net of a short
            name creates the cable (mb_add None), later ones are merged (mb_add (Some c)).
            The cable keeps the short name / short identifier of its first net.
   A net is (identifier, name, pins). No proofs in this file. *)
From Coq Require Import List NArith Bool.
From SV Require Import Base.Base Fmt.EdifName Fmt.EdifCable.
Import ListNotations.

Section Bus.
Variable P : Type.

Definition net := (str * str * list P)%type.

Fixpoint emit_from (ident name : str) (idx : N) (ws : list (list P)) : list net :=
  match ws with
  | [] => []
  | w :: ws' => (bit_ident ident idx, bit_name name idx, w) :: emit_from ident name (N.succ idx) ws'
  end.

(* _output_cable_ for one cable *)
Definition emit_cable (ident name : str) (c : cab P) : list net :=
  match c_wires c with
  | [w] => if c_array c then emit_from ident name (c_lower c) [w] else [(ident, name, w)]
  | ws => emit_from ident name (c_lower c) ws
  end.

(* reader, for nets that all belong to one cable: returns (short name, short identifier, cable).
   None: a net raised IndexError, a later net was not a bit of an array cable (it would be added
   as a cable of its own), or the list is empty. *)
Fixpoint read_more (c : cab P) (nets : list net) : option (cab P) :=
  match nets with
  | [] => Some c
  | (ident, name, w) :: nets' =>
    match net_bit ident name with
    | Some (index, _, _) =>
      match mb_add (Some c) index w with
      | MbCable c' => read_more c' nets'
      | MbSeparate => None
      end
    | None => None
    end
  end.

Definition read_cable (nets : list net) : option (str * str * cab P) :=
  match nets with
  | [] => None
  | (ident, name, w) :: nets' =>
    match net_bit ident name with
    | Some (index, n_short, e_short) =>
      match mb_add None index w with
      | MbCable c0 =>
        match index with
        | None => match nets' with [] => Some (name, ident, c0) | _ => None end
        | Some _ => match read_more c0 nets' with
                    | Some c => Some (n_short, e_short, c)
                    | None => None
                    end
        end
      | MbSeparate => None
      end
    | None => None
    end
  end.
End Bus.

Arguments emit_from {P}. Arguments emit_cable {P}. Arguments read_more {P}. Arguments read_cable {P}.
