(* Model of ComposeEdif._topological_sort (spydrnet/composers/edif/composer.py:96-131).

     visited = set(); output_list = []
     def iterate(o):
         stack = [o]
         while len(stack) > 0:
             o = stack[-1]
             for child in get_dependents(o):
                 if child not in visited: stack.append(child)
             if stack[-1] == o:
                 stack.pop()
                 if o not in visited: visited.add(o); output_list.append(o)
     for o in list_of_objects:
         if o not in visited: iterate(o)
     return output_list

   Objects are [nat] handles. [deps o] is the dependency set of [o] in the order in which the
   Python set happens to be iterated (any list; the theorems quantify over all of them).
   [visited] and [output_list] always hold the same elements, so the model keeps one list [out].
   The Python stack is a list whose HEAD is stack[-1]. The [while] loop has no measure in the
   source (it spins for ever on a dependency cycle), so the model takes explicit fuel and returns
   [None] when it runs out; Proofs/EdifTopoProofs.v shows [topo_fuel] is enough on acyclic input.
   No proofs in this file. *)
From Coq Require Import List Arith Bool.
From SV Require Import Base.Base.
Import ListNotations.

Definition node := nat.

Fixpoint iterate (fuel : nat) (deps : node -> list node) (stack out : list node)
  : option (list node) :=
  match fuel with
  | O => None
  | S f =>
    match stack with
    | [] => Some out
    | o :: _ =>
      let new := filter (fun c => negb (memb c out)) (deps o) in
      match rev new ++ stack with
      | top :: rest' =>
        if Nat.eqb top o
        then iterate f deps rest' (if memb o out then out else out ++ [o])
        else iterate f deps (rev new ++ stack) out
      | [] => Some out
      end
    end
  end.

Fixpoint topo_outer (fuel : nat) (deps : node -> list node) (objs out : list node)
  : option (list node) :=
  match objs with
  | [] => Some out
  | o :: objs' =>
    if memb o out then topo_outer fuel deps objs' out
    else match iterate fuel deps [o] out with
         | None => None
         | Some out' => topo_outer fuel deps objs' out'
         end
  end.

(* every call of [iterate] gets this much fuel: one push step per object (adds at most
   [length (deps o)] stack entries) and one pop step per stack entry *)
Definition topo_fuel (deps : node -> list node) (objs : list node) : nat :=
  fold_right (fun o a => length (deps o) + 2 + a) 2 objs.

Definition topological_sort (deps : node -> list node) (objs : list node) : option (list node) :=
  topo_outer (topo_fuel deps objs) deps objs [].

(* adjacency given as an association list (used by the driver) *)
Definition deps_of (adj : list (node * list node)) (o : node) : list node :=
  match assoc o adj with Some l => l | None => [] end.
