(* Whole-file model of the EDIF reader (spydrnet/parsers/edif/parser.py, EdifParser) from an
   s-expression document to a pure netlist value [nvfile], construct by construct:

     parse_edif / parse_header / parse_body        -> [elab_file_ext]  ([body])
     parse_status / parse_written / ...            -> [chk_status]     (accept / reject only)
     parse_library_like_element / parse_technology -> [parse_library]
     parse_cell / parse_cellType / parse_view      -> [parse_cell], [parse_view]
     parse_interface / parse_port / parse_array    -> [interface_step], [parse_port]
     parse_contents / parse_instance / parse_viewRef / parse_cellRef / parse_libraryRef
                                                   -> [contents_step], [parse_instance], [parse_viewref]
     parse_net / parse_joined / parse_portRef / parse_instanceRef / parse_member
                                                   -> [parse_net], [joined_step], [parse_portref]
     multibit_add_cable + the ValueError handler   -> Fmt/EdifNets.read_net (reused)
     parse_property / parse_typedValue / ...       -> [parse_property], [parse_typed]
     parse_design                                  -> [parse_design]
     parse_nameDef / parse_rename / parse_nameRef  -> [parse_namedef], [parse_rename], [parse_nameref]
     tokenizer.is_valid_identifier / _stringToken / _integerToken + int()
                                                   -> [ident_tok_ok], [str_tok_ok], [int_tok]
     namespace manager (EDIF policy): legality of EDIF.identifier, sibling conflicts on add_*,
     with the name := identifier fallback of parse_contents / parse_library_like_element
                                                   -> [legal], [place], [place_strict]

   The Python reader is a recursive descent over TOKENS; every loop is
       while begin_construct(): if construct_is(K1) .. elif .. else expect(..); expect_end_construct()
   which on a parenthesised document is a fold over the children of a list ([loop]): a child that
   is not a list ends the loop and the caller's expect_end_construct raises; a list whose head is
   not one of the keywords (compared case-insensitively: tokenizer.equals) raises in the else
   branch. The two loops WITHOUT else branch (parse_portRef, parse_property_like_element) accept
   an empty list "()" ([loop] with allow_empty).

   Where the reader does NOT follow the parenthesis structure the model follows the code:
   - parse_keywordMap's comment loop needs "((comment ..))": [FeUnsupported].
   - parse_member with more than one index always raises.
   parse_design reads (design nameDef (cellRef x (libraryRef y)) ..) with both keywords and all
   four parentheses checked; whatever follows the cellRef inside the design construct (status,
   properties, comments, userData) is skipped up to the closing parenthesis of the design
   (skip_until_next_construct) and not kept. parse_body then goes on: libraries declared after the
   design are read, a second design is refused (check_for_multiples). The cell of the design is
   looked up among the libraries read BEFORE the design construct. EdifParser.parse refuses
   tokens after the closing parenthesis of (edif ..) ([elab_tokens]: exactly one balanced form).

   Outside the modelled subset ([FeUnsupported], counted by the harness, never compared):
   non-ASCII atoms, port / instance references containing * or ? (used as wildcard patterns by the
   get_* lookups; NET names are looked up exactly since the repair of K7), a second view in a cell, float numbers (number (e m x)), string property values
   whose escapes %n% name a character above 127, arrays / bus indices above [max_bits].

   Every sibling check is made where the code makes it (add_port / add_child / add_definition /
   add_library after the construct is complete). A pin joined twice raises in Wire.connect_pin.
   An (instance n) WITHOUT viewRef is refused (expect_begin_construct in parse_instance); an array
   port of size < 1 is refused (parse_array).
   Termination: every function is structurally recursive on the list of children (no fuel).
   No proofs in this file. *)
From Coq Require Import List NArith ZArith Bool Arith String.
From SV Require Import Base.Base Fmt.EdifLex Fmt.EdifName Fmt.EdifCable Fmt.EdifBus Fmt.EdifNets.
From SV Require IR.NS.
Import ListNotations.
Local Open Scope N_scope.

(* ---------------------------------------------------------------------------------------- *)
(* outcomes *)
Inductive ferr : Type :=
| FeLex            (* no "(" at the start / empty input *)
| FeEof            (* the token stream ends inside the document (StopIteration) *)
| FeShape          (* RuntimeError "Expecting ..": wrong / missing / unknown construct or token class *)
| FeMultiple       (* check_for_multiples *)
| FeNotImpl        (* NotImplementedError constructs *)
| FeIllegalId      (* ValueError: EDIF.identifier not legal under the EDIF naming policy *)
| FeDupSibling     (* ValueError: naming conflict among siblings *)
| FeUndeclared     (* undeclared library / cell / view / port / instance *)
| FeIndex          (* IndexError: member index out of range *)
| FeJoinedTwice    (* AssertionError: pin already connected *)
| FeNoRef          (* AttributeError: instanceRef names an instance without viewRef *)
| FeNetName        (* IndexError / StopIteration inside multibit_add_cable and its handler *)
| FeUnsupported.   (* outside the modelled subset *)

Inductive result (A : Type) : Type := Ok (a : A) | Err (e : ferr).
Arguments Ok {A} a.
Arguments Err {A} e.

Notation "'do' x <- m ; f" := (match m with Ok x => f | Err er_ => Err er_ end)
  (at level 200, x name, m at level 100, f at level 200).
Notation "'do' ' p <- m ; f" := (match m with Ok p => f | Err er_ => Err er_ end)
  (at level 200, p pattern, m at level 100, f at level 200).

(* ---------------------------------------------------------------------------------------- *)
(* the netlist value *)
Inductive pval := PVInt (z : Z) | PVStr (s : str) | PVBool (b : bool).
Record nvprop := mkprop { pr_ident : str; pr_orig : option str; pr_val : pval }.

(* direction: 0 undefined, 1 in, 2 out, 3 inout *)
Record nvport := mkport { po_name : str; po_ident : str; po_dir : N; po_width : N; po_array : bool }.

(* instance: referenced cell as (library identifier, cell identifier) *)
Record nvinst := mkinst { in_name : str; in_ident : str; in_ref : option (str * str); in_props : list nvprop }.

(* pin designator: bit k of port p of the cell itself / of instance i of the cell (identifiers) *)
Inductive pd := PTop (p : str) (k : N) | PInst (i p : str) (k : N).

Record nvcell := mkcell {
  ce_name : str; ce_ident : str; ce_view : option str;
  ce_ports : list nvport; ce_insts : list nvinst; ce_cabs : list (entry pd) }.
Record nvlib := mklib { li_name : str; li_ident : str; li_cells : list nvcell }.
Record nvtop := mktop { tp_name : str; tp_ident : str; tp_lib : str; tp_cell : str }.
Record nvfile := mkfile { nf_name : str; nf_ident : str; nf_libs : list nvlib; nf_top : option nvtop }.

Definition pd_eqb (a b : pd) : bool :=
  match a, b with
  | PTop p k, PTop p' k' => str_eqb p p' && N.eqb k k'
  | PInst i p k, PInst i' p' k' => str_eqb i i' && str_eqb p p' && N.eqb k k'
  | _, _ => false
  end.

(* ---------------------------------------------------------------------------------------- *)
(* tokens *)
Definition K (s : string) : str := s2l s.
Definition kweq (a : str) (k : string) : bool := str_eqb a (K k).            (* a already lower-cased *)
Definition is_kw (k : string) (x : sexp) : bool :=
  match x with Atom a => kweq (lower a) k | _ => false end.

(* tokenizer.is_valid_identifier: re.match("[a-zA-Z]|&\a*") and len <= 256 *)
Definition ident_tok_ok (a : str) : bool :=
  match a with
  | c :: _ => (is_alpha c || N.eqb c 38) && (List.length a <=? 256)%nat
  | [] => false
  end.

(* tokenizer.is_valid_stringToken: every character between the quotes is printable ASCII or a tab *)
Definition str_char_valid (c : N) : bool :=
  N.eqb c 9 || ((32 <=? c) && (c <=? 126) && negb (N.eqb c 34)).
Definition str_tok_ok (s : str) : bool := forallb str_char_valid s.

(* is_valid_integerToken ("[-+]?\d+" as a prefix) followed by int(token): digit groups separated by
   single underscores *)
Fixpoint digits_us (s : str) (acc : Z) (need_digit : bool) : option Z :=
  match s with
  | [] => if need_digit then None else Some acc
  | c :: s' =>
    if is_digit c then digits_us s' (10 * acc + Z.of_N (c - 48))%Z false
    else if N.eqb c 95 then (if need_digit then None else digits_us s' acc true)
    else None
  end.
Definition int_tok (a : str) : option Z :=
  match a with
  | c :: r => if N.eqb c 45 then option_map Z.opp (digits_us r 0%Z true)
              else if N.eqb c 43 then digits_us r 0%Z true
              else digits_us a 0%Z true
  | [] => None
  end.
Definition is_int_atom (x : sexp) : bool :=
  match x with Atom a => match int_tok a with Some _ => true | None => false end | _ => false end.

(* * and ? make the get_* lookups pattern searches *)
Definition has_wild (s : str) : bool := existsb (fun c => N.eqb c 42 || N.eqb c 63) s.

Fixpoint atoms_ascii (x : sexp) : bool :=
  match x with
  | Atom a => forallb (fun c => c <? 128) a
  | Str _ => true
  | SList l => forallb atoms_ascii l
  end.

Definition max_bits : Z := 65536.

(* ---------------------------------------------------------------------------------------- *)
(* the reader's loops *)
Section Loop.
Context {S : Type}.
Variable step : S -> str -> list sexp -> result S.
Variable allow_empty : bool.
Fixpoint loop (s : S) (l : list sexp) : result S :=
  match l with
  | [] => Ok s
  | SList (Atom a :: args) :: l' =>
    match step s (lower a) args with Ok s' => loop s' l' | Err e => Err e end
  | SList [] :: l' => if allow_empty then loop s l' else Err FeShape
  | _ :: _ => Err FeShape
  end.
End Loop.

(* ---------------------------------------------------------------------------------------- *)
(* EDIF strings *)
(* parse_string: the escapes of a string VALUE are decoded by
     re.sub(r"%[ \t]*((?:[-+]?\d+[ \t]+)*[-+]?\d+)[ \t]*%", <chr of every code>, token)
   Between two percent signs of a match there is no percent sign, so a match that starts at a percent
   sign ends at the NEXT one and exists iff the text in between is blank-separated integers (at least
   one); otherwise that percent sign is an ordinary character and the search goes on behind it.
   chr raises ValueError for a negative code (the leftmost failing group decides); a code above 127
   makes the value non-ASCII: outside the modelled subset. *)
Fixpoint digits_only (s : str) (acc : Z) (seen : bool) : option Z :=
  match s with
  | [] => if seen then Some acc else None
  | c :: s' => if is_digit c then digits_only s' (10 * acc + Z.of_N (c - 48))%Z true else None
  end.
Definition code_tok (a : str) : option Z :=
  match a with
  | c :: r => if N.eqb c 45 then option_map Z.opp (digits_only r 0%Z false)
              else if N.eqb c 43 then digits_only r 0%Z false
              else digits_only a 0%Z false
  | [] => None
  end.
Definition is_blank (c : N) : bool := N.eqb c 32 || N.eqb c 9.
Fixpoint blank_words (g : str) (cur : str) : list str :=              (* cur: the word being read, reversed *)
  match g with
  | [] => match cur with [] => [] | _ => [rev cur] end
  | c :: g' => if is_blank c then match cur with [] => blank_words g' [] | _ => rev cur :: blank_words g' [] end
               else blank_words g' (c :: cur)
  end.
Fixpoint all_codes (ws : list str) : option (list Z) :=
  match ws with
  | [] => Some []
  | w :: r => match code_tok w, all_codes r with Some z, Some l => Some (z :: l) | _, _ => None end
  end.
Definition group_codes (g : str) : option (list Z) :=
  match blank_words g [] with [] => None | ws => all_codes ws end.
Fixpoint codes_chars (zs : list Z) : result str :=
  match zs with
  | [] => Ok []
  | z :: r => if (z <? 0)%Z then Err FeShape else if (127 <? z)%Z then Err FeUnsupported
              else match codes_chars r with Ok l => Ok (Z.to_N z :: l) | Err e => Err e end
  end.
(* pend: the characters read since a percent sign that may open a group (reversed) *)
Fixpoint unesc (s : str) (pend : option str) : result str :=
  match s with
  | [] => Ok match pend with Some p => 37 :: rev p | None => [] end
  | c :: s' =>
    if N.eqb c 37 then
      match pend with
      | None => unesc s' (Some [])
      | Some p =>
        match group_codes (rev p) with
        | Some zs => match codes_chars zs with
                     | Ok a => match unesc s' None with Ok b => Ok (a ++ b) | Err e => Err e end
                     | Err e => Err e
                     end
        | None => match unesc s' (Some []) with Ok b => Ok (37 :: rev p ++ b) | Err e => Err e end
        end
      end
    else match pend with
         | None => match unesc s' None with Ok b => Ok (c :: b) | Err e => Err e end
         | Some p => unesc s' (Some (c :: p))
         end
  end.
Definition unescape_value (s : str) : result str := unesc s None.

(* ---------------------------------------------------------------------------------------- *)
(* names *)
Record nmd := mknmd { nm_ident : str; nm_orig : option str }.
Definition nm_name (n : nmd) : str := match nm_orig n with Some s => s | None => nm_ident n end.

(* parse_rename: the items of (rename identifier "original"); the original name is an EDIF string
   like a property value: parse_escaped_stringToken decodes its %n n ..% groups *)
Definition parse_rename (l : list sexp) : result nmd :=
  match l with
  | [k; Atom a; Str s] =>
    if is_kw "rename" k && ident_tok_ok a && str_tok_ok s
    then match unescape_value s with Ok v => Ok (mknmd a (Some v)) | Err e => Err e end
    else Err FeShape
  | _ => Err FeShape
  end.

Definition parse_namedef (x : sexp) : result nmd :=
  match x with
  | Atom a => if ident_tok_ok a then Ok (mknmd a None) else Err FeShape
  | Str _ => Err FeShape
  | SList l => parse_rename l
  end.

(* dictionary_set of EDIF.identifier on an element created under the EDIF policy *)
Definition legal (n : nmd) : result nmd :=
  if NS.check_edif_identifier (nm_ident n) then Ok n else Err FeIllegalId.
Definition parse_elemname (x : sexp) : result nmd := do n <- parse_namedef x; legal n.

Definition parse_nameref (x : sexp) : result str :=
  match x with
  | Atom a => if ident_tok_ok a then (if has_wild a then Err FeUnsupported else Ok a) else Err FeShape
  | _ => Err FeShape
  end.

(* NamespaceManager.add: EDIF.identifier (case-insensitive) first, then .NAME (exact) *)
Definition ident_taken (i : str) (idents : list str) : bool := existsb (ident_eqb i) idents.
Definition name_taken (n : str) (names : list str) : bool := existsb (str_eqb n) names.

Definition place_strict (names idents : list str) (n : nmd) : result unit :=
  if ident_taken (nm_ident n) idents then Err FeDupSibling
  else if name_taken (nm_name n) names then Err FeDupSibling
  else Ok tt.

(* add_child / add_definition with the fallback name := identifier; result = the final name *)
Definition place (names idents : list str) (n : nmd) : result str :=
  if ident_taken (nm_ident n) idents then Err FeDupSibling
  else if name_taken (nm_name n) names then
    if str_eqb (nm_name n) (nm_ident n) then Err FeDupSibling
    else if name_taken (nm_ident n) names then Err FeDupSibling
    else Ok (nm_ident n)
  else Ok (nm_name n).

(* ---------------------------------------------------------------------------------------- *)
(* comment, property, status *)
Definition is_str_ok (x : sexp) : bool := match x with Str s => str_tok_ok s | _ => false end.
Definition chk_comment (args : list sexp) : result unit :=
  if forallb is_str_ok args then Ok tt else Err FeShape.

Definition parse_typed (x : sexp) : result pval :=
  match x with
  | SList (Atom k :: l) =>
    let k := lower k in
    if kweq k "boolean" then
      match l with
      | [SList [Atom b]] =>
        if kweq (lower b) "true" then Ok (PVBool true)
        else if kweq (lower b) "false" then Ok (PVBool false) else Err FeShape
      | _ => Err FeShape
      end
    else if kweq k "integer" then
      match l with
      | [Atom a] => match int_tok a with Some z => Ok (PVInt z) | None => Err FeShape end
      | _ => Err FeShape
      end
    else if kweq k "minomax" then Err FeNotImpl
    else if kweq k "number" then
      match l with
      | [Atom a] => match int_tok a with Some z => Ok (PVInt z) | None => Err FeShape end
      | SList (Atom e :: _) :: _ =>                             (* (number (e m x)) : a float *)
        if kweq (lower e) "e" then Err FeUnsupported else Err FeShape
      | _ => Err FeShape
      end
    else if kweq k "point" then Err FeNotImpl
    else if kweq k "string" then
      match l with
      | [Str s] =>
        if str_tok_ok s then match unescape_value s with Ok v => Ok (PVStr v) | Err e => Err e end else Err FeShape
      | _ => Err FeShape
      end
    else Err FeShape
  | _ => Err FeShape
  end.

Definition prop_rest_step (has_owner : bool) (k : str) (args : list sexp) : result bool :=
  if kweq k "owner" then
    if has_owner then Err FeMultiple
    else match args with
         | [Str s] => if str_tok_ok s then Ok true else Err FeShape
         | _ => Err FeShape
         end
  else if kweq k "unit" || kweq k "property" || kweq k "comment" then Err FeNotImpl
  else Err FeShape.

Definition parse_property (args : list sexp) : result nvprop :=
  match args with
  | nd :: tv :: rest =>
    do n <- parse_namedef nd;
    do v <- parse_typed tv;
    do _ <- loop prop_rest_step true false rest;
    Ok (mkprop (nm_ident n) (nm_orig n) v)
  | _ => Err FeShape
  end.

(* (kw i1 .. in) *)
Definition chk_int_form (kw : string) (n : nat) (x : sexp) : result unit :=
  match x with
  | SList (k :: l) =>
    if is_kw kw k && Nat.eqb (List.length l) n && forallb is_int_atom l then Ok tt else Err FeShape
  | _ => Err FeShape
  end.

Definition written_step (f : bool * bool) (k : str) (args : list sexp) : result (bool * bool) :=
  if kweq k "author" then
    if fst f then Err FeMultiple
    else match args with
         | [Str s] => if str_tok_ok s then Ok (true, snd f) else Err FeShape
         | _ => Err FeShape
         end
  else if kweq k "program" then
    if snd f then Err FeMultiple
    else match args with
         | [Str s] => if str_tok_ok s then Ok (fst f, true) else Err FeShape
         | [Str s; SList [v; Str s2]] =>
           if str_tok_ok s && is_kw "version" v && str_tok_ok s2 then Ok (fst f, true) else Err FeShape
         | _ => Err FeShape
         end
  else if kweq k "dataorigin" then Err FeNotImpl
  else if kweq k "property" || kweq k "metax" then do _ <- parse_property args; Ok f
  else if kweq k "comment" then do _ <- chk_comment args; Ok f
  else if kweq k "userdata" then Err FeNotImpl
  else Err FeShape.

Definition chk_written (args : list sexp) : result unit :=
  match args with
  | ts :: rest =>
    do _ <- chk_int_form "timestamp" 6 ts;
    do _ <- loop written_step false (false, false) rest;
    Ok tt
  | [] => Err FeShape
  end.

Definition status_step (u : unit) (k : str) (args : list sexp) : result unit :=
  if kweq k "written" then chk_written args
  else if kweq k "comment" then chk_comment args
  else if kweq k "userdata" then Err FeNotImpl
  else Err FeShape.
Definition chk_status (args : list sexp) : result unit := loop status_step false tt args.

(* property / comment / userData / else of the loops that only validate *)
Definition annot_step (k : str) (args : list sexp) : result unit :=
  if kweq k "property" then do _ <- parse_property args; Ok tt
  else if kweq k "comment" then chk_comment args
  else if kweq k "userdata" then Err FeNotImpl
  else Err FeShape.

(* ---------------------------------------------------------------------------------------- *)
(* ports *)
Definition port_notimpl (k : str) : bool :=
  kweq k "unused" || kweq k "designator" || kweq k "dc_fanin_load" || kweq k "dc_fanout_load" ||
  kweq k "dc_max_fanout" || kweq k "dc_max_fanin" || kweq k "ac_load" || kweq k "port_delay".

Definition port_step (hd : bool * N) (k : str) (args : list sexp) : result (bool * N) :=
  if kweq k "direction" then
    if fst hd then Err FeMultiple
    else match args with
         | [Atom d] =>
           let d := lower d in
           if kweq d "inout" then Ok (true, 3) else if kweq d "input" then Ok (true, 1)
           else if kweq d "output" then Ok (true, 2) else Err FeShape
         | _ => Err FeShape
         end
  else if port_notimpl k then Err FeNotImpl
  else do _ <- annot_step k args; Ok hd.

Definition parse_port_head (nd : sexp) : result (nmd * N * bool) :=
  match nd with
  | SList (k :: l) =>
    if is_kw "rename" k then do n <- parse_rename (k :: l); do n <- legal n; Ok (n, 1, false)
    else if is_kw "array" k then
      match l with
      | [nd'; Atom a] =>
        do n <- parse_elemname nd';
        match int_tok a with
        | Some z => if (max_bits <? z)%Z then Err FeUnsupported
                    else if (z <? 1)%Z then Err FeShape                       (* "positive array size" *)
                    else Ok (n, Z.to_N z, true)
        | None => Err FeShape
        end
      | _ => Err FeShape
      end
    else Err FeShape
  | SList [] => Err FeShape
  | Str _ => Err FeShape
  | Atom _ => do n <- parse_elemname nd; Ok (n, 1, false)
  end.

Definition parse_port (ports : list nvport) (args : list sexp) : result nvport :=
  match args with
  | nd :: rest =>
    do h <- parse_port_head nd;
    do hd <- loop port_step false (false, 0) rest;
    do _ <- place_strict (map po_name ports) (map po_ident ports) (fst (fst h));
    Ok (mkport (nm_name (fst (fst h))) (nm_ident (fst (fst h))) (snd hd) (snd (fst h)) (snd h))
  | [] => Err FeShape
  end.

Definition interface_notimpl (k : str) : bool :=
  kweq k "portbundle" || kweq k "symbol" || kweq k "protectionframe" || kweq k "arrayrelatedinfo" ||
  kweq k "parameter" || kweq k "joined" || kweq k "mustjoin" || kweq k "weakjoined" ||
  kweq k "permutable" || kweq k "timing" || kweq k "simulate".

Definition interface_step (s : list nvport * bool) (k : str) (args : list sexp) : result (list nvport * bool) :=
  if kweq k "port" then do p <- parse_port (fst s) args; Ok (fst s ++ [p], snd s)
  else if interface_notimpl k then Err FeNotImpl
  else if kweq k "designator" then (if snd s then Err FeMultiple else Ok (fst s, true))
  else do _ <- annot_step k args; Ok s.

(* ---------------------------------------------------------------------------------------- *)
(* what a construct inside (contents ..) can see: the libraries already added to the netlist,
   the library being read (identifier, cells added so far), the cell being read (identifier,
   identifier of its view, ports) *)
Record ctx := mkctx {
  cx_libs : list nvlib; cx_lib : str; cx_cells : list nvcell;
  cx_cell : str; cx_view : str; cx_ports : list nvport }.

Definition find_lib (i : str) (libs : list nvlib) : option nvlib :=
  find (fun L => ident_eqb (li_ident L) i) libs.
Definition find_cell (i : str) (cells : list nvcell) : option nvcell :=
  find (fun C => ident_eqb (ce_ident C) i) cells.
Definition find_port (i : str) (ports : list nvport) : option nvport :=
  find (fun p => ident_eqb (po_ident p) i) ports.

(* parse_libraryRef: the library being read is tried first, by identifier *)
Definition resolve_lib (cx : ctx) (lr : option str) : result (str * list nvcell) :=
  match lr with
  | None => Ok (cx_lib cx, cx_cells cx)
  | Some r =>
    if ident_eqb (cx_lib cx) r then Ok (cx_lib cx, cx_cells cx)
    else match find_lib r (cx_libs cx) with
         | Some L => Ok (li_ident L, li_cells L)
         | None => Err FeUndeclared
         end
  end.

Definition view_ok (v : option str) (r : str) : bool :=
  match v with Some v => ident_eqb v r | None => false end.

(* (viewRef v [(cellRef c [(libraryRef l)])]) -> library identifier, cell identifier and the
   ports of the referenced cell; without cellRef the cell being read is referenced *)
Definition parse_viewref (cx : ctx) (args : list sexp) : result (str * str * list nvport) :=
  match args with
  | [vr] =>
    do v <- parse_nameref vr;
    if ident_eqb (cx_view cx) v then Ok (cx_lib cx, cx_cell cx, cx_ports cx) else Err FeUndeclared
  | [vr; SList (k :: cr :: lrs)] =>
    do v <- parse_nameref vr;
    if negb (is_kw "cellref" k) then Err FeShape else
    do c <- parse_nameref cr;
    do lr <- match lrs with
             | [] => Ok None
             | [SList [k2; l]] =>
               if is_kw "libraryref" k2 then do r <- parse_nameref l; Ok (Some r) else Err FeShape
             | _ => Err FeShape
             end;
    do lc <- resolve_lib cx lr;
    match find_cell c (snd lc) with
    | None => Err FeUndeclared
    | Some C => if view_ok (ce_view C) v then Ok (fst lc, ce_ident C, ce_ports C) else Err FeUndeclared
    end
  | _ => Err FeShape
  end.

Definition inst_step (ps : list nvprop) (k : str) (args : list sexp) : result (list nvprop) :=
  if kweq k "property" then do p <- parse_property args; Ok (ps ++ [p])
  else if kweq k "comment" then do _ <- chk_comment args; Ok ps
  else if kweq k "userdata" then Err FeNotImpl
  else Err FeShape.

(* an instance of the cell being read, with the ports of the cell it references *)
Definition einst := (nvinst * list nvport)%type.

Definition parse_instance (cx : ctx) (insts : list einst) (args : list sexp) : result einst :=
  match args with
  | nd :: rest =>
    do n <- parse_elemname nd;
    do r <- match rest with
            | SList (Atom k :: vargs) :: rest' =>
              if kweq (lower k) "viewref" then
                do v <- parse_viewref cx vargs; Ok (Some (fst v), snd v, rest')
              else if kweq (lower k) "viewlist" then Err FeNotImpl
              else Err FeShape
            | _ => Err FeShape                                (* the viewRef is not optional *)
            end;
    do props <- loop inst_step false [] (snd r);
    do name <- place (map (fun ip : einst => in_name (fst ip)) insts)
                     (map (fun ip : einst => in_ident (fst ip)) insts) n;
    Ok (mkinst name (nm_ident n) (fst (fst r)) props, snd (fst r))
  | [] => Err FeShape
  end.

(* ---------------------------------------------------------------------------------------- *)
(* nets *)
(* port.pins[index] with Python's negative indices *)
Definition py_index (z : Z) (w : N) : option N :=
  if (0 <=? z)%Z then (if (z <? Z.of_N w)%Z then Some (Z.to_N z) else None)
  else if (- Z.of_N w <=? z)%Z then Some (Z.to_N (Z.of_N w + z)) else None.

Definition resolve_port (ports : list nvport) (pid : str) (z : Z) : result (str * N) :=
  match find_port pid ports with
  | None => Err FeUndeclared
  | Some p => match py_index z (po_width p) with
              | Some k => Ok (po_ident p, k)
              | None => Err FeIndex
              end
  end.

Definition find_inst (i : str) (insts : list einst) : option einst :=
  find (fun ip : einst => ident_eqb (in_ident (fst ip)) i) insts.

Definition portref_step (insts : list einst) (cur : option einst) (k : str) (args : list sexp)
  : result (option einst) :=
  if kweq k "portref" then Err FeNotImpl
  else if kweq k "instanceref" then
    match args with
    | [SList _] => Err FeNotImpl
    | [x] => do a <- parse_nameref x;
             match find_inst a insts with Some ip => Ok (Some ip) | None => Err FeUndeclared end
    | _ => Err FeShape
    end
  else if kweq k "viewref" then Err FeNotImpl
  else Err FeShape.

Definition parse_portref_target (tgt : sexp) : result (str * Z) :=
  match tgt with
  | Atom _ => do a <- parse_nameref tgt; Ok (a, 0%Z)
  | SList (m :: margs) =>
    if is_kw "member" m then
      match margs with
      | [nd; Atom i] =>
        do n <- parse_namedef nd;
        match int_tok i with
        | Some z => if has_wild (nm_ident n) then Err FeUnsupported else Ok (nm_ident n, z)
        | None => Err FeShape
        end
      | _ => Err FeShape
      end
    else Err FeShape
  | _ => Err FeShape
  end.

Definition parse_portref (cx : ctx) (insts : list einst) (args : list sexp) : result pd :=
  match args with
  | tgt :: rest =>
    do t <- parse_portref_target tgt;
    do ti <- loop (portref_step insts) true None rest;
    match ti with
    | None => do r <- resolve_port (cx_ports cx) (fst t) (snd t); Ok (PTop (fst r) (snd r))
    | Some ip =>
      match in_ref (fst ip) with
      | None => Err FeNoRef
      | Some _ => do r <- resolve_port (snd ip) (fst t) (snd t); Ok (PInst (in_ident (fst ip)) (fst r) (snd r))
      end
    end
  | [] => Err FeShape
  end.

Definition wire_has (p : pd) (w : list pd) : bool := existsb (pd_eqb p) w.
Definition pin_used (p : pd) (cabs : list (entry pd)) : bool :=
  existsb (fun e : entry pd => existsb (wire_has p) (c_wires (e_cab e))) cabs.

Definition joined_step (cx : ctx) (insts : list einst) (cabs : list (entry pd)) (w : list pd)
  (k : str) (args : list sexp) : result (list pd) :=
  if kweq k "portref" then
    do p <- parse_portref cx insts args;
    if pin_used p cabs || wire_has p w then Err FeJoinedTwice else Ok (w ++ [p])
  else if kweq k "portlist" || kweq k "globalportref" then Err FeNotImpl
  else Err FeShape.

Definition net_step (u : unit) (k : str) (args : list sexp) : result unit := annot_step k args.

Definition big_index (ident name : str) : bool :=
  match net_bit ident name with
  | Some (Some i, _, _) => (Z.to_N max_bits <? i)
  | _ => false
  end.

Definition parse_net (cx : ctx) (insts : list einst) (cabs : list (entry pd)) (args : list sexp)
  : result (list (entry pd)) :=
  match args with
  | nd :: SList (j :: jargs) :: rest =>
    do n <- parse_elemname nd;
    if negb (is_kw "joined" j) then Err FeShape else
    do w <- loop (joined_step cx insts cabs) false [] jargs;
    do _ <- loop net_step false tt rest;
    if big_index (nm_ident n) (nm_name n) then Err FeUnsupported else
    match read_net cabs (nm_ident n, nm_name n, w) with
    | Some cabs' => Ok cabs'
    | None => Err FeNetName
    end
  | _ => Err FeShape
  end.

(* ---------------------------------------------------------------------------------------- *)
(* contents, view, cell, library *)
Record cst := mkcst { cs_insts : list einst; cs_cabs : list (entry pd) }.

Definition contents_notimpl (k : str) : bool :=
  kweq k "offpageconnector" || kweq k "figure" || kweq k "section" || kweq k "netbundle" ||
  kweq k "page" || kweq k "commentgraphics" || kweq k "portimplementation" || kweq k "timing" ||
  kweq k "simulate" || kweq k "when" || kweq k "follow" || kweq k "logicport" || kweq k "boundingbox".

Definition contents_step (cx : ctx) (s : cst) (k : str) (args : list sexp) : result cst :=
  if kweq k "instance" then
    do ip <- parse_instance cx (cs_insts s) args; Ok (mkcst (cs_insts s ++ [ip]) (cs_cabs s))
  else if kweq k "net" then
    do cabs <- parse_net cx (cs_insts s) (cs_cabs s) args; Ok (mkcst (cs_insts s) cabs)
  else if contents_notimpl k then Err FeNotImpl
  else if kweq k "comment" then do _ <- chk_comment args; Ok s
  else if kweq k "userdata" then Err FeNotImpl
  else Err FeShape.

Definition view_step (cx : ctx) (s : bool * option cst) (k : str) (args : list sexp)
  : result (bool * option cst) :=
  if kweq k "status" then
    if fst s then Err FeMultiple else do _ <- chk_status args; Ok (true, snd s)
  else if kweq k "contents" then
    match snd s with
    | Some _ => Err FeMultiple
    | None => do c <- loop (contents_step cx) false (mkcst [] []) args; Ok (fst s, Some c)
    end
  else do _ <- annot_step k args; Ok s.

Definition viewtype_ok (t : str) : bool :=
  kweq t "behavior" || kweq t "document" || kweq t "graphic" || kweq t "logicmodel" ||
  kweq t "masklayout" || kweq t "netlist" || kweq t "schematic" || kweq t "stranger" || kweq t "symbolic".

Definition chk_viewtype (x : sexp) : result unit :=
  match x with
  | SList [k; Atom t] => if is_kw "viewtype" k && viewtype_ok (lower t) then Ok tt else Err FeShape
  | _ => Err FeShape
  end.

Definition parse_interface (x : sexp) : result (list nvport) :=
  match x with
  | SList (k :: items) =>
    if is_kw "interface" k then do r <- loop interface_step false ([], false) items; Ok (fst r)
    else Err FeShape
  | _ => Err FeShape
  end.

(* (view n (viewType t) (interface ..) ..) -> view identifier, ports, contents *)
Definition parse_view (libs : list nvlib) (lib : str) (cells : list nvcell) (cell : str)
  (args : list sexp) : result (str * list nvport * cst) :=
  match args with
  | nd :: vt :: itf :: rest =>
    do n <- parse_namedef nd;
    do _ <- chk_viewtype vt;
    do ports <- parse_interface itf;
    do r <- loop (view_step (mkctx libs lib cells cell (nm_ident n) ports)) false (false, None) rest;
    Ok (nm_ident n, ports, match snd r with Some c => c | None => mkcst [] [] end)
  | _ => Err FeShape
  end.

Definition cell_step (libs : list nvlib) (lib : str) (cells : list nvcell) (cell : str)
  (s : bool * option (str * list nvport * cst)) (k : str) (args : list sexp)
  : result (bool * option (str * list nvport * cst)) :=
  if kweq k "status" then
    if fst s then Err FeMultiple else do _ <- chk_status args; Ok (true, snd s)
  else if kweq k "view" then
    match snd s with
    | Some _ => Err FeUnsupported                       (* a second view of the same cell *)
    | None => do v <- parse_view libs lib cells cell args; Ok (fst s, Some v)
    end
  else if kweq k "viewmap" then Err FeNotImpl
  else do _ <- annot_step k args; Ok s.

Definition chk_celltype (x : sexp) : result unit :=
  match x with
  | SList [k; Atom t] =>
    if is_kw "celltype" k && (kweq (lower t) "generic" || kweq (lower t) "tie" || kweq (lower t) "ripper")
    then Ok tt else Err FeShape
  | _ => Err FeShape
  end.

Definition parse_cell (libs : list nvlib) (lib : str) (cells : list nvcell) (args : list sexp)
  : result nvcell :=
  match args with
  | nd :: ct :: rest =>
    do n <- parse_elemname nd;
    do _ <- chk_celltype ct;
    do r <- loop (cell_step libs lib cells (nm_ident n)) false (false, None) rest;
    do name <- place (map ce_name cells) (map ce_ident cells) n;
    Ok (match snd r with
        | Some v => mkcell name (nm_ident n) (Some (fst (fst v))) (snd (fst v))
                           (map fst (cs_insts (snd v))) (cs_cabs (snd v))
        | None => mkcell name (nm_ident n) None [] [] []
        end)
  | _ => Err FeShape
  end.

Definition lib_step (libs : list nvlib) (lib : str) (s : bool * list nvcell) (k : str) (args : list sexp)
  : result (bool * list nvcell) :=
  if kweq k "status" then
    if fst s then Err FeMultiple else do _ <- chk_status args; Ok (true, snd s)
  else if kweq k "cell" then do C <- parse_cell libs lib (snd s) args; Ok (fst s, snd s ++ [C])
  else if kweq k "comment" then do _ <- chk_comment args; Ok s
  else if kweq k "userdata" then Err FeNotImpl
  else Err FeShape.

Definition chk_technology (x : sexp) : result unit :=
  match x with
  | SList [k; SList (k2 :: _)] =>
    if is_kw "technology" k && is_kw "numberdefinition" k2 then Ok tt else Err FeShape
  | _ => Err FeShape
  end.

Definition parse_library (libs : list nvlib) (args : list sexp) : result nvlib :=
  match args with
  | nd :: el :: tech :: rest =>
    do n <- parse_elemname nd;
    do _ <- chk_int_form "ediflevel" 1 el;
    do _ <- chk_technology tech;
    do r <- loop (lib_step libs (nm_ident n)) false (false, []) rest;
    do _ <- place_strict (map li_name libs) (map li_ident libs) n;
    Ok (mklib (nm_name n) (nm_ident n) (snd r))
  | _ => Err FeShape
  end.

(* ---------------------------------------------------------------------------------------- *)
(* design, body, file *)
(* (design nameDef (cellRef x (libraryRef y)) ..): the constructs after the cellRef are skipped *)
Definition parse_design (libs : list nvlib) (args : list sexp) : result nvtop :=
  match args with
  | nd :: SList [k1; cr; SList [k2; lr]] :: _ =>
    do n <- parse_elemname nd;
    if negb (is_kw "cellref" k1) then Err FeShape else
    do x <- parse_nameref cr;
    if negb (is_kw "libraryref" k2) then Err FeShape else
    do y <- parse_nameref lr;
    match find_lib y libs with
    | None => Err FeUndeclared
    | Some L =>
      match find_cell x (li_cells L) with
      | None => Err FeUndeclared
      | Some C => Ok (mktop (nm_name n) (nm_ident n) (li_ident L) (ce_ident C))
      end
    end
  | _ => Err FeShape
  end.

(* parse_body: the libraries added so far, has_status, the top instance set by a design construct *)
Record bst := mkbst { bs_libs : list nvlib; bs_status : bool; bs_top : option nvtop }.

Definition body_step (s : bst) (k : str) (args : list sexp) : result bst :=
  if kweq k "status" then
    if bs_status s then Err FeMultiple else do _ <- chk_status args; Ok (mkbst (bs_libs s) true (bs_top s))
  else if kweq k "library" || kweq k "external" then
    do L <- parse_library (bs_libs s) args; Ok (mkbst (bs_libs s ++ [L]) (bs_status s) (bs_top s))
  else if kweq k "design" then
    match bs_top s with
    | Some _ => Err FeMultiple
    | None => do t <- parse_design (bs_libs s) args; Ok (mkbst (bs_libs s) (bs_status s) (Some t))
    end
  else if kweq k "comment" then do _ <- chk_comment args; Ok s
  else if kweq k "userdata" then Err FeNotImpl
  else Err FeShape.

Definition body (l : list sexp) : result bst := loop body_step false (mkbst [] false None) l.

Definition chk_keywordmap (x : sexp) : result unit :=
  match x with
  | SList (k :: kl :: rest) =>
    if negb (is_kw "keywordmap" k) then Err FeShape else
    do _ <- chk_int_form "keywordlevel" 1 kl;
    match rest with
    | [] => Ok tt
    | SList (SList _ :: _) :: _ => Err FeUnsupported    (* ((comment ..)) *)
    | _ => Err FeShape
    end
  | _ => Err FeShape
  end.

Definition elab_file (d : sexp) : result nvfile :=
  if negb (atoms_ascii d) then Err FeUnsupported else
  match d with
  | SList (e :: nd :: ver :: lvl :: km :: items) =>
    if negb (is_kw "edif" e) then Err FeShape else
    do n <- parse_elemname nd;
    do _ <- chk_int_form "edifversion" 3 ver;
    do _ <- chk_int_form "ediflevel" 1 lvl;
    do _ <- chk_keywordmap km;
    do r <- body items;
    Ok (mkfile (nm_name n) (nm_ident n) (bs_libs r) (bs_top r))
  | _ => Err FeShape
  end.

(* ---------------------------------------------------------------------------------------- *)
(* from tokens: the first parenthesised form, the number of lists still open at the end of the
   input (closed by [close_all]) and the tokens that follow the form *)
Definition quoted (t : str) : bool :=
  match t with
  | c :: r => N.eqb c c_dq && match rev r with c' :: _ => N.eqb c' c_dq | [] => false end
  | [] => false
  end.
Definition mk_tok (t : str) : sexp := if quoted t then Str (unquote t) else Atom t.

Fixpoint close_all (top : list sexp) (stack : list (list sexp)) : sexp :=
  match stack with
  | [] => SList (rev top)
  | next :: stack' => close_all (SList (rev top) :: next) stack'
  end.

(* top = items of the innermost open list (reversed), stack = the enclosing open lists *)
Fixpoint read_open (toks : list str) (top : list sexp) (stack : list (list sexp)) : sexp * nat * list str :=
  match toks with
  | [] => (close_all top stack, S (List.length stack), [])
  | t :: toks' =>
    if str_eqb t t_lp then read_open toks' [] (top :: stack)
    else if str_eqb t t_rp then
      match stack with
      | [] => (SList (rev top), O, toks')
      | next :: stack' => read_open toks' (SList (rev top) :: next) stack'
      end
    else read_open toks' (mk_tok t :: top) stack
  end.

Definition read_first (toks : list str) : option (sexp * nat * list str) :=
  match toks with
  | t :: toks' => if str_eqb t t_lp then Some (read_open toks' [] []) else None
  | [] => None
  end.

(* EdifParser.parse: the (edif ..) construct, then expect_end_of_input. A file whose parentheses
   are not closed makes the reader run out of tokens (StopIteration) unless it raised before. *)
Definition elab_tokens (toks : list str) : result nvfile :=
  match read_first toks with
  | None => Err FeLex
  | Some (d, missing, rest) =>
    do n <- elab_file d;
    if negb (Nat.eqb missing 0) then Err FeEof
    else match rest with [] => Ok n | _ :: _ => Err FeShape end
  end.

Definition elab_text (s : str) : result nvfile := elab_tokens (tokenize s).
