(* All nets of one cell through the reader (the NET branch of EdifParser.parse_contents,
   parser.py:562-587, with multibit_add_cable 1003-1063) and all cables of one cell through the
   writer (composer.py:338-339: for cable in definition.cables: _output_cable_).

   Reader state = the cables of the definition so far, in order: (name, identifier, cable).
   Per net (identifier, name, pins):
     (index, n_short, e_short) := net_bit identifier name                  [IndexError -> None]
     existing := the cable NAMED n_short, else the cable whose IDENTIFIER is e_short
                 (names are compared exactly, identifiers case-insensitively: EdifNamespace)
     existing = None : index None -> new scalar cable (name, identifier, lower 0)
                       index i    -> new array cable (n_short, e_short, lower i)
     existing = c    : c is an array and index = i -> merge into c (mb_merge)
                       otherwise -> definition.add_cable(net) under its full name/identifier
     add_cable raises ValueError when the name or the (lower-cased) identifier is taken; the
     caller then looks for the cable whose identifier is the net's NAME, else the net's identifier
     [none: StopIteration -> None] and moves the pins of the net to wire 0 of that cable.
   All four lookups are exact (EdifParser.find_cable; repaired K7: get_cables used a net name
   containing * or ? as a wildcard pattern), so names with * or ? are ordinary names here.
   When the handler finds no cable the ValueError of add_cable is raised again (None).
   No proofs in this file. *)
From Coq Require Import List NArith Arith Bool.
From SV Require Import Base.Base Fmt.EdifName Fmt.EdifCable Fmt.EdifBus.
Import ListNotations.

Section Nets.
Variable P : Type.

Definition entry := (str * str * cab P)%type.       (* name, identifier, cable *)
Definition e_name (e : entry) : str := fst (fst e).
Definition e_ident (e : entry) : str := snd (fst e).
Definition e_cab (e : entry) : cab P := snd e.

Definition ident_eqb (a b : str) : bool := str_eqb (lower a) (lower b).

Fixpoint find_name (n : str) (s : list entry) : option entry :=
  match s with
  | [] => None
  | e :: s' => if str_eqb (e_name e) n then Some e else find_name n s'
  end.

Fixpoint find_ident (i : str) (s : list entry) : option entry :=
  match s with
  | [] => None
  | e :: s' => if ident_eqb (e_ident e) i then Some e else find_ident i s'
  end.

(* replace the entry named n (names are unique in a definition) *)
Fixpoint replace_name (n : str) (e' : entry) (s : list entry) : list entry :=
  match s with
  | [] => []
  | e :: s' => if str_eqb (e_name e) n then e' :: s' else e :: replace_name n e' s'
  end.

Definition taken (name ident : str) (s : list entry) : bool :=
  match find_name name s, find_ident ident s with
  | None, None => false
  | _, _ => true
  end.

(* connect_pin of every pin of the pending wire to wire 0 of the cable *)
Definition join_wire0 (c : cab P) (w : list P) : cab P :=
  match c_wires c with
  | [] => c
  | w0 :: ws => mkcab (c_lower c) (c_array c) ((w0 ++ w) :: ws)
  end.

(* definition.add_cable(net as its own cable) with the ValueError handler of parse_contents *)
Definition add_separate (name ident : str) (c : cab P) (w : list P) (s : list entry) : option (list entry) :=
  if taken name ident s then
    match (match find_ident name s with Some e => Some e | None => find_ident ident s end) with
    | Some e => Some (replace_name (e_name e) (e_name e, e_ident e, join_wire0 (e_cab e) w) s)
    | None => None                                   (* next(...) without default: StopIteration *)
    end
  else Some (s ++ [(name, ident, c)]).

Definition read_net (s : list entry) (nt : net P) : option (list entry) :=
  let '(ident, name, w) := nt in
  match net_bit ident name with
  | None => None                                     (* IndexError *)
  | Some (index, n_short, e_short) =>
    let existing := match find_name n_short s with Some e => Some e | None => find_ident e_short s end in
    match existing with
    | None =>
      match index with
      | None => add_separate name ident (mkcab 0%N false [w]) w s
      | Some i => add_separate n_short e_short (mkcab i true [w]) w s
      end
    | Some e =>
      match index with
      | Some i =>
        if cab_is_array (e_cab e)
        then Some (replace_name (e_name e) (e_name e, e_ident e, mb_merge (e_cab e) i w) s)
        else add_separate name ident (mkcab 0%N false [w]) w s
      | None => add_separate name ident (mkcab 0%N false [w]) w s
      end
    end
  end.

Fixpoint read_nets (s : list entry) (nets : list (net P)) : option (list entry) :=
  match nets with
  | [] => Some s
  | nt :: nets' => match read_net s nt with Some s' => read_nets s' nets' | None => None end
  end.

(* writer: all cables of a definition, in order *)
Definition emit_nets (cabs : list entry) : list (net P) :=
  flat_map (fun e => emit_cable (e_ident e) (e_name e) (e_cab e)) cabs.

(* what a cable looks like after the round trip: a bus keeps everything but gets the array flag *)
Definition is_busb (c : cab P) : bool := c_array c || (1 <? length (c_wires c))%nat.
Definition norm_entry (e : entry) : entry :=
  if is_busb (e_cab e) then (e_name e, e_ident e, mkcab (c_lower (e_cab e)) true (c_wires (e_cab e))) else e.
End Nets.

Arguments e_name {P}. Arguments e_ident {P}. Arguments e_cab {P}. Arguments find_name {P}.
Arguments find_ident {P}. Arguments replace_name {P}. Arguments taken {P}. Arguments join_wire0 {P}.
Arguments add_separate {P}. Arguments read_net {P}. Arguments read_nets {P}. Arguments emit_nets {P}.
Arguments is_busb {P}. Arguments norm_entry {P}.
