(* Character level of the Verilog reader: spydrnet/parsers/verilog/verilog_token_factory.py (TokenFactory)
   driven by tokenizer.py (VerilogTokenizer.generate_tokens / peek), constants of verilog_tokens.py.

   The real tokenizer feeds the input one character at a time to TokenFactory.add_character, which keeps
   a buffer, five mutually exclusive flags (single line comment, multi line comment, string, escaped
   identifier, processor directive) and the last character seen; at the end of input TokenFactory.flush
   yields what is left in the buffer.  [step] is add_character branch by branch (same order of the
   elif chain), [flush] is flush, [run] folds [step] over the remaining characters: structural recursion
   on the input, so the lexer model is total and terminates on EVERY text by construction (this is the
   character-level part of C15's "reader terminates": no fuel, no error value).
   [tokenize_raw] is generate_tokens (comments are tokens there); [tokenize] is the stream the parser
   sees through has_next/peek/next: peek drops every token that starts with two slashes or slash star.

   No proofs in this file (Proofs/VLexProofs.v). *)
From Coq Require Import List NArith Bool.
From SV Require Import Base.Base.
Import ListNotations.
Open Scope N_scope.

Definition tok := str.

Inductive lmode := MNone | MLine | MBlock | MStr | MEsc | MDir.

Definition lmode_eqb (a b : lmode) : bool :=
  match a, b with
  | MNone, MNone | MLine, MLine | MBlock, MBlock | MStr, MStr | MEsc, MEsc | MDir, MDir => true
  | _, _ => false
  end.

(* buffer, the flag that is set (at most one is ever set: set_flags only sets one when none is set),
   last_character (the empty string is None) *)
Record lst := mkL { l_buf : str; l_mode : lmode; l_last : option N }.

Definition l_init : lst := mkL [] MNone None.

(* vt.WHITESPACE = space, tab, new line, carriage return, form feed *)
Definition is_ws (c : N) : bool := (c =? 32) || (c =? 9) || (c =? 10) || (c =? 13) || (c =? 12).

(* vt.SINGLE_CHARACTER_TOKENS: parentheses, star, semicolon, dot, brackets, braces, colon, comma, octothorp,
   single quote, equal sign *)
Definition is_single_c (c : N) : bool :=
  (c =? 40) || (c =? 41) || (c =? 42) || (c =? 59) || (c =? 46) || (c =? 91) || (c =? 93) ||
  (c =? 123) || (c =? 125) || (c =? 58) || (c =? 44) || (c =? 35) || (c =? 39) || (c =? 61).

(* self.buffer in vt.SINGLE_CHARACTER_TOKENS: the buffer is a one-character string of that set *)
Definition in_single (b : str) : bool := match b with [c] => is_single_c c | _ => false end.

(* vt.BREAKER_TOKENS: white space, parentheses, comma, semicolon, brackets, colon, braces, star, octothorp,
   equal sign, backslash, double quote, backtick *)
Definition is_breaker (c : N) : bool :=
  is_ws c || (c =? 40) || (c =? 41) || (c =? 44) || (c =? 59) || (c =? 91) || (c =? 93) || (c =? 58) ||
  (c =? 123) || (c =? 125) || (c =? 42) || (c =? 35) || (c =? 61) || (c =? 92) || (c =? 34) || (c =? 96).

Definition is_dig (c : N) : bool := (48 <=? c) && (c <=? 57).

(* vt.is_numeric *)
Definition is_numeric (b : str) : bool := match b with [] => false | _ => forallb is_dig b end.

Definition is_nil (b : str) : bool := match b with [] => true | _ => false end.

Definition last_is (l : option N) (c : N) : bool := match l with Some x => x =? c | None => false end.

(* TokenFactory.set_flags when no flag is set: len(buffer) <= 2 and the buffer is one of: two slashes,
   slash star, a double quote, a backslash, a backtick *)
Definition set_mode (b : str) : lmode :=
  match b with
  | [a] => if a =? 34 then MStr else if a =? 92 then MEsc else if a =? 96 then MDir else MNone
  | [a; a'] => if (a =? 47) && (a' =? 47) then MLine else if (a =? 47) && (a' =? 42) then MBlock else MNone
  | _ => MNone
  end.

(* white space is appended to the buffer only under these flags *)
Definition keeps_ws (m : lmode) : bool :=
  match m with MLine | MBlock | MStr | MDir => true | _ => false end.

(* the elif chain of add_character: (token_out, buffer after clear, flag after, character (None = the empty string)) *)
Definition decide (st : lst) (c : N) : option tok * str * lmode * option N :=
  let b := l_buf st in let m := l_mode st in let l := l_last st in
  if in_single b then (Some b, [], m, Some c)
  else if lmode_eqb m MLine && (c =? 10) then (Some b, [], MNone, Some c)
  else if lmode_eqb m MBlock && last_is l 42 && (c =? 47) then (Some (b ++ [c]), [], MNone, None)
  else if lmode_eqb m MEsc && is_ws c then (Some (b ++ [32]), [], MNone, Some c)
  else if lmode_eqb m MStr && (c =? 34) then (Some (b ++ [c]), [], MNone, None)
  else if lmode_eqb m MDir && (c =? 10) then (Some b, [], MNone, Some c)
  else if (c =? 42) && last_is l 47 then (None, b, m, Some c)
  else if is_breaker c && lmode_eqb m MNone && negb (is_nil b) then (Some b, [], m, Some c)
  else if (c =? 46) && lmode_eqb m MNone && negb (is_nil b) && negb (is_numeric b) then (Some b, [], m, Some c)
  else (None, b, m, Some c).

(* the tail of add_character: append the character, last_character, set_flags *)
Definition settle (b1 : str) (m1 : lmode) (ch : option N) : lst :=
  let b2 := match ch with
            | None => b1
            | Some c => if negb (is_ws c) then b1 ++ [c] else if keeps_ws m1 then b1 ++ [c] else b1
            end in
  let m2 := if lmode_eqb m1 MNone then set_mode b2 else m1 in
  let l2 := if lmode_eqb m2 MBlock && negb (lmode_eqb m1 MBlock) then None else ch in
  mkL b2 m2 l2.

Definition step (st : lst) (c : N) : option tok * lst :=
  match decide st c with (out, b1, m1, ch) => (out, settle b1 m1 ch) end.

Definition flush (st : lst) : list tok := match l_buf st with [] => [] | b => [b] end.

(* generate_tokens from a given factory state *)
Fixpoint run (st : lst) (s : str) : list tok :=
  match s with
  | [] => flush st
  | c :: r => match step st c with
              | (Some t, st') => t :: run st' r
              | (None, st') => run st' r
              end
  end.

(* the same with an accumulator (a loop after extraction): run_acc st s acc = rev acc ++ run st s *)
Fixpoint run_acc (st : lst) (s : str) (acc : list tok) : list tok :=
  match s with
  | [] => rev_append acc (flush st)
  | c :: r => match step st c with
              | (Some t, st') => run_acc st' r (t :: acc)
              | (None, st') => run_acc st' r acc
              end
  end.

Definition tokenize_raw (s : str) : list tok := run l_init s.
Definition tokenize_raw_loop (s : str) : list tok := run_acc l_init s [].

(* peek: len(token) >= 2 and token[0:2] is the line comment or the block comment opener *)
Definition is_comment (t : tok) : bool :=
  match t with a :: a' :: _ => (a =? 47) && ((a' =? 47) || (a' =? 42)) | _ => false end.

Definition drop_comments (ts : list tok) : list tok := filter (fun t => negb (is_comment t)) ts.

Definition tokenize (s : str) : list tok := drop_comments (tokenize_raw s).
(* the same as a loop: drop_comments_acc ts acc = rev acc ++ drop_comments ts *)
Fixpoint drop_comments_acc (ts acc : list tok) : list tok :=
  match ts with
  | [] => rev_append acc []
  | t :: r => if is_comment t then drop_comments_acc r acc else drop_comments_acc r (t :: acc)
  end.
Definition tokenize_loop (s : str) : list tok := drop_comments_acc (tokenize_raw_loop s) [].

(* the factory state after a prefix, and the tokens already yielded *)
Fixpoint state_after (st : lst) (s : str) : lst :=
  match s with [] => st | c :: r => state_after (snd (step st c)) r end.

(* ---- printing ---- *)
Definition print_with (sep : N) (ts : list tok) : str := flat_map (fun t => t ++ [sep]) ts.
Definition print_tokens (ts : list tok) : str := print_with 32 ts.

(* ---- well-formed tokens (the classes for which tokenize (print_tokens ts) = ts is proved) ---- *)
(* a character of a word (keyword, identifier, sized number such as 4 quote h0): no breaker, no dot, no slash *)
Definition plain (c : N) : bool := negb (is_breaker c) && negb (c =? 46) && negb (c =? 47).

Definition word_ok (t : tok) : bool :=
  match t with [] => false | c :: r => plain c && negb (c =? 39) && forallb plain r end.

Definition punct_ok (t : tok) : bool := in_single t.

Fixpoint body_then (ok : N -> bool) (close : N) (r : str) : bool :=
  match r with
  | [] => false
  | [c] => c =? close
  | c :: r' => ok c && body_then ok close r'
  end.

(* backslash name space: no white space inside *)
Definition escaped_ok (t : tok) : bool :=
  match t with c :: r => (c =? 92) && body_then (fun x => negb (is_ws x)) 32 r | [] => false end.

(* quoted text: no double quote inside (the tokenizer knows no escape sequence) *)
Definition string_ok (t : tok) : bool :=
  match t with c :: r => (c =? 34) && body_then (fun x => negb (x =? 34)) 34 r | [] => false end.

Definition tok_ok (t : tok) : bool := word_ok t || punct_ok t || escaped_ok t || string_ok t.

(* block comment text: opener, body, closer, where the factory does not see the closer before the end *)
Fixpoint no_close (l : option N) (body : str) : bool :=
  match body with
  | [] => true
  | c :: r => negb (last_is l 42 && (c =? 47)) && no_close (Some c) r
  end.

Definition block_comment (body : str) : str := [47; 42] ++ body ++ [42; 47].
Definition line_comment (body : str) : str := [47; 47] ++ body.

(* strip white space *)
Definition strip_ws (s : str) : str := filter (fun c => negb (is_ws c)) s.
