(* Engine `verilog`: model of the reader's top election (parse_module / parse_instantiation of
   /repo/spydrnet/parsers/verilog/parser.py), at the level of the module list of a document.

   parse_module  : the first module parsed becomes top;
   parse_instantiation : when the module being instantiated is the CURRENT top, the top moves to the module
   being parsed - or, if that module already has references, to the parent of an arbitrary element of its
   reference set (list(...)[0] of a Python set; the loop stops after one level because a Definition has no
   attribute `parent`). The choice from the set is modelled as nondeterminism: [elect_parsing] returns every top
   the procedure can arrive at.
   elect_top (end of parse_verilog): when exactly one module is instantiated by no other module, that module is
   the top whatever was found while parsing. `celldefine modules are read by parse_primitive, which elects nothing and skips
   instances. Model only. *)
From Coq Require Import List Arith Bool PeanoNat.
Import ListNotations.

(* module name, inside `celldefine, names of the instantiated modules in textual order *)
Definition dmod := (nat * bool * list nat)%type.

Definition parents_of (ps : list (nat * nat)) (m : nat) : list nat :=
  map snd (filter (fun p => Nat.eqb (fst p) m) ps).

(* one instantiation of [ref] inside module [m]; ps = (instantiated module, instantiating module) so far *)
Definition step_inst (m : nat) (st : list nat * list (nat * nat)) (ref : nat) : list nat * list (nat * nat) :=
  let '(tops, ps) := st in
  let cands := match parents_of ps m with [] => [m] | l => l end in
  (flat_map (fun t => if Nat.eqb t ref then cands else [t]) tops, ps ++ [(ref, m)]).

Definition step_mod (st : option (list nat) * list (nat * nat)) (d : dmod) : option (list nat) * list (nat * nat) :=
  let '(name, cell, insts) := d in
  if cell then st
  else
    let tops := match fst st with None => [name] | Some l => l end in
    let r := fold_left (step_inst name) insts (tops, snd st) in
    (Some (fst r), snd r).

(* the candidates that parse_module / parse_instantiation arrive at while the modules are parsed *)
Definition elect_parsing (doc : list dmod) : list nat :=
  match fst (fold_left step_mod doc (None, [])) with Some l => l | None => [] end.

(* elect_top, at the end of the file: the modules (not cells) that no OTHER module instantiates; when there is
   exactly one it is the top, otherwise the candidate found while parsing is kept *)
Definition instantiatedb (doc : list dmod) (m : nat) : bool :=
  existsb (fun d : dmod => negb (Nat.eqb (fst (fst d)) m) && negb (snd (fst d)) && existsb (Nat.eqb m) (snd d)) doc.
Definition roots (doc : list dmod) : list nat :=
  nodup Nat.eq_dec (map (fun d : dmod => fst (fst d))
                        (filter (fun d : dmod => negb (snd (fst d)) && negb (instantiatedb doc (fst (fst d)))) doc)).

Definition elect (doc : list dmod) : list nat :=
  match roots doc with
  | [r] => [r]
  | _ => elect_parsing doc
  end.

(* the design's root: a module (not a cell) that no module instantiates, every other module being instantiated *)
Definition instantiated (doc : list dmod) (m : nat) : Prop :=
  exists d, In d doc /\ fst (fst d) <> m /\ snd (fst d) = false /\ In m (snd d).
Definition single_root (doc : list dmod) (r : nat) : Prop :=
  (exists insts, In (r, false, insts) doc) /\ ~ instantiated doc r /\
  (forall d, In d doc -> snd (fst d) = false -> fst (fst d) <> r -> instantiated doc (fst (fst d))).

(* the property's clause *)
Definition top_is_root : Prop := forall doc r, single_root doc r -> forall t, In t (elect doc) -> t = r.
