(* Declarative structural equivalence of two netlist values (property C20), written without any
   reference to the comparer's code: what "the two netlists are structurally equal" means.
   Definitions only.

   Siblings (libraries of a netlist, definitions of a library, ports / cables / instances of a
   definition) are matched as a SET: the second list is a rearrangement of a list that is
   related to the first one element by element.  Every element relation contains "same name",
   so on netlists whose sibling names are unique this is "matched by name".

   The relation is parametrised by
     PR : how the EDIF.properties of two matched instances are related
     WR : how the two pin lists of the wire at the same index of two matched cables are related
   and four instances are used:
     nv_equiv       = nv_rel props_eq  wire_perm  same properties (same number of entries, same
                                                  keys, ==-equal values), same pins on every wire
                                                  - what the comparer decides
     nv_equiv_ord   = nv_rel props_eq  eq         ... and the pins of every wire in the same order
     nv_covered_set = nv_rel props_sub wire_perm  like nv_equiv but the properties of the first
                                                  netlist only have to occur in the second
     nv_covered     = nv_rel props_sub eq         like nv_covered_set, pins in the same order *)
From Coq Require Import String List Arith NArith ZArith Bool Permutation.
From SV Require Import Base.Base Cmp.Comparer.
Import ListNotations.

(* ---------- siblings as a set ---------- *)
Definition sib_equiv {A} (R : A -> A -> Prop) (la lb : list A) : Prop :=
  exists lb', Permutation lb' lb /\ Forall2 R la lb'.

(* ---------- ports: name, original identifier, direction, array-ness, width ----------
   (the lower index is not part of the property text and is never read by the comparer:
   theorem C20_lower_index_not_compared) *)
Definition port_rel (p q : port) : Prop :=
  p_name p = p_name q /\ p_oid p = p_oid q /\ p_dir p = p_dir q /\
  p_array p = p_array q /\ p_width p = p_width q.

(* ---------- cables: name, original identifier, the wire at each index carries related pins *)
Definition wire_perm (w w' : wire) : Prop := Permutation w w'.

Definition cable_rel (WR : wire -> wire -> Prop) (c c' : cable) : Prop :=
  c_name c = c_name c' /\ c_oid c = c_oid c' /\ Forall2 WR (c_wires c) (c_wires c').

(* ---------- properties ----------
   a property = (index of the entry in the EDIF.properties list, key) -> value;
   values are compared like Python's == (True == 1) *)
Definition prop_at (ps : option (list pdict)) (x : nat) (k : str) : option pval :=
  match ps with
  | Some l => match nth_error l x with Some d => sassoc k d | None => None end
  | None => None
  end.

(* every property of the first is a property of the second with an equal value, and if the
   first carries EDIF.properties at all so does the second *)
Definition props_sub (pa pb : option (list pdict)) : Prop :=
  (pa <> None -> pb <> None) /\
  forall x k v, prop_at pa x k = Some v -> exists v', prop_at pb x k = Some v' /\ pval_eqb v v' = true.

(* the same properties: EDIF.properties absent on both sides, or two lists with the same number
   of entries, and every property (entry, key) of either is a property of the other with an
   equal value *)
Definition props_len (p : option (list pdict)) : option nat :=
  match p with Some l => Some (length l) | None => None end.

Definition props_eq (pa pb : option (list pdict)) : Prop :=
  props_len pa = props_len pb /\ props_sub pa pb /\ props_sub pb pa.

(* ---------- instances: name, original identifier, reference (definition, library), properties *)
Definition inst_rel (PR : option (list pdict) -> option (list pdict) -> Prop) (i j : inst) : Prop :=
  i_name i = i_name j /\ i_oid i = i_oid j /\ i_ref i = i_ref j /\ PR (i_props i) (i_props j).

Definition top_rel (PR : option (list pdict) -> option (list pdict) -> Prop) (t u : option inst) : Prop :=
  match t, u with
  | None, None => True
  | Some i, Some j => inst_rel PR i j
  | _, _ => False
  end.

(* ---------- definitions, libraries, netlists ---------- *)
Definition defn_rel PR WR (d e : defn) : Prop :=
  d_name d = d_name e /\ d_oid d = d_oid e /\
  sib_equiv port_rel (d_ports d) (d_ports e) /\
  sib_equiv (cable_rel WR) (d_cables d) (d_cables e) /\
  sib_equiv (inst_rel PR) (d_insts d) (d_insts e).

Definition lib_rel PR WR (l m : lib) : Prop :=
  l_name l = l_name m /\ l_oid l = l_oid m /\ sib_equiv (defn_rel PR WR) (l_defs l) (l_defs m).

Definition nv_rel PR WR (a b : nv) : Prop :=
  n_name a = n_name b /\ n_oid a = n_oid b /\ top_rel PR (n_top a) (n_top b) /\
  sib_equiv (lib_rel PR WR) (n_libs a) (n_libs b).

Definition nv_equiv : nv -> nv -> Prop := nv_rel props_eq wire_perm.
Definition nv_equiv_ord : nv -> nv -> Prop := nv_rel props_eq (@eq wire).
Definition nv_covered : nv -> nv -> Prop := nv_rel props_sub (@eq wire).
Definition nv_covered_set : nv -> nv -> Prop := nv_rel props_sub wire_perm.
