(* Single structural differences between a netlist value and its copy, one constructor family
   per mutation class of property C20.  Definitions only. *)
From Coq Require Import String List Arith NArith ZArith Bool.
From SV Require Import Base.Base Cmp.Comparer.
Import ListNotations.

(* exactly one element of the list is replaced by a related one *)
Inductive splice {A} (R : A -> A -> Prop) : list A -> list A -> Prop :=
| splice_at l1 x y l2 : R x y -> splice R (l1 ++ x :: l2) (l1 ++ y :: l2).

(* exactly one element is missing in the second list *)
Inductive dropped {A} : list A -> list A -> Prop :=
| dropped_at l1 (x : A) l2 : dropped (l1 ++ x :: l2) (l1 ++ l2).

Inductive mclass :=
| MPortDir | MPortWidth | MPortArray          (* a port's direction / width / array-ness *)
| MCableWidth                                 (* a cable's width *)
| MConnInst | MConnPort | MConnBit            (* a connection moved to another instance/port/bit *)
| MInstRef | MInstProp                        (* an instance's reference / a property value *)
| MPropAdded                                  (* a property only the copy has *)
| MLibAdd | MLibDrop | MDefAdd | MDefDrop | MPortAdd | MPortDrop
| MCableAdd | MCableDrop | MInstAdd | MInstDrop.

Inductive port_diff : mclass -> port -> port -> Prop :=
| pd_dir p d' : d' <> p_dir p ->
    port_diff MPortDir p (mkport (p_name p) (p_oid p) d' (p_array p) (p_width p) (p_lower p))
| pd_width p w' arr' : w' <> p_width p ->   (* array-ness follows the width (one pin <-> several) *)
    port_diff MPortWidth p (mkport (p_name p) (p_oid p) (p_dir p) arr' w' (p_lower p))
| pd_array p :
    port_diff MPortArray p (mkport (p_name p) (p_oid p) (p_dir p) (negb (p_array p)) (p_width p) (p_lower p)).

Inductive pin_diff : mclass -> pinref -> pinref -> Prop :=
| pin_inst i i' q q' b b' : i <> i' -> pin_diff MConnInst (POut (Some i) q b) (POut (Some i') q' b')
| pin_port_out i q q' b b' : q <> q' -> pin_diff MConnPort (POut i q b) (POut i q' b')
| pin_port_in q q' b b' : q <> q' -> pin_diff MConnPort (PIn q b) (PIn q' b')
| pin_bit_out i q b b' : b <> b' -> pin_diff MConnBit (POut i q b) (POut i q b')
| pin_bit_in q b b' : b <> b' -> pin_diff MConnBit (PIn q b) (PIn q b').

(* the pin that replaces the old one exists in the definition (insts = its children) *)
Definition pin_moved (insts : list inst) (m : mclass) (p p' : pinref) : Prop :=
  pin_diff m p p' /\ wf_pin insts p' = true.

Inductive cable_diff (insts : list inst) : mclass -> cable -> cable -> Prop :=
| cd_width c ws' : length ws' <> length (c_wires c) ->
    cable_diff insts MCableWidth c (mkcable (c_name c) (c_oid c) ws')
| cd_conn m c ws' : splice (splice (pin_moved insts m)) (c_wires c) ws' ->
    cable_diff insts m c (mkcable (c_name c) (c_oid c) ws').

(* the value stored under one key differs (Python ==) *)
Inductive dict_diff : pdict -> pdict -> Prop :=
| dict_at l1 k v v' l2 : pval_eqb v v' = false ->
    dict_diff (l1 ++ (k, v) :: l2) (l1 ++ (k, v') :: l2).

Inductive inst_diff : mclass -> inst -> inst -> Prop :=
| id_ref i r r' : i_ref i = Some r -> r' <> r ->
    inst_diff MInstRef i (mkinst (i_name i) (i_oid i) (Some r') (i_props i))
| id_prop i ps ps' : i_props i = Some ps -> splice dict_diff ps ps' ->
    inst_diff MInstProp i (mkinst (i_name i) (i_oid i) (i_ref i) (Some ps'))
| id_prop_new i ps' : i_props i = None ->
    inst_diff MPropAdded i (mkinst (i_name i) (i_oid i) (i_ref i) (Some ps'))
| id_prop_entry i ps d : i_props i = Some ps ->
    inst_diff MPropAdded i (mkinst (i_name i) (i_oid i) (i_ref i) (Some (ps ++ [d])))
| id_prop_key i ps l1 d kv l2 : i_props i = Some ps -> ps = l1 ++ d :: l2 ->
    has_key (fst kv) d = false ->             (* a key that the entry does not have yet *)
    inst_diff MPropAdded i (mkinst (i_name i) (i_oid i) (i_ref i) (Some (l1 ++ (d ++ [kv]) :: l2))).

Definition set_ports (d : defn) ps := mkdefn (d_name d) (d_oid d) ps (d_cables d) (d_insts d).
Definition set_cables (d : defn) cs := mkdefn (d_name d) (d_oid d) (d_ports d) cs (d_insts d).
Definition set_insts (d : defn) xs := mkdefn (d_name d) (d_oid d) (d_ports d) (d_cables d) xs.

(* every pin of the copy still resolves among the copy's children *)
Definition pins_ok (xs : list inst) (d : defn) : Prop := forallb (wf_cable xs) (d_cables d) = true.

Inductive def_diff : mclass -> defn -> defn -> Prop :=
| dd_port m d ps' : splice (port_diff m) (d_ports d) ps' -> def_diff m d (set_ports d ps')
| dd_port_drop d ps' : dropped (d_ports d) ps' -> def_diff MPortDrop d (set_ports d ps')
| dd_port_add d ps' : dropped ps' (d_ports d) -> def_diff MPortAdd d (set_ports d ps')
| dd_cable m d cs' : splice (cable_diff (d_insts d) m) (d_cables d) cs' -> def_diff m d (set_cables d cs')
| dd_cable_drop d cs' : dropped (d_cables d) cs' -> def_diff MCableDrop d (set_cables d cs')
| dd_cable_add d cs' : dropped cs' (d_cables d) -> def_diff MCableAdd d (set_cables d cs')
| dd_inst m d xs' : splice (inst_diff m) (d_insts d) xs' -> def_diff m d (set_insts d xs')
| dd_inst_drop d xs' : dropped (d_insts d) xs' -> pins_ok xs' d -> def_diff MInstDrop d (set_insts d xs')
| dd_inst_add d xs' : dropped xs' (d_insts d) -> pins_ok xs' d -> def_diff MInstAdd d (set_insts d xs').

Inductive lib_diff : mclass -> lib -> lib -> Prop :=
| ld_def m l ds' : splice (def_diff m) (l_defs l) ds' -> lib_diff m l (mklib (l_name l) (l_oid l) ds')
| ld_def_drop l ds' : dropped (l_defs l) ds' -> lib_diff MDefDrop l (mklib (l_name l) (l_oid l) ds')
| ld_def_add l ds' : dropped ds' (l_defs l) -> lib_diff MDefAdd l (mklib (l_name l) (l_oid l) ds').

Inductive nv_diff : mclass -> nv -> nv -> Prop :=
| nd_lib m a ls' : splice (lib_diff m) (n_libs a) ls' ->
    nv_diff m a (mknv (n_name a) (n_oid a) (n_top a) ls')
| nd_lib_drop a ls' : dropped (n_libs a) ls' -> nv_diff MLibDrop a (mknv (n_name a) (n_oid a) (n_top a) ls')
| nd_lib_add a ls' : dropped ls' (n_libs a) -> nv_diff MLibAdd a (mknv (n_name a) (n_oid a) (n_top a) ls')
| nd_top m a t t' : n_top a = Some t -> inst_diff m t t' ->
    nv_diff m a (mknv (n_name a) (n_oid a) (Some t') (n_libs a)).

(* b is a copy of a with one difference of any class *)
Definition single_diff (a b : nv) : Prop := exists m, nv_diff m a b.
