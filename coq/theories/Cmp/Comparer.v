(* Model of spydrnet/compare/compare_netlists.py (class Comparer) on a pure named netlist value.
   The model follows the Python statement by statement: what is read, in which order, what is
   skipped, and which exception each failing step raises.  No proofs in this file.

   What a netlist is, for the comparer (everything it can read):
     netlist  : name, EDIF.original_identifier, top instance, libraries (ordered)
                (children are found by their exact name in a table name -> first child built by
                the comparer itself: no query, no pattern, no namespace manager involved)
     library  : name, original identifier, definitions (ordered)
     definition: name, original identifier, ports, cables, children (ordered)
     port     : name, original identifier, direction, is_array, number of pins (lower index kept,
                never read by the comparer)
     cable    : name, original identifier, wires (ordered), each wire = list of pins in the order
                in which Wire.pins lists them (the comparer matches the pins of two wires by key,
                so this order does not influence what it accepts)
     pin      : inner pin = (name of its port, index in that port);
                outer pin = (name of its instance, name of the port of the inner pin, index);
                the instance of an outer pin is the child of the enclosing definition with that
                name (names of siblings are unique: the namespace manager refuses duplicates;
                a child without a name is not found that way: PAnon carries its reference), its reference gives
                the definition/library names of the inner pin's port (Instance._pins mirrors the
                reference: property C02);
                dangling outer pin = pin of an instance that was removed from its definition
                (Definition.remove_child leaves the pins on the wires; parent is None)
     instance : name, original identifier, reference = (definition name, library name) or None,
                "EDIF.properties" = list of dictionaries or absent *)
From Coq Require Import String List Arith NArith ZArith Bool.
From SV Require Import Base.Base.
Import ListNotations.
Open Scope bool_scope.

(* ---------- values ---------- *)
Inductive dir := DUndef | DInout | DIn | DOut.

Definition dir_eqb (a b : dir) : bool :=
  match a, b with
  | DUndef, DUndef | DInout, DInout | DIn, DIn | DOut, DOut => true
  | _, _ => false
  end.

(* property values; Python's == identifies True with 1 and False with 0 *)
Inductive pval := PStr (s : str) | PInt (z : Z) | PBool (b : bool) | PNone.

Definition pval_eqb (a b : pval) : bool :=
  match a, b with
  | PStr x, PStr y => str_eqb x y
  | PInt x, PInt y => Z.eqb x y
  | PBool x, PBool y => Bool.eqb x y
  | PBool x, PInt y => Z.eqb y (if x then 1 else 0)%Z
  | PInt y, PBool x => Z.eqb y (if x then 1 else 0)%Z
  | PNone, PNone => true
  | _, _ => false
  end.

Definition oname := option str.

Definition oname_eqb (a b : oname) : bool :=
  match a, b with
  | None, None => true
  | Some x, Some y => str_eqb x y
  | _, _ => false
  end.

Record port := mkport {
  p_name : oname; p_oid : oname; p_dir : dir; p_array : bool; p_width : nat; p_lower : Z }.

Inductive pinref :=
| PIn (port : oname) (bit : nat)
| POut (inst : oname) (port : oname) (bit : nat)
| PDang (inst : oname) (rdef rlib : oname) (port : oname) (bit : nat)
| PAnon (rdef rlib : oname) (port : oname) (bit : nat)
    (* outer pin of a child without a name: the child is not identified by a name, so the
       (definition, library) names of its reference are part of the pin *)
| PForeign   (* a pin the comparer cannot follow (no instance, foreign port): outside the model *)
| PLoose.    (* an inner pin that belongs to no port any more (Port.remove_pin leaves it on its wire) *)

Definition wire := list pinref.

Record cable := mkcable { c_name : oname; c_oid : oname; c_wires : list wire }.

Definition pdict := list (str * pval).

Record inst := mkinst {
  i_name : oname; i_oid : oname; i_ref : option (oname * oname); i_props : option (list pdict) }.

Record defn := mkdefn {
  d_name : oname; d_oid : oname; d_ports : list port; d_cables : list cable; d_insts : list inst }.

Record lib := mklib { l_name : oname; l_oid : oname; l_defs : list defn }.

Record nv := mknv {
  n_name : oname; n_oid : oname; n_top : option inst; n_libs : list lib }.

(* ---------- outcomes ---------- *)
Inductive outcome :=
| Accept      (* compare() returns *)
| Reject      (* AssertionError *)
| StopIter    (* next() on an empty query result: no longer raised (table.get + assert) *)
| IndexErr    (* properties_composer[x]: unreachable after the assert on the lengths
                 (name.split("_")[3] is guarded by get_assignment_width since the repair) *)
| KeyErr      (* properties_composer[x][key]: unreachable after the assert on the key sets *)
| AttrErr     (* attribute of None: no longer raised (None-safe getters) *)
| TypeErr     (* "..." + None while building a message: no longer raised (str()) *)
| Ill.        (* the value is not the abstraction of a netlist the model covers *)

Definition outcome_eqb (a b : outcome) : bool :=
  match a, b with
  | Accept, Accept | Reject, Reject | StopIter, StopIter | IndexErr, IndexErr
  | KeyErr, KeyErr | AttrErr, AttrErr | TypeErr, TypeErr | Ill, Ill => true
  | _, _ => false
  end.

(* statement sequencing: the second statement runs only if the first did not raise *)
Definition seq (a b : outcome) : outcome := match a with Accept => b | x => x end.
Definition check (b : bool) : outcome := if b then Accept else Reject.

(* ---------- lookups: Comparer.index_by_name(children).get(name) ---------- *)
Definition has_name {A} (name : A -> oname) (n : str) (x : A) : bool :=
  match name x with Some m => str_eqb m n | None => false end.

(* table = index_by_name(children): name -> the first child with that name; table.get(n).
   The name is looked up literally (it was a glob pattern for sdn.get_xxx before the repair:
   finding C20-wildcard-names-self-reject). *)
Definition lookup {A} (name : A -> oname) (n : str) (l : list A) : option A :=
  find (has_name name n) l.

(* for orig in origs: if orig.name is None: continue; [if skip: continue];
   c = composer_table.get(orig.name); assert c is not None; compare(orig, c) *)
Fixpoint cmp_each {A} (name : A -> oname) (skip : A -> bool) (look : str -> option A)
         (f : A -> A -> outcome) (origs : list A) : outcome :=
  match origs with
  | [] => Accept
  | o :: rest =>
    match name o with
    | None => cmp_each name skip look f rest
    | Some n =>
      if skip o then cmp_each name skip look f rest
      else match look n with
           | None => Reject                       (* assert c is not None, "Composer is missing ..." *)
           | Some c => seq (f o c) (cmp_each name skip look f rest)
           end
    end
  end.

(* ---------- assignment instances ---------- *)
Definition asg_prefix : str := s2l "SDN_Assignment_".
Definition asg_pattern : str := s2l "SDN_Assignment_*".

(* fnmatchcase with only * and ? special (patterns.py escapes '['): used only for the pattern
   "SDN_Assignment_*" of the assignment count *)
Fixpoint glob (p : str) : str -> bool :=
  match p with
  | [] => fun v => match v with [] => true | _ => false end
  | c :: p' =>
    if N.eqb c 42 then
      (fix st (v : str) : bool :=
         glob p' v || match v with [] => false | _ :: v' => st v' end)
    else
      fun v => match v with
               | [] => false
               | x :: v' => (N.eqb c 63 || N.eqb c x) && glob p' v'
               end
  end.

(* sdn.get_instances(definition, pattern) with a wildcard pattern scans the children; instances
   without a name are skipped *)
Definition scan_match {A} (name : A -> oname) (skip_unnamed : bool) (pat : str) (x : A) : bool :=
  match name x with
  | Some m => glob pat m
  | None => if skip_unnamed then false else glob pat []
  end.

Fixpoint starts_with (pre s : str) : bool :=
  match pre, s with
  | [], _ => true
  | c :: pre', x :: s' => N.eqb c x && starts_with pre' s'
  | _ :: _, [] => false
  end.

(* str.split("_") *)
Fixpoint split_us (s cur : str) : list str :=
  match s with
  | [] => [rev cur]
  | c :: s' => if N.eqb c 95 then rev cur :: split_us s' [] else split_us s' (c :: cur)
  end.

Definition asg_width (n : str) : option str := nth_error (split_us n []) 3.

(* Comparer.get_assignment_width(name): the 4th "_" field of a name SDN_Assignment_<n>_<width>,
   None for any other name (no name, another prefix, fewer than four fields: such a name is an
   ordinary name since the repair; finding C20-assignment-name-indexerror) *)
Definition asg_class (n : oname) : option str :=
  match n with
  | Some s => if starts_with asg_prefix s then asg_width s else None
  | None => None
  end.

Definition is_asg_inst (i : inst) : bool :=
  match asg_class (i_name i) with Some _ => true | None => false end.

(* dictionary width -> count, in insertion order *)
Fixpoint incr (k : str) (d : list (str * nat)) : list (str * nat) :=
  match d with
  | [] => [(k, 1)]
  | (k', n) :: d' => if str_eqb k k' then (k', S n) :: d' else (k', n) :: incr k d'
  end.

(* the while loop over sdn.get_instances(definition, "SDN_Assignment_*"):
   num = get_assignment_width(name); if num is None: pass; else count *)
Fixpoint count_widths (l : list inst) (d : list (str * nat)) : list (str * nat) :=
  match l with
  | [] => d
  | i :: l' =>
    if scan_match i_name true asg_pattern i then
      match asg_class (i_name i) with
      | Some w => count_widths l' (incr w d)
      | None => count_widths l' d
      end
    else count_widths l' d
  end.

Definition cmp_assign (o c : defn) : outcome :=
  let cd := count_widths (d_insts c) [] in
  let od := count_widths (d_insts o) [] in
  check (forallb (fun kn => match sassoc (fst kn) od with
                            | Some m => Nat.eqb m (snd kn)
                            | None => false
                            end) cd).

(* ---------- compare_ports ---------- *)
(* ctx = (name of the enclosing definition, name of its library) *)
Definition ctx := (oname * oname)%type.
Definition ctx_eqb (a b : ctx) : bool := oname_eqb (fst a) (fst b) && oname_eqb (snd a) (snd b).

Definition cmp_port (xo xc : ctx) (o c : port) : outcome :=
  seq (check (oname_eqb (p_name o) (p_name c)))
 (seq (check (oname_eqb (p_oid o) (p_oid c)))
 (seq (check (dir_eqb (p_dir o) (p_dir c)))
 (seq (check (Bool.eqb (p_array o) (p_array c)))
 (seq (check (Nat.eqb (p_width o) (p_width c)))
      (check (ctx_eqb xo xc)))))).

(* ---------- pins ---------- *)
(* what the comparer reads through an outer pin *)
Record opin := mkopin {
  op_inst : oname; op_ref : ctx; op_parent : option ctx; op_port : oname; op_bit : nat }.

Inductive rpin := RIn (port : oname) (bit : nat) | ROut (p : opin) | RBad | RLoose.

Definition resolve (x : ctx) (insts : list inst) (p : pinref) : rpin :=
  match p with
  | PIn q b => RIn q b
  | POut (Some n) q b =>
    match find (has_name i_name n) insts with
    | Some i => match i_ref i with
                | Some r => ROut (mkopin (Some n) r (Some x) q b)
                | None => RBad
                end
    | None => RBad
    end
  | POut None q b => RBad    (* a child without a name is not found by name: PAnon *)
  | PAnon rd rl q b => ROut (mkopin None (rd, rl) (Some x) q b)
  | PDang n rd rl q b => ROut (mkopin n (rd, rl) None q b)
  | PForeign => RBad
  | PLoose => RLoose
  end.

(* are_instances_equivalent: two assignment names by their width fields, any other two names
   (None included) by ==; then one assert on the identifiers of reference, library of the
   reference, parent, library of the parent (None for what does not exist) *)
Definition pctx (p : option ctx) : ctx := match p with Some x => x | None => (None, None) end.

Definition inst_equiv (o c : opin) : outcome :=
  seq
    (match asg_class (op_inst o), asg_class (op_inst c) with
     | Some x, Some y => check (str_eqb x y)
     | _, _ => check (oname_eqb (op_inst o) (op_inst c))
     end)
    (check (oname_eqb (fst (op_ref o)) (fst (op_ref c)) && oname_eqb (snd (op_ref o)) (snd (op_ref c))
            && oname_eqb (fst (pctx (op_parent o))) (fst (pctx (op_parent c)))
            && oname_eqb (snd (pctx (op_parent o))) (snd (pctx (op_parent c))))).

(* are_inner_pins_equivalent; (definition, library) of the port given by dx *)
Definition inner_equiv (bo : nat) (qo : oname) (dxo : ctx) (bc : nat) (qc : oname) (dxc : ctx)
  : outcome :=
  seq (check (Nat.eqb bo bc))
      (check (oname_eqb qo qc && ctx_eqb dxo dxc)).

Definition cmp_pin (xo xc : ctx) (io ic : list inst) (po pc : pinref) : outcome :=
  match resolve xo io po, resolve xc ic pc with
  | RBad, _ | _, RBad => Ill
  | RLoose, RLoose => Accept                      (* index None, port None, definition None *)
  | RLoose, RIn _ _ | RIn _ _, RLoose => Reject   (* Pin indices do not match *)
  | RIn qo bo, RIn qc bc => inner_equiv bo qo xo bc qc xc
  | ROut o, ROut c =>
    seq (inst_equiv o c) (inner_equiv (op_bit o) (op_port o) (op_ref o) (op_bit c) (op_port c) (op_ref c))
  | _, _ => Reject                                (* an outer pin against an inner pin *)
  end.

(* ---------- the pins of a wire are compared as a set ---------- *)
(* get_pin_key: (is an outer pin, name of the instance - an assignment-style name is reduced to
   "SDN_Assignment_" + its width field -, name of the port, index in the port) *)
Definition pkey := (bool * oname * oname * option nat)%type.

Definition onat_eqb (a b : option nat) : bool :=
  match a, b with
  | Some x, Some y => Nat.eqb x y
  | None, None => true
  | _, _ => false
  end.

Definition pkey_eqb (a b : pkey) : bool :=
  match a, b with
  | (ka, ia, qa, ba), (kb, ib, qb, bb) =>
    Bool.eqb ka kb && oname_eqb ia ib && oname_eqb qa qb && onat_eqb ba bb
  end.

(* instance_name = get_identifier(pin.instance); width = get_assignment_width(instance_name);
   if width is not None: "SDN_Assignment_" + width *)
Definition inst_key (n : oname) : oname :=
  match asg_class n with
  | Some w => Some (asg_prefix ++ w)
  | None => n
  end.

(* get_pin_index: None for a pin that belongs to no port *)
Definition pin_key (x : ctx) (insts : list inst) (p : pinref) : outcome + pkey :=
  match resolve x insts p with
  | RIn q b => inr (false, None, q, Some b)
  | ROut o => inr (true, inst_key (op_inst o), op_port o, Some (op_bit o))
  | RLoose => inr (false, None, None, None)
  | RBad => inl Ill
  end.

(* composer_pins: key -> pins of the composer's wire with that key, in wire order; kept as the
   list of (key, pin) in wire order: the first entry with a key is the head of that key's list *)
Definition ptable := list (pkey * pinref).

Fixpoint pin_table (x : ctx) (insts : list inst) (w : wire) : outcome + ptable :=
  match w with
  | [] => inr []
  | p :: w' =>
    match pin_key x insts p with
    | inl e => inl e
    | inr k => match pin_table x insts w' with
               | inl e => inl e
               | inr t => inr ((k, p) :: t)
               end
    end
  end.

(* candidates = composer_pins.get(key); assert candidates; candidates.pop(0) *)
Fixpoint take_key (k : pkey) (t : ptable) : option (pinref * ptable) :=
  match t with
  | [] => None
  | (k', p) :: t' =>
    if pkey_eqb k k' then Some (p, t')
    else match take_key k t' with
         | Some (q, r) => Some (q, (k', p) :: r)
         | None => None
         end
  end.

Fixpoint cmp_pins (xo xc : ctx) (io ic : list inst) (po : list pinref) (t : ptable) : outcome :=
  match po with
  | [] => Accept
  | o :: po' =>
    match pin_key xo io o with
    | inl e => e
    | inr k =>
      match take_key k t with
      | None => Reject                            (* Net does not connect the same pins *)
      | Some (c, t') => seq (cmp_pin xo xc io ic o c) (cmp_pins xo xc io ic po' t')
      end
    end
  end.

Definition cmp_wire (xo xc : ctx) (io ic : list inst) (wo wc : wire) : outcome :=
  seq (check (Nat.eqb (length wo) (length wc)))
      (match pin_table xc ic wc with
       | inl e => e
       | inr t => cmp_pins xo xc io ic wo t
       end).

Fixpoint cmp_wires (xo xc : ctx) (io ic : list inst) (wo wc : list wire) : outcome :=
  match wo, wc with
  | o :: wo', c :: wc' => seq (cmp_wire xo xc io ic o c) (cmp_wires xo xc io ic wo' wc')
  | _, _ => Accept
  end.

Definition cmp_cable (xo xc : ctx) (io ic : list inst) (o c : cable) : outcome :=
  seq (check (oname_eqb (c_name o) (c_name c)))
 (seq (check (oname_eqb (c_oid o) (c_oid c)))
 (seq (check (Nat.eqb (length (c_wires o)) (length (c_wires c))))
      (cmp_wires xo xc io ic (c_wires o) (c_wires c)))).

(* the keys of all pins on the wires of a netlist, as Comparer.get_pin_key computes them
   (libraries / definitions / cables / wires / pins in order): compared with the real method on
   every run *)
Definition def_keys (ln : oname) (d : defn) : list (list (list (outcome + pkey))) :=
  map (fun c => map (fun w => map (pin_key (d_name d, ln) (d_insts d)) w) (c_wires c)) (d_cables d).

Definition nv_keys (a : nv) : list (list (list (list (list (outcome + pkey))))) :=
  map (fun l => map (def_keys (l_name l)) (l_defs l)) (n_libs a).

(* ---------- compare_instances ---------- *)
Definition has_key (k : str) (d : pdict) : bool :=
  match sassoc k d with Some _ => true | None => false end.

(* properties_orig[x].keys() == properties_composer[x].keys(): the same set of keys *)
Definition keys_eqb (o c : pdict) : bool :=
  forallb (fun kv => has_key (fst kv) c) o && forallb (fun kv => has_key (fst kv) o) c.

(* for key, value in properties_orig[x].items():
     assert properties_orig[x][key] == properties_composer[x][key] *)
Fixpoint cmp_items (items : pdict) (dc : pdict) : outcome :=
  match items with
  | [] => Accept
  | (k, v) :: rest =>
    match sassoc k dc with
    | None => KeyErr                              (* properties_composer[x][key]; never after keys_eqb *)
    | Some v' => seq (check (pval_eqb v v')) (cmp_items rest dc)
    end
  end.

(* for x in range(len(properties_orig)): assert same keys; the items loop
   (the two lists have the same length here) *)
Fixpoint cmp_props (po pc : list pdict) : outcome :=
  match po, pc with
  | o :: po', c :: pc' =>
    seq (check (keys_eqb o c)) (seq (cmp_items o c) (cmp_props po' pc'))
  | [], _ => Accept
  | _ :: _, [] => IndexErr                        (* properties_composer[x]; never after the length assert *)
  end.

Definition cmp_ref (ro rc : option (oname * oname)) : outcome :=
  match ro, rc with
  | None, None => Accept
  | None, Some _ | Some _, None => Reject
  | Some (d1, l1), Some (d2, l2) => check (oname_eqb d1 d2 && oname_eqb l1 l2)
  end.

Definition oi_name (i : option inst) : oname := match i with Some x => i_name x | None => None end.
Definition oi_oid (i : option inst) : oname := match i with Some x => i_oid x | None => None end.

Definition cmp_inst (o c : option inst) : outcome :=
  match o, c with
  | None, None => Accept
  | None, Some _ | Some _, None => Reject         (* One of the instances does not exist *)
  | Some io, Some ic =>
  seq (check (oname_eqb (i_name io) (i_name ic)))
 (seq (check (oname_eqb (i_oid io) (i_oid ic)))
        (seq (cmp_ref (i_ref io) (i_ref ic))
             (match i_props io with
              | None => match i_props ic with
                        | None => Accept
                        | Some _ => Reject       (* Original is missing properties *)
                        end
              | Some po => match i_props ic with
                           | None => Reject      (* Composer is missing properties *)
                           | Some pc =>
                             seq (check (Nat.eqb (length po) (length pc))) (cmp_props po pc)
                           end
              end)))
  end.

(* ---------- compare_definition / compare_libraries / compare ---------- *)
Definition no_skip {A} (_ : A) : bool := false.

Definition cmp_def (lo lc : oname) (o c : defn) : outcome :=
  let xo := (d_name o, lo) in
  let xc := (d_name c, lc) in
  seq (check (oname_eqb (d_name o) (d_name c)))
 (seq (check (oname_eqb (d_oid o) (d_oid c)))
 (seq (check (Nat.eqb (length (d_ports o)) (length (d_ports c))))
 (seq (cmp_each p_name no_skip (fun n => lookup p_name n (d_ports c))
                (cmp_port xo xc) (d_ports o))
 (seq (check (Nat.eqb (length (d_cables o)) (length (d_cables c))))
 (seq (cmp_each c_name no_skip (fun n => lookup c_name n (d_cables c))
                (cmp_cable xo xc (d_insts o) (d_insts c)) (d_cables o))
 (seq (check (Nat.eqb (length (d_insts o)) (length (d_insts c))))
 (seq (cmp_each i_name is_asg_inst (fun n => lookup i_name n (d_insts c))
                (fun a b => cmp_inst (Some a) (Some b)) (d_insts o))
      (cmp_assign o c)))))))).

Definition cmp_lib (o c : lib) : outcome :=
  seq (check (oname_eqb (l_name o) (l_name c)))
 (seq (check (oname_eqb (l_oid o) (l_oid c)))
 (seq (check (Nat.eqb (length (l_defs o)) (length (l_defs c))))
      (cmp_each d_name no_skip (fun n => lookup d_name n (l_defs c))
                (cmp_def (l_name o) (l_name c)) (l_defs o)))).

Definition cmp_run (a b : nv) : outcome :=
  seq (check (oname_eqb (n_name a) (n_name b)))
 (seq (check (oname_eqb (n_oid a) (n_oid b)))
 (seq (match n_top a, n_top b with
       | None, None => Accept
       | ta, tb => cmp_inst ta tb
       end)
 (seq (check (Nat.eqb (length (n_libs a)) (length (n_libs b))))
      (cmp_each l_name no_skip (fun n => lookup l_name n (n_libs b))
                cmp_lib (n_libs a))))).

(* Comparer(a, b).compare() returns normally *)
Definition compare (a b : nv) : bool := outcome_eqb (cmp_run a b) Accept.

(* ---------- the domain of the property: named netlists ---------- *)
Fixpoint str_in (s : str) (l : list str) : bool :=
  match l with [] => false | x :: l' => str_eqb s x || str_in s l' end.

Fixpoint nodup_str (l : list str) : bool :=
  match l with [] => true | x :: l' => negb (str_in x l') && nodup_str l' end.

(* all siblings named, names pairwise different *)
Fixpoint names_of {A} (name : A -> oname) (l : list A) : option (list str) :=
  match l with
  | [] => Some []
  | x :: l' => match name x, names_of name l' with
               | Some n, Some r => Some (n :: r)
               | _, _ => None
               end
  end.

Definition named_ok {A} (name : A -> oname) (l : list A) : bool :=
  match names_of name l with
  | Some ns => nodup_str ns
  | None => false
  end.

Fixpoint keys_nodup (d : pdict) : bool :=
  match d with [] => true | (k, _) :: d' => negb (existsb (fun kv => str_eqb k (fst kv)) d') && keys_nodup d' end.

Definition wf_inst (i : inst) : bool :=
  match i_props i with None => true | Some ps => forallb keys_nodup ps end
  && match i_name i with Some _ => true | None => false end.

Definition wf_pin (insts : list inst) (p : pinref) : bool :=
  match p with
  | PIn _ _ => true
  | POut (Some n) _ _ =>
    match find (has_name i_name n) insts with
    | Some i => match i_ref i with Some _ => true | None => false end
    | None => false
    end
  | _ => false
  end.

Definition wf_cable (insts : list inst) (c : cable) : bool :=
  forallb (forallb (wf_pin insts)) (c_wires c).

Definition wf_def (d : defn) : bool :=
  named_ok p_name (d_ports d)
  && named_ok c_name (d_cables d) && forallb (wf_cable (d_insts d)) (d_cables d)
  && named_ok i_name (d_insts d) && forallb wf_inst (d_insts d).

Definition wf_lib (l : lib) : bool := named_ok d_name (l_defs l) && forallb wf_def (l_defs l).

Definition wf_top (t : option inst) : bool :=
  match t with
  | None => true
  | Some i => match i_props i with None => true | Some ps => forallb keys_nodup ps end
  end.

Definition wf_namedb (a : nv) : bool :=
  wf_top (n_top a) && named_ok l_name (n_libs a) && forallb wf_lib (n_libs a).

Definition wf_named (a : nv) : Prop := wf_namedb a = true.

(* no instance is named like an assignment instance ("SDN_Assignment_...") *)
Definition no_asg_def (d : defn) : bool := forallb (fun i => negb (is_asg_inst i)) (d_insts d).
Definition no_asgb (a : nv) : bool := forallb (fun l => forallb no_asg_def (l_defs l)) (n_libs a).
Definition no_asg (a : nv) : Prop := no_asgb a = true.
