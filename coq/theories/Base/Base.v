(* Base definitions shared by all models: ids, total maps, strings as code-point lists,
   Python-list primitives (insert, remove first occurrence) and their lemmas. *)
From Coq Require Import List Arith NArith ZArith Bool Lia String Ascii Permutation.
Import ListNotations.

Definition id := nat.
Definition str := list N.

Definition s2l (s : string) : str := map N_of_ascii (list_ascii_of_string s).

Fixpoint str_eqb (a b : str) : bool :=
  match a, b with
  | [], [] => true
  | x :: a', y :: b' => N.eqb x y && str_eqb a' b'
  | _, _ => false
  end.

Lemma str_eqb_spec a b : str_eqb a b = true <-> a = b.
Proof.
  revert b; induction a as [|x a IH]; intros [|y b]; cbn; split; intro H;
    try congruence; try discriminate.
  - apply andb_true_iff in H as [H1 H2]. apply N.eqb_eq in H1. apply IH in H2. congruence.
  - inversion H; subst. rewrite N.eqb_refl. cbn. apply IH. reflexivity.
Qed.

Lemma str_eqb_refl a : str_eqb a a = true.
Proof. apply str_eqb_spec. reflexivity. Qed.

(* total maps, updated pointwise; never compared with [=] so no extensionality is needed *)
Definition upd {A} (f : id -> A) (k : id) (v : A) : id -> A :=
  fun x => if Nat.eqb x k then v else f x.

Lemma upd_same {A} (f : id -> A) k v : upd f k v k = v.
Proof. unfold upd. rewrite Nat.eqb_refl. reflexivity. Qed.

Lemma upd_other {A} (f : id -> A) k v x : x <> k -> upd f k v x = f x.
Proof. unfold upd. intro H. apply Nat.eqb_neq in H. rewrite H. reflexivity. Qed.

(* membership test on id lists *)
Fixpoint memb (x : id) (l : list id) : bool :=
  match l with [] => false | y :: l' => Nat.eqb x y || memb x l' end.

Lemma memb_In x l : memb x l = true <-> In x l.
Proof.
  induction l as [|y l IH]; cbn; [split; [discriminate|tauto]|].
  rewrite orb_true_iff, Nat.eqb_eq, IH. split; intros [H|H]; auto.
Qed.

Lemma memb_false x l : memb x l = false <-> ~ In x l.
Proof. rewrite <- memb_In. destruct (memb x l); split; congruence. Qed.

(* Python list.insert(pos, x) for pos >= 0 (clamped); None = append *)
Fixpoint insert_at {A} (n : nat) (x : A) (l : list A) : list A :=
  match n, l with
  | O, _ => x :: l
  | S n', [] => [x]
  | S n', y :: l' => y :: insert_at n' x l'
  end.

Definition py_insert {A} (pos : option nat) (x : A) (l : list A) : list A :=
  match pos with None => l ++ [x] | Some n => insert_at n x l end.

Lemma insert_at_perm {A} n (x : A) l : Permutation (x :: l) (insert_at n x l).
Proof.
  revert l; induction n as [|n IH]; intros l; cbn; [reflexivity|].
  destruct l as [|y l]; [reflexivity|].
  rewrite perm_swap. constructor. apply IH.
Qed.

Lemma py_insert_perm {A} pos (x : A) l : Permutation (x :: l) (py_insert pos x l).
Proof.
  destruct pos; cbn; [apply insert_at_perm|]. apply Permutation_cons_append.
Qed.

Lemma py_insert_In {A} pos (x y : A) l : In y (py_insert pos x l) <-> y = x \/ In y l.
Proof.
  split; intro H.
  - apply (Permutation_in _ (Permutation_sym (py_insert_perm pos x l))) in H.
    destruct H; auto.
  - apply (Permutation_in _ (py_insert_perm pos x l)). destruct H; [left|right]; auto.
Qed.

Lemma py_insert_NoDup {A} pos (x : A) l : NoDup l -> ~ In x l -> NoDup (py_insert pos x l).
Proof.
  intros H1 H2. eapply Permutation_NoDup; [apply py_insert_perm|]. constructor; auto.
Qed.

(* Python list.remove(x): first occurrence *)
Fixpoint remove_first (x : id) (l : list id) : list id :=
  match l with
  | [] => []
  | y :: l' => if Nat.eqb x y then l' else y :: remove_first x l'
  end.

Lemma remove_first_In_sub x y l : In y (remove_first x l) -> In y l.
Proof.
  induction l as [|z l IH]; cbn; [tauto|].
  destruct (Nat.eqb x z); cbn; intuition.
Qed.

Lemma remove_first_NoDup x l : NoDup l -> NoDup (remove_first x l).
Proof.
  induction 1 as [|z l Hz Hl IH]; cbn; [constructor|].
  destruct (Nat.eqb x z); [assumption|]. constructor; [|assumption].
  intro H. apply Hz. eapply remove_first_In_sub; eauto.
Qed.

Lemma remove_first_In x y l : NoDup l -> (In y (remove_first x l) <-> In y l /\ y <> x).
Proof.
  induction 1 as [|z l Hz Hl IH]; cbn; [tauto|].
  destruct (Nat.eqb_spec x z) as [->|Hne]; cbn.
  - split; [intro H; split; [auto|intro; subst; contradiction]|].
    intros [[H|H] Hn]; [congruence|assumption].
  - rewrite IH. split.
    + intros [H|[H1 H2]]; [subst; split; auto|split; auto].
    + intros [[H|H] Hn]; [left; assumption|right; split; assumption].
Qed.

Definition remove_all_in (xs : list id) (l : list id) : list id :=
  filter (fun y => negb (memb y xs)) l.

Lemma remove_all_in_In xs y l : In y (remove_all_in xs l) <-> In y l /\ ~ In y xs.
Proof.
  unfold remove_all_in. rewrite filter_In, negb_true_iff, memb_false. tauto.
Qed.

Lemma NoDup_filter {A} (f : A -> bool) l : NoDup l -> NoDup (filter f l).
Proof.
  induction 1 as [|x l Hx Hl IH]; cbn; [constructor|].
  destruct (f x); [constructor; [rewrite filter_In; tauto|assumption]|assumption].
Qed.

(* duplicate-freeness as a boolean, for Python's len(list) == len(set(list)) *)
Fixpoint nodupb (l : list id) : bool :=
  match l with [] => true | x :: l' => negb (memb x l') && nodupb l' end.

Lemma nodupb_NoDup l : nodupb l = true <-> NoDup l.
Proof.
  induction l as [|x l IH]; cbn; [split; [constructor|reflexivity]|].
  rewrite andb_true_iff, negb_true_iff, memb_false, IH. split.
  - intros [H1 H2]; constructor; assumption.
  - inversion 1; subst; auto.
Qed.

Definition subsetb (a b : list id) : bool := forallb (fun x => memb x b) a.
Definition seteqb (a b : list id) : bool := subsetb a b && subsetb b a.

Lemma subsetb_spec a b : subsetb a b = true <-> incl a b.
Proof.
  unfold subsetb, incl. rewrite forallb_forall. split; intros H x Hx; specialize (H x Hx);
    apply memb_In; assumption.
Qed.

Lemma seteqb_spec a b : seteqb a b = true <-> (forall x, In x a <-> In x b).
Proof.
  unfold seteqb. rewrite andb_true_iff, !subsetb_spec. unfold incl. firstorder.
Qed.

Lemma NoDup_seteq_perm (a b : list id) :
  NoDup a -> NoDup b -> (forall x, In x a <-> In x b) -> Permutation a b.
Proof. intros. apply NoDup_Permutation; assumption. Qed.

(* association lists keyed by ids (Python dict keyed by objects, insertion-ordered) *)
Fixpoint assoc {B} (k : id) (l : list (id * B)) : option B :=
  match l with
  | [] => None
  | (k', v) :: l' => if Nat.eqb k k' then Some v else assoc k l'
  end.

Fixpoint assoc_set {B} (k : id) (v : B) (l : list (id * B)) : list (id * B) :=
  match l with
  | [] => [(k, v)]
  | (k', v') :: l' => if Nat.eqb k k' then (k, v) :: l' else (k', v') :: assoc_set k v l'
  end.

Fixpoint assoc_del {B} (k : id) (l : list (id * B)) : list (id * B) :=
  match l with
  | [] => []
  | (k', v') :: l' => if Nat.eqb k k' then assoc_del k l' else (k', v') :: assoc_del k l'
  end.

Lemma assoc_set_same {B} k (v : B) l : assoc k (assoc_set k v l) = Some v.
Proof.
  induction l as [|[k' v'] l IH]; cbn; [rewrite Nat.eqb_refl; reflexivity|].
  destruct (Nat.eqb k k') eqn:E; cbn; [rewrite Nat.eqb_refl; reflexivity|].
  rewrite E. apply IH.
Qed.

Lemma assoc_set_other {B} k k2 (v : B) l : k2 <> k -> assoc k2 (assoc_set k v l) = assoc k2 l.
Proof.
  intro Hne. induction l as [|[k' v'] l IH]; cbn.
  - apply Nat.eqb_neq in Hne. rewrite Hne. reflexivity.
  - destruct (Nat.eqb_spec k k') as [->|Hk]; cbn.
    + apply Nat.eqb_neq in Hne. rewrite Hne. reflexivity.
    + destruct (Nat.eqb k2 k'); [reflexivity|apply IH].
Qed.

Lemma assoc_del_same {B} k (l : list (id * B)) : assoc k (assoc_del k l) = None.
Proof.
  induction l as [|[k' v'] l IH]; cbn; [reflexivity|].
  destruct (Nat.eqb k k') eqn:E; cbn; [apply IH|]. rewrite E. apply IH.
Qed.

Lemma assoc_del_other {B} k k2 (l : list (id * B)) : k2 <> k -> assoc k2 (assoc_del k l) = assoc k2 l.
Proof.
  intro Hne. induction l as [|[k' v'] l IH]; cbn; [reflexivity|].
  destruct (Nat.eqb_spec k k') as [->|Hk]; cbn.
  - apply Nat.eqb_neq in Hne. rewrite Hne. apply IH.
  - destruct (Nat.eqb k2 k'); [reflexivity|apply IH].
Qed.

(* string-keyed association lists (element data dictionaries, name tables) *)
Fixpoint sassoc {B} (k : str) (l : list (str * B)) : option B :=
  match l with
  | [] => None
  | (k', v) :: l' => if str_eqb k k' then Some v else sassoc k l'
  end.

Fixpoint sassoc_set {B} (k : str) (v : B) (l : list (str * B)) : list (str * B) :=
  match l with
  | [] => [(k, v)]
  | (k', v') :: l' => if str_eqb k k' then (k, v) :: l' else (k', v') :: sassoc_set k v l'
  end.

Fixpoint sassoc_del {B} (k : str) (l : list (str * B)) : list (str * B) :=
  match l with
  | [] => []
  | (k', v') :: l' => if str_eqb k k' then sassoc_del k l' else (k', v') :: sassoc_del k l'
  end.

Lemma str_eqb_neq a b : a <> b -> str_eqb a b = false.
Proof. intro H. destruct (str_eqb a b) eqn:E; [apply str_eqb_spec in E; contradiction|reflexivity]. Qed.

Lemma sassoc_set_same {B} k (v : B) l : sassoc k (sassoc_set k v l) = Some v.
Proof.
  induction l as [|[k' v'] l IH]; cbn; [rewrite str_eqb_refl; reflexivity|].
  destruct (str_eqb k k') eqn:E; cbn; [rewrite str_eqb_refl; reflexivity|].
  rewrite E. apply IH.
Qed.

Lemma sassoc_set_other {B} k k2 (v : B) l : k2 <> k -> sassoc k2 (sassoc_set k v l) = sassoc k2 l.
Proof.
  intro Hne. induction l as [|[k' v'] l IH]; cbn.
  - rewrite (str_eqb_neq _ _ Hne). reflexivity.
  - destruct (str_eqb k k') eqn:E; cbn.
    + apply str_eqb_spec in E; subst k'. rewrite (str_eqb_neq _ _ Hne). reflexivity.
    + destruct (str_eqb k2 k'); [reflexivity|apply IH].
Qed.

Lemma sassoc_del_same {B} k (l : list (str * B)) : sassoc k (sassoc_del k l) = None.
Proof.
  induction l as [|[k' v'] l IH]; cbn; [reflexivity|].
  destruct (str_eqb k k') eqn:E; cbn; [apply IH|]. rewrite E. apply IH.
Qed.

Lemma sassoc_del_other {B} k k2 (l : list (str * B)) : k2 <> k -> sassoc k2 (sassoc_del k l) = sassoc k2 l.
Proof.
  intro Hne. induction l as [|[k' v'] l IH]; cbn; [reflexivity|].
  destruct (str_eqb k k') eqn:E; cbn.
  - apply str_eqb_spec in E; subst k'. rewrite (str_eqb_neq _ _ Hne). apply IH.
  - destruct (str_eqb k2 k'); [reflexivity|apply IH].
Qed.

(* ASCII helpers used by the naming models *)
Definition is_upper (c : N) : bool := (65 <=? c)%N && (c <=? 90)%N.
Definition is_lower (c : N) : bool := (97 <=? c)%N && (c <=? 122)%N.
Definition is_digit (c : N) : bool := (48 <=? c)%N && (c <=? 57)%N.
Definition is_alpha (c : N) : bool := is_upper c || is_lower c.
Definition is_alnum (c : N) : bool := is_alpha c || is_digit c.
Definition lower_c (c : N) : N := if is_upper c then (c + 32)%N else c.
Definition lower (s : str) : str := map lower_c s.

Lemma lower_idem s : lower (lower s) = lower s.
Proof.
  unfold lower. rewrite map_map. apply map_ext. intro c. unfold lower_c, is_upper.
  destruct ((65 <=? c)%N && (c <=? 90)%N) eqn:E; [|rewrite E; reflexivity].
  apply andb_true_iff in E as [E1 E2]. apply N.leb_le in E1, E2.
  replace ((65 <=? c + 32)%N && (c + 32 <=? 90)%N) with false; [reflexivity|].
  symmetry. apply andb_false_iff. right. apply N.leb_gt. lia.
Qed.
