(* Engine "names" (property C17): executable model of spydrnet/composers/edif/edifify_names.py
   (EdififyNames._length_fix, _characters_good/_fix, _conflicts_good/_fix, make_valid) and of the
   per-scope sequential assignment of ComposeEdif._add_rename_property (composers/edif/composer.py).
   Strings are lists of code points. Only ASCII (code points < 128) is modelled: str.isalpha /
   str.isalnum / str.lower are Unicode-aware in Python; non-ASCII names are outside the model and
   outside the alphabet of the property.  No proofs in this file. *)
From Coq Require Import List Arith NArith Bool.
From SV Require Import Base.Base IR.State IR.NS.
Import ListNotations.
Local Open Scope N_scope.

(* ---------- str(n) and int(digits) ---------- *)

(* str(n) for a non-negative integer: most significant digit first, no leading zero, "0" for 0.
   The fuel is the bit size of n (+1); [Proofs/NamesDec.v] shows it is always sufficient. *)
Fixpoint dec_aux (fuel : nat) (n : N) (acc : str) : str :=
  match fuel with
  | O => acc
  | S f =>
      let acc' := (48 + n mod 10) :: acc in
      if (n / 10) =? 0 then acc' else dec_aux f (n / 10) acc'
  end.

Definition dec (n : N) : str := dec_aux (S (N.to_nat (N.log2 n))) n [].

(* int(ds) for a string of ASCII digits (leading zeros allowed) *)
Definition digits_val (ds : str) : N := fold_left (fun a d => 10 * a + (d - 48)) ds 0.

(* ---------- re.compile("_sdn_[0-9]+_$").search(s) ---------- *)

Fixpoint span_digits (s : str) : str * str :=
  match s with
  | c :: t => if is_digit c then (let (a, b) := span_digits t in (c :: a, b)) else ([], s)
  | [] => ([], [])
  end.

Fixpoint is_prefix (p s : str) : bool :=
  match p, s with
  | [], _ => true
  | x :: p', y :: s' => N.eqb x y && is_prefix p' s'
  | _ :: _, [] => false
  end.

Definition str_sdn : str := [95; 115; 100; 110; 95].          (* "_sdn_" *)
Definition str_nds : str := [95; 110; 100; 115; 95].          (* "_sdn_" reversed *)
Definition str_sdn_1 : str := [95; 115; 100; 110; 95; 49; 95]. (* "_sdn_1_" *)

Record sdn_match := mkMatch { m_start : nat; m_len : nat (* r.end() - r.start() *); m_num : N }.

(* The pattern is anchored at the end by `$`, which in Python (no MULTILINE) matches at the very
   end of the string and also just before a newline that is the last character. The match, if any,
   is unique: '_' , the maximal run of digits before it (non-empty), "_sdn_" before that. *)
Definition strip_final_newline (r : str) : str :=   (* on the reversed string *)
  match r with
  | c :: r' => if N.eqb c 10 then r' else r
  | [] => []
  end.

Definition sdn_suffix (s : str) : option sdn_match :=
  match strip_final_newline (rev s) with
  | c :: r1 =>
      if N.eqb c 95 then
        let (ds, r2) := span_digits r1 in
        match ds with
        | [] => None
        | _ :: _ => if is_prefix str_nds r2
                    then Some (mkMatch (length r2 - 5) (6 + length ds) (digits_val (rev ds)))
                    else None
        end
      else None
  | [] => None
  end.

(* ---------- EdififyNames ---------- *)

Definition name_length_target : nat := 256.

(* _length_good: len(identifier) < 256 *)
Definition length_good (s : str) : bool := Nat.ltb (length s) name_length_target.

(* identifier[:k] for k = 256 - sl, which is negative when sl > 256 (Python then counts from the end) *)
Definition slice_to_256_minus (sl : nat) (s : str) : str :=
  if Nat.leb sl name_length_target then firstn (name_length_target - sl) s
  else firstn (length s - (sl - name_length_target)) s.

(* _length_fix *)
Definition length_fix (s : str) : str :=
  if length_good s then s
  else match sdn_suffix s with
       | None => firstn name_length_target s
       | Some m => slice_to_256_minus (m_len m) s ++ skipn (m_start m) s
       end.

(* _characters_good; None = IndexError (identifier[0] of the empty string) *)
Definition characters_good (s : str) : option bool :=
  match s with
  | [] => None
  | c :: _ => Some (is_alpha c && forallb is_idchar s)
  end.

Definition sanitize_c (c : N) : N := if is_alnum c then c else 95.

(* _characters_fix (ends with a _length_fix) *)
Definition characters_fix (s : str) : option str :=
  match characters_good s with
  | None => None
  | Some true => Some (length_fix s)
  | Some false =>
      match s with
      | [] => None
      | c :: _ =>
          if is_alpha c then Some (length_fix (map sanitize_c s))
          else Some (length_fix (38 :: map sanitize_c s))
      end
  end.

(* a sibling as the naming code sees it: its name, its "EDIF.identifier" entry if present, and
   whether "EDIF.rename" is set *)
Record sib := mkSib { s_name : str; s_ident : option str; s_rename : bool }.

(* for element in objects: if element == obj: continue   (identity comparison: position i) *)
Definition others (i : nat) (objs : list sib) : list sib := firstn i objs ++ skipn (S i) objs.

(* (element.name is not None and element.name.lower() == identifier.lower()) or
   ("EDIF.identifier" in element.data and element["EDIF.identifier"].lower() == identifier.lower()):
   both comparisons ignore case (repaired by cd45bba; they used to be case-sensitive) *)
Definition clash (x : str) (e : sib) : bool :=
  str_eqb (lower (s_name e)) (lower x) ||
  match s_ident e with Some v => str_eqb (lower v) (lower x) | None => false end.

Definition conflicts_good (i : nat) (x : str) (objs : list sib) : bool :=
  forallb (fun e => negb (clash x e)) (others i objs).

(* the new candidate built in _conflicts_fix before its _length_fix *)
Definition bump (l : str) : str :=
  match sdn_suffix l with
  | None => l ++ str_sdn_1
  | Some m => firstn (m_start m + 5) l ++ dec (m_num m + 1) ++ [95]
  end.

Inductive res (A : Type) : Type :=
  | Ok (a : A)
  | OutOfFuel     (* not a behaviour of the code: the recursion of _conflicts_fix has no measure *)
  | IndexError.   (* identifier[0] on an empty name *)
Arguments Ok {A} a.
Arguments OutOfFuel {A}.
Arguments IndexError {A}.

(* _conflicts_fix: recursive in the source; the un-suffixed identifier is returned in its original
   letter case, suffixed ones are lower-cased; the comparison ignores case *)
Fixpoint conflicts_fix (fuel : nat) (i : nat) (identifier : str) (objs : list sib) : res str :=
  match fuel with
  | O => OutOfFuel
  | S f =>
      let l := lower identifier in
      if conflicts_good i l objs then Ok identifier
      else conflicts_fix f i (length_fix (bump l)) objs
  end.

(* make_valid(obj, objects) with obj = objects[i] (or not a member when i is out of range) *)
Definition make_valid (fuel : nat) (i : nat) (objs : list sib) (name : str) : res str :=
  match characters_fix (length_fix name) with
  | None => IndexError
  | Some c => conflicts_fix fuel i c objs
  end.

Definition fuel_for (objs : list sib) : nat := 2 * length objs + 2.

(* ---------- ComposeEdif._add_rename_property over one scope ---------- *)

Fixpoint set_nth {A} (i : nat) (v : A) (l : list A) : list A :=
  match l, i with
  | [], _ => []
  | _ :: t, O => v :: t
  | x :: t, S i' => x :: set_nth i' v t
  end.

Definition add_rename_property (i : nat) (objs : list sib) : res (list sib) :=
  match nth_error objs i with
  | None => Ok objs
  | Some e =>
      match s_ident e with
      | Some _ => Ok objs                       (* "EDIF.identifier" in obj.data: return *)
      | None =>
          match make_valid (fuel_for objs) i objs (s_name e) with
          | Ok r => Ok (set_nth i (mkSib (s_name e) (Some r)
                                         (if str_eqb r (s_name e) then s_rename e else true)) objs)
          | OutOfFuel => OutOfFuel
          | IndexError => IndexError
          end
      end
  end.

(* for obj in scope: self._add_rename_property(obj, scope, names) *)
Fixpoint assign_from (k : nat) (todo : nat) (objs : list sib) : res (list sib) :=
  match todo with
  | O => Ok objs
  | S t => match add_rename_property k objs with
           | Ok o => assign_from (S k) t o
           | OutOfFuel => OutOfFuel
           | IndexError => IndexError
           end
  end.

Definition assign_all (objs : list sib) : res (list sib) := assign_from 0 (length objs) objs.

(* ---------- the conclusion of C17 as booleans (mirrored in harness/names_oracles) ---------- *)

Definition idents (objs : list sib) : list str :=
  flat_map (fun e => match s_ident e with Some r => [r] | None => [] end) objs.

Fixpoint strs_distinct (l : list str) : bool :=
  match l with
  | [] => true
  | x :: t => negb (existsb (str_eqb x) t) && strs_distinct t
  end.

Definition all_assigned_legal (objs : list sib) : bool :=
  forallb (fun e => match s_ident e with Some r => check_edif_identifier r | None => false end) objs.

Definition idents_distinct_caseless (objs : list sib) : bool := strs_distinct (map lower (idents objs)).

Definition rename_recorded (e : sib) : bool :=
  match s_ident e with
  | Some r => Bool.eqb (s_rename e) (negb (str_eqb r (s_name e)))
  | None => false
  end.

Definition c17_ok (objs : list sib) : bool :=
  all_assigned_legal objs && idents_distinct_caseless objs && forallb rename_recorded objs.
