(* Cross-hierarchy tracing (C12): the work-list closure of get_hwires.py / get_hcables.py and the
   per-item dispatch of _get_hwires_raw / _get_hcables_raw / _get_hpins_raw for a hierarchical
   reference as the object searched.

   hwire = wire :: cable :: instance path,  hpin = pin :: port :: instance path  (leaf first).
   No proofs in this file. *)
From Coq Require Import List Arith Bool.
From SV Require Import Base.Base IR.State Hier.Paths Hier.Enum.
Import ListNotations.

(* ------------------------------------------------------------------------------------------ *)
(* generic work list: nodes of two sorts (A: pins, B: wires). Popping a pin looks at its
   neighbouring wires in order; a wire not seen before is recorded and (when [expand]) all of its
   pins except the one being processed are pushed. The stack top is the head of the list
   (Python: list.pop() / `+=` at the end). Fuel = number of pops; out of fuel = None.          *)
Section WorkList.
  Variables A B : Type.
  Variable eqA : A -> A -> bool.
  Variable eqB : B -> B -> bool.
  Variable nb : A -> list B.        (* wires looked at for a pin, in the order of the code *)
  Variable pins : B -> list A.      (* pins pushed for a newly found wire *)

  Fixpoint memB (b : B) (l : list B) : bool :=
    match l with [] => false | c :: l' => eqB b c || memB b l' end.

  Definition visit (a : A) (acc : list A * list B) (b : B) : list A * list B :=
    let '(st, found) := acc in
    if memB b found then (st, found)
    else (rev_append (filter (fun x => negb (eqA x a)) (pins b)) st, b :: found).

  Fixpoint wl_close (fuel : nat) (stack : list A) (found : list B) : option (list B) :=
    match fuel with
    | O => None
    | S f =>
        match stack with
        | [] => Some found
        | a :: st =>
            let '(st', found') := fold_left (visit a) (nb a) (st, found) in
            wl_close f st' found'
        end
    end.
End WorkList.

(* ------------------------------------------------------------------------------------------ *)
(* the three kernels of get_hwires.py                                                          *)

(* _get_inner_hwire_from_hpin: the wire of the inner pin, inside the instance of the pin *)
Definition inner_hwire (s : state) (hp : href) : option href :=
  match hp with
  | i :: _ :: hinst =>
      match ipwire s i with
      | Some w => match par s RWires w with
                  | Some c => Some (w :: c :: hinst)
                  | None => None
                  end
      | None => None
      end
  | _ => None
  end.

(* _get_outer_hwire_from_hpin: the wire of the instance's outer pin, in the parent of the instance.
   The root instance has no enclosing occurrence: no outer wire, even when the top instance is also
   a wired child of some other definition (since fix da79d9a; before, the code built a reference
   rooted at the cable: corpus/hier/c12-top-as-child.json) *)
Definition outer_hwire (s : state) (hp : href) : option href :=
  match hp with
  | i :: _ :: x :: ((_ :: _) as hparent) =>
      match assoc i (ipins s x) with
      | Some (Some w) => match par s RWires w with
                         | Some c => Some (w :: c :: hparent)
                         | None => None
                         end
      | _ => None
      end
  | _ => None
  end.

(* _get_hpins_from_hwire: port pins on the wire, and the pins of sub-instances attached to it *)
Definition hpin_of_wpin (s : state) (hinst : href) (p : pin) : list href :=
  match p with
  | PIn i => match par s RPins i with Some q => [i :: q :: hinst] | None => [] end
  | POut n i => match par s RPins i with Some q => [i :: q :: n :: hinst] | None => [] end
  | PDet => []
  end.

Definition hpins_of_hwire (s : state) (hw : href) : list href :=
  match hw with
  | w :: _ :: hinst => flat_map (hpin_of_wpin s hinst) (wpins s w)
  | _ => []
  end.

Inductive sel := SInside | SOutside | SBoth | SAll.
Definition sel_in (x : sel) : bool := match x with SOutside => false | _ => true end.
Definition sel_out (x : sel) : bool := match x with SInside => false | _ => true end.
Definition sel_all (x : sel) : bool := match x with SAll => true | _ => false end.

Definition opt_list {T} (o : option T) : list T := match o with Some x => [x] | None => [] end.

(* wires looked at for a pin under a selection: inside first, then outside *)
Definition nb_sel (s : state) (x : sel) (hp : href) : list href :=
  (if sel_in x then opt_list (inner_hwire s hp) else []) ++
  (if sel_out x then opt_list (outer_hwire s hp) else []).

(* _get_hwires_from_hpins of get_hwires.py: pins are pushed only under selection ALL *)
Definition hw_close (s : state) (x : sel) (fuel : nat) (start : list href) : option (list href) :=
  wl_close href href href_eqb href_eqb (nb_sel s x)
           (fun hw => if sel_all x then hpins_of_hwire s hw else []) fuel start [].

(* _get_hwires_from_hpins of get_hcables.py: since fix 9a9c0d8 the same loop as in get_hwires.py
   (before it pushed the pins of every found wire under every selection, so the narrow selections
   kept tracing: corpus/hier/c12-hcables-narrow-selection-overreach.json) *)
Definition hc_close (s : state) (x : sel) (fuel : nat) (start : list href) : option (list href) :=
  hw_close s x fuel start.

(* fuel for the closures: one unit per pin attached to a hierarchical wire of the design
   ([pin_weight] of the universe [univ] = Enum.all_hwires, computed once per netlist), plus the
   start pins, plus one. *)
Definition pin_weight (s : state) (univ : list href) : nat :=
  list_sum (map (fun hw => length (hpins_of_hwire s hw)) univ).
Definition close_fuel (usum : nat) (start : list href) : nat := S (length start + usum).

(* ------------------------------------------------------------------------------------------ *)
(* _get_hwires_raw for one hierarchical reference [obj]                                        *)

(* the Wire branch for the narrow selection OUTSIDE: across each pin, one level down / up *)
Definition wire_outside (s : state) (hw : href) : list href :=
  match hw with
  | w :: _ :: hinst =>
      flat_map (fun p =>
        match p with
        | POut n i =>
            match ipwire s i with
            | Some iw => match par s RWires iw with
                         | Some ic => [iw :: ic :: n :: hinst]
                         | None => []   (* the code builds a reference through None; never valid *)
                         end
            | None => []
            end
        | PIn i =>
            match hinst with
            | x :: (_ :: _) as hparent =>
                match assoc i (ipins s x) with
                | Some (Some ow) => match par s RWires ow with
                                    | Some oc => [ow :: oc :: hparent]
                                    | None => []
                                    end
                | _ => []
                end
            | _ => []
            end
        | PDet => []
        end) (wpins s w)
  | _ => []
  end.

(* the hierarchical pins pushed back on the work list by the Wire branch under ALL / BOTH; the
   work list drops the invalid ones *)
Definition wire_hpins_valid (s : state) (hw : href) : list href :=
  filter (is_valid s) (hpins_of_hwire s hw).

(* phase 1 of the dispatch: (references yielded directly, hierarchical pins to start the closure).
   [insts] = the instance paths visited for an Instance object under ALL (itself and everything
   below it). *)
Definition hw_phase1_wire (s : state) (x : sel) (hw : href) : list href * list href :=
  match x with
  | SInside => ([hw], [])
  | SOutside => (wire_outside s hw, [])
  | _ => ([hw], wire_hpins_valid s hw)
  end.

Definition pair_app {T U} (a b : list T * list U) : list T * list U :=
  (fst a ++ fst b, snd a ++ snd b).

Definition get_hwires (s : state) (x : sel) (recursive : bool) (usum : nat) (obj : href)
  : option (list href) :=
  if negb (is_valid s obj) then Some []
  else
    match obj with
    | [] => Some []
    | it :: rest =>
        let phase1 : option (list href * list href) :=
          match kind_of s it with
          | Some KInstance =>
              match x with
              | SInside => option_map (fun l => (l, [])) (hwires_below s recursive obj)
              | SAll =>
                  option_map (fun ps => (flat_map (hwires_at s) ps, flat_map (hpins_at s) ps))
                             (walk s keep_all (depth_fuel s) obj)
              | _ => Some ([], hpins_at s obj)
              end
          | Some KPort => Some ([], map (fun i => i :: obj) (kids s RPins it))
          | Some KCable =>
              Some (fold_left (fun acc w => pair_app acc (hw_phase1_wire s x (w :: obj)))
                              (kids s RWires it) ([], []))
          | Some KWire => Some (hw_phase1_wire s x obj)
          | Some KPin => Some ([], [obj])
          | _ => Some ([], [])
          end in
        match phase1 with
        | None => None
        | Some (yielded, start) =>
            match hw_close s x (close_fuel usum start) start with
            | Some found => Some (href_union (href_union [] yielded) (rev found))
            | None => None
            end
        end
    end.

(* ------------------------------------------------------------------------------------------ *)
(* _get_hcables_raw for one hierarchical reference                                             *)
Definition hcable_of (hw : href) : href := tl hw.

Definition get_hcables (s : state) (x : sel) (recursive : bool) (usum : nat) (obj : href)
  : option (list href) :=
  if negb (is_valid s obj) then Some []
  else
    match obj with
    | [] => Some []
    | it :: rest =>
        let phase1 : option (list href * list href) :=
          match kind_of s it with
          | Some KInstance =>
              match x with
              | SInside => option_map (fun l => (l, [])) (hcables_below s recursive obj)
              | SAll =>
                  option_map (fun ps => (flat_map (hcables_at s) ps, flat_map (hpins_at s) ps))
                             (walk s keep_all (depth_fuel s) obj)
              | _ => Some ([], hpins_at s obj)
              end
          | Some KPort => Some ([], map (fun i => i :: obj) (kids s RPins it))
          | Some KCable =>
              Some (fold_left (fun acc w =>
                                 let '(y, st) := hw_phase1_wire s x (w :: obj) in
                                 pair_app acc (map hcable_of y, st))
                              (kids s RWires it) ([], []))
          | Some KWire => let '(y, st) := hw_phase1_wire s x obj in Some (map hcable_of y, st)
          | Some KPin => Some ([], [obj])
          | _ => Some ([], [])
          end in
        match phase1 with
        | None => None
        | Some (yielded, start) =>
            match hc_close s x (close_fuel usum start) start with
            | Some found => Some (href_union (href_union [] yielded) (map hcable_of (rev found)))
            | None => None
            end
        end
    end.

(* ------------------------------------------------------------------------------------------ *)
(* _get_hpins_raw for one hierarchical reference                                               *)
Definition get_hpins (s : state) (recursive : bool) (obj : href) : option (list href) :=
  if negb (is_valid s obj) then Some []
  else
    match obj with
    | [] => Some []
    | it :: rest =>
        match kind_of s it with
        | Some KInstance => hpins_below s recursive obj
        | Some KPort => Some (map (fun i => i :: obj) (kids s RPins it))
        | Some KCable =>
            Some (href_union [] (flat_map (fun w => hpins_of_hwire s (w :: obj)) (kids s RWires it)))
        | Some KWire => Some (href_union [] (hpins_of_hwire s obj))
        | Some KPin => Some [obj]
        | _ => Some []
        end
    end.

(* ---- the queries of the property ---- *)
Definition get_hwires_ALL (s : state) (usum : nat) (obj : href) := get_hwires s SAll false usum obj.
