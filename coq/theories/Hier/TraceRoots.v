(* The remaining dispatch branches of _get_hwires_raw / _get_hcables_raw / _get_hpins_raw /
   _get_hports_raw (spydrnet/util/get_h*.py): the object searched is a COLLECTION of roots, each a
   hierarchical reference, a netlist, a library, a definition, an instance, or a port / cable /
   pin / wire given as a plain element; `recursive`, `selection`, and `patterns`.

   What the code does with the collection (one work list, popped from the END):
     Netlist      -> the reference of its top instance (if any), NOT marked "bypass";
     Library      -> its definitions;
     Definition   -> set(HRef.get_all_hrefs_of_instances(definition.references)), marked bypass;
     Instance     -> set(HRef.get_all_hrefs_of_instances(instance)), marked bypass;
     other element-> HRef.get_all_hrefs_of_item(element);
     HRef         -> dropped when not valid; otherwise by the class of its item. An instance
                     reference that is NOT marked bypass is (for get_hwires/get_hcables: only under
                     selection INSIDE) handed to the name map (_update_*_namemap), whose entries are
                     filtered by `patterns` at the very end; a bypass-marked one yields its contents
                     directly and, when recursive (or selection ALL), pushes ALL its children, marked
                     bypass. Since fix 1630eaa (former finding C13-K6: the patterns were never looked
                     at here) a reference found directly is yielded only if one of the patterns matches
                     its hierarchical name - see [direct_match] below.
   All roots share the sets in_yield (a reference is yielded once), hpin_search (ONE closure over
   the pins collected from all roots, after the loop) and in_namemap (a reference is registered in
   the name map once, under the name relative to the FIRST root that reaches it; entries that were
   yielded directly are discarded before the patterns are applied).

   The model keeps a flag per work-list entry instead of the set bypass_namesearch. The two differ
   only when the same instance reference is on the work list twice with different marks; then the
   code may hand the second copy to the name map - whose entries are all in in_yield already (the
   direct branch reaches at least what the name map reaches) and are discarded. The answers agree
   as multisets, which is what the correspondence check compares: hpin_search and the expansion of
   Definition / Instance roots are Python sets, so the yield order is not determined by the design.

   Names: the name map registers  "/".join(names of the instances BELOW the root reference, then the
   cable/port) + "[index]" for arrays = HRef.name of the reference cut off at the root (rel_name).

   No proofs in this file. *)
From Coq Require Import List Arith Bool.
From SV Require Import Base.Base IR.State Hier.Paths Hier.Enum Hier.Trace.
Import ListNotations.

Inductive root := RHref (h : href) | RObj (q : qitem).

(* (marked bypass?, reference) *)
Definition entry := (bool * href)%type.

Definition mark (b : bool) (l : list href) : list entry := map (pair b) l.

Definition expand_root (s : state) (r : root) : option (list entry) :=
  match r with
  | RHref h => Some [(false, h)]
  | RObj (QOuter n i) => option_map (mark false) (hrefs_of_item s (QOuter n i))
  | RObj (QId x) =>
      match kind_of s x with
      | Some KNetlist => Some (match top_href s x with Some h => [(false, h)] | None => [] end)
      | Some KLibrary =>
          option_map (mark true) (flat_opt (fun d => hrefs_of_instances s (drefs s d)) (kids s RDefs x))
      | Some KDefinition => option_map (mark true) (hrefs_of_instances s (drefs s x))
      | Some KInstance => option_map (mark true) (hrefs_of_instances s [x])
      | _ => option_map (mark false) (hrefs_of_item s (QId x))
      end
  end.

(* the work list after every root has been expanded; the last root is popped first *)
Definition expand_roots (s : state) (roots : list root) : option (list entry) :=
  flat_opt (expand_root s) (rev roots).

(* ---- patterns ---- *)
(* [ab p] = _is_pattern_absolute, [mt p v] = _value_matches_pattern for the is_case / is_re of the
   call (Query/Patterns.v: absolute_b, matches_b): an absolute pattern is looked up in the name
   map (equality), any other is matched against every registered name *)
Definition pat_sel (ab : str -> bool) (mt : str -> str -> bool) (pats : list str) (nm : str) : bool :=
  existsb (fun p => if ab p then str_eqb p nm else mt p nm) pats.

(* name of reference h relative to a root reference with k ancestors *)
Definition rel_name (s : state) (k : nat) (h : href) : option str :=
  href_name s (firstn (length h - k) h).

(* name-map entries: (number of ancestors of the root reference, reference) *)
Definition nentry := (nat * href)%type.

Fixpoint nmem (h : href) (l : list nentry) : bool :=
  match l with [] => false | e :: l' => href_eqb h (snd e) || nmem h l' end.

(* `if href not in found: found.add(href); register` *)
Fixpoint nfirst (acc l : list nentry) : list nentry :=
  match l with
  | [] => acc
  | e :: l' => if nmem (snd e) acc then nfirst acc l' else nfirst (acc ++ [e]) l'
  end.

Definition name_ok (s : state) (pat : str -> bool) (e : nentry) : bool :=
  match rel_name s (fst e) (snd e) with Some nm => pat nm | None => false end.

(* ---- the patterns on references found DIRECTLY (_href_matches_any_pattern, fix 1630eaa) ----
   relative_to = the references to NON-TOP hierarchical instances among the objects searched (as
   handed in, valid or not); use_full_name = some object searched is not one of these. The names
   tried for a reference h found directly: its full name (HRef.name) when use_full_name, and its
   name relative to each member of relative_to it lies below; if that gives no name at all, the full
   name. h is kept when some pattern matches some of these names - always by
   _value_matches_pattern ([dpat] = "some pattern matches"), absolute patterns included.
   A name that is not a string makes the code raise; here it matches nothing. *)
Definition is_rel_root (s : state) (r : root) : list href :=
  match r with
  | RHref ((x :: _ :: _) as h) => if kind_is s x KInstance then [h] else []
  | _ => []
  end.

Definition rel_roots (s : state) (roots : list root) : list href := flat_map (is_rel_root s) roots.

(* h lies below (or is) the reference root: root is a suffix of the leaf-first chain h *)
Definition lies_below (root h : href) : bool :=
  (length root <=? length h) && href_eqb root (skipn (length h - length root) h).

Definition direct_names (relroots : list href) (use_full : bool) (h : href) : list nentry :=
  let names := (if use_full then [(0, h)] else []) ++
               map (fun root => (pred (length root), h)) (filter (fun root => lies_below root h) relroots) in
  match names with [] => [(0, h)] | _ => names end.

Definition direct_match_with (s : state) (dpat : str -> bool) (relroots : list href) (use_full : bool)
           (h : href) : bool :=
  existsb (name_ok s dpat) (direct_names relroots use_full h).

Definition direct_match (s : state) (dpat : str -> bool) (roots : list root) : href -> bool :=
  let rr := rel_roots s roots in
  direct_match_with s dpat rr (length rr <? length roots).

(* [dpat] for a list of patterns *)
Definition pat_any_of (mt : str -> str -> bool) (pats : list str) (nm : str) : bool :=
  existsb (fun p => mt p nm) pats.

(* the end of every _get_h*_raw: what was found directly and passes the pattern test [dm], then the
   registered references that were not yielded so and whose name is selected by the patterns *)
Definition finish (s : state) (pat : str -> bool) (dm : href -> bool) (direct : list href)
           (named : list nentry) : list href :=
  href_union (filter dm direct) (map snd (filter (name_ok s pat) (nfirst [] named))).

(* ---- phase 1 per entry: (yielded directly, hierarchical pins for the closure, name map) ---- *)
Definition trip := (list href * list href * list nentry)%type.
Definition trip0 : trip := ([], [], []).
Definition of_pair (p : list href * list href) : trip := (fst p, snd p, []).
Definition trip_app (a b : trip) : trip :=
  let '(y, p, n) := a in let '(y', p', n') := b in (y ++ y', p ++ p', n ++ n').

Fixpoint collect {T} (f : T -> option trip) (l : list T) : option trip :=
  match l with
  | [] => Some trip0
  | a :: l' => match f a, collect f l' with
               | Some x, Some y => Some (trip_app x y)
               | _, _ => None
               end
  end.

Definition named_of (obj : href) (l : list href) : list nentry := map (pair (pred (length obj))) l.

(* the instances whose contents a bypass-marked instance reference yields: itself, and when
   [deep] everything below it through ALL children *)
Definition bypass_scope (s : state) (deep : bool) (obj : href) : option (list href) :=
  scope s keep_all deep obj.

Definition hw_entry (s : state) (x : sel) (recursive : bool) (e : entry) : option trip :=
  let '(bp, obj) := e in
  if negb (is_valid s obj) then Some trip0
  else
    match obj with
    | [] => Some trip0
    | it :: _ =>
        match kind_of s it with
        | Some KInstance =>
            match x with
            | SInside =>
                if bp then option_map (fun ps => (flat_map (hwires_at s) ps, [], []))
                                      (bypass_scope s recursive obj)
                else option_map (fun l => ([], [], named_of obj l)) (hwires_below s recursive obj)
            | SAll =>
                option_map (fun ps => (flat_map (hwires_at s) ps, flat_map (hpins_at s) ps, []))
                           (bypass_scope s true obj)
            | _ => Some ([], hpins_at s obj, [])
            end
        | Some KPort => Some ([], map (fun i => i :: obj) (kids s RPins it), [])
        | Some KCable =>
            Some (of_pair (fold_left (fun acc w => pair_app acc (hw_phase1_wire s x (w :: obj)))
                                     (kids s RWires it) ([], [])))
        | Some KWire => Some (of_pair (hw_phase1_wire s x obj))
        | Some KPin => Some ([], [obj], [])
        | _ => Some trip0
        end
    end.

Definition hc_entry (s : state) (x : sel) (recursive : bool) (e : entry) : option trip :=
  let '(bp, obj) := e in
  if negb (is_valid s obj) then Some trip0
  else
    match obj with
    | [] => Some trip0
    | it :: _ =>
        match kind_of s it with
        | Some KInstance =>
            match x with
            | SInside =>
                if bp then option_map (fun ps => (flat_map (hcables_at s) ps, [], []))
                                      (bypass_scope s recursive obj)
                else option_map (fun l => ([], [], named_of obj l)) (hcables_below s recursive obj)
            | SAll =>
                option_map (fun ps => (flat_map (hcables_at s) ps, flat_map (hpins_at s) ps, []))
                           (bypass_scope s true obj)
            | _ => Some ([], hpins_at s obj, [])
            end
        | Some KPort => Some ([], map (fun i => i :: obj) (kids s RPins it), [])
        | Some KCable =>
            Some (of_pair (fold_left (fun acc w =>
                                        let '(y, st) := hw_phase1_wire s x (w :: obj) in
                                        pair_app acc (map hcable_of y, st))
                                     (kids s RWires it) ([], [])))
        | Some KWire => let '(y, st) := hw_phase1_wire s x obj in Some (map hcable_of y, st, [])
        | Some KPin => Some ([], [obj], [])
        | _ => Some trip0
        end
    end.

Definition hp_entry (s : state) (recursive : bool) (e : entry) : option trip :=
  let '(bp, obj) := e in
  if negb (is_valid s obj) then Some trip0
  else
    match obj with
    | [] => Some trip0
    | it :: _ =>
        match kind_of s it with
        | Some KInstance =>
            if bp then option_map (fun ps => (flat_map (hpins_at s) ps, [], []))
                                  (bypass_scope s recursive obj)
            else option_map (fun l => ([], [], named_of obj l)) (hpins_below s recursive obj)
        | Some KPort => Some (map (fun i => i :: obj) (kids s RPins it), [], [])
        | Some KCable => Some (flat_map (fun w => hpins_of_hwire s (w :: obj)) (kids s RWires it), [], [])
        | Some KWire => Some (hpins_of_hwire s obj, [], [])
        | Some KPin => Some ([obj], [], [])
        | _ => Some trip0
        end
    end.

Definition hport_of (hp : href) : href := tl hp.

Definition hq_entry (s : state) (recursive : bool) (e : entry) : option trip :=
  let '(bp, obj) := e in
  if negb (is_valid s obj) then Some trip0
  else
    match obj with
    | [] => Some trip0
    | it :: _ =>
        match kind_of s it with
        | Some KInstance =>
            if bp then option_map (fun ps => (flat_map (hports_at s) ps, [], []))
                                  (bypass_scope s recursive obj)
            else option_map (fun l => ([], [], named_of obj l)) (hports_below s recursive obj)
        | Some KPort => Some ([obj], [], [])
        | Some KCable =>
            Some (map hport_of (flat_map (fun w => hpins_of_hwire s (w :: obj)) (kids s RWires it)), [], [])
        | Some KWire => Some (map hport_of (hpins_of_hwire s obj), [], [])
        | Some KPin => Some ([hport_of obj], [], [])
        | _ => Some trip0
        end
    end.

(* ---- the four queries on a work list of entries ---- *)
Definition get_hwires_entries (s : state) (x : sel) (recursive : bool) (pat : str -> bool)
           (dm : href -> bool) (usum : nat) (es : list entry) : option (list href) :=
  match collect (hw_entry s x recursive) es with
  | None => None
  | Some (yielded, start, named) =>
      match hw_close s x (close_fuel usum start) start with
      | Some found => Some (finish s pat dm (href_union (href_union [] yielded) (rev found)) named)
      | None => None
      end
  end.

Definition get_hcables_entries (s : state) (x : sel) (recursive : bool) (pat : str -> bool)
           (dm : href -> bool) (usum : nat) (es : list entry) : option (list href) :=
  match collect (hc_entry s x recursive) es with
  | None => None
  | Some (yielded, start, named) =>
      match hc_close s x (close_fuel usum start) start with
      | Some found =>
          Some (finish s pat dm (href_union (href_union [] yielded) (map hcable_of (rev found))) named)
      | None => None
      end
  end.

Definition get_hpins_entries (s : state) (recursive : bool) (pat : str -> bool) (dm : href -> bool)
           (es : list entry)
  : option (list href) :=
  match collect (hp_entry s recursive) es with
  | None => None
  | Some (yielded, _, named) => Some (finish s pat dm (href_union [] yielded) named)
  end.

Definition get_hports_entries (s : state) (recursive : bool) (pat : str -> bool) (dm : href -> bool)
           (es : list entry)
  : option (list href) :=
  match collect (hq_entry s recursive) es with
  | None => None
  | Some (yielded, _, named) => Some (finish s pat dm (href_union [] yielded) named)
  end.

(* ---- ... and on a collection of roots ---- *)
Definition with_roots {T} (s : state) (roots : list root) (f : list entry -> option T) : option T :=
  match expand_roots s roots with Some es => f es | None => None end.

(* [pat]: the name map ("some pattern selects this name", pat_sel); [dpat]: references found directly
   ("some pattern matches this name", pat_any_of) *)
Definition get_hwires_roots s x recursive pat dpat usum roots :=
  with_roots s roots (get_hwires_entries s x recursive pat (direct_match s dpat roots) usum).
Definition get_hcables_roots s x recursive pat dpat usum roots :=
  with_roots s roots (get_hcables_entries s x recursive pat (direct_match s dpat roots) usum).
Definition get_hpins_roots s recursive pat dpat roots :=
  with_roots s roots (get_hpins_entries s recursive pat (direct_match s dpat roots)).
Definition get_hports_roots s recursive pat dpat roots :=
  with_roots s roots (get_hports_entries s recursive pat (direct_match s dpat roots)).

Definition pat_any (nm : str) : bool := true.

(* ------------------------------------------------------------------------------------------ *)
(* YIELD ORDER, where it is a function of the design: ONE root that is a netlist or a reference to a
   hierarchical instance, selection INSIDE (get_hpins / get_hports: always). Nothing is yielded
   directly; the answer is produced by the pattern loop over the name map alone, and no Python set
   is iterated:
     - registration order (_update_*_namemap): depth first; the children of an instance are pushed
       in order and popped from the END of the stack, i.e. visited in REVERSE order; per instance
       the cables (ports) in order, per cable (port) the wires (pins) in order;
     - namemap is a dict keyed by name (insertion order = first registration of the name), each
       value the references registered under that name, in registration order;
     - for pattern in patterns: absolute -> namemap[pattern]; otherwise every name of the dict, in
       order, that matches; a reference is yielded the first time it comes up.
   A name that is not a string makes str.join raise: no answer (None of the inner option).      *)
Fixpoint walk_rev (s : state) (keep : id -> bool) (fuel : nat) (h : href) : option (list href) :=
  match fuel with
  | O => None
  | S f =>
      match h with
      | [] => Some []
      | x :: _ =>
          match flat_opt (fun c => walk_rev s keep f (c :: h)) (rev (filter keep (sub s x))) with
          | Some l => Some (h :: l)
          | None => None
          end
      end
  end.

Definition scope_rev (s : state) (keep : id -> bool) (recursive : bool) (h : href) : option (list href) :=
  if recursive then walk_rev s keep (depth_fuel s) h else Some [h].

Inductive okind := OWires | OCables | OPins | OPorts.

Definition registrations (s : state) (k : okind) (recursive : bool) (obj : href) : option (list href) :=
  match k with
  | OWires => option_map (flat_map (hwires_at s)) (scope_rev s (nonleaf_ref s) recursive obj)
  | OCables => option_map (flat_map (hcables_at s)) (scope_rev s (nonleaf_ref s) recursive obj)
  | OPins => option_map (flat_map (hpins_at s)) (scope_rev s (has_ref s) recursive obj)
  | OPorts => option_map (flat_map (hports_at s)) (scope_rev s (has_ref s) recursive obj)
  end.

Fixpoint names_first (seen : list str) (l : list str) : list str :=
  match l with
  | [] => seen
  | n :: l' => if existsb (str_eqb n) seen then names_first seen l' else names_first (seen ++ [n]) l'
  end.

Fixpoint all_some {T} (l : list (option T)) : option (list T) :=
  match l with
  | [] => Some []
  | Some x :: l' => option_map (cons x) (all_some l')
  | None :: _ => None
  end.

Definition pattern_loop (ab : str -> bool) (mt : str -> str -> bool) (pats : list str)
           (regs : list (str * href)) : list href :=
  let names := names_first [] (map fst regs) in
  let under (nm : str) := map snd (filter (fun e => str_eqb (fst e) nm) regs) in
  fold_left (fun acc p =>
               href_union acc (if ab p then under p
                               else flat_map under (filter (fun nm => mt p nm) names)))
            pats [].

(* outer None = out of fuel; inner None = the code raises on a name that is not a string *)
Definition get_ordered (s : state) (k : okind) (recursive : bool) (ab : str -> bool)
           (mt : str -> str -> bool) (pats : list str) (obj : href) : option (option (list href)) :=
  if negb (is_valid s obj) then Some (Some [])
  else
    match registrations s k recursive obj with
    | None => None
    | Some regs =>
        match all_some (map (rel_name s (pred (length obj))) regs) with
        | None => Some None
        | Some nms => Some (Some (pattern_loop ab mt pats (combine nms regs)))
        end
    end.
