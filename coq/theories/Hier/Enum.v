(* The enumeration kernels of spydrnet/util/hierarchical_reference.py and of the netlist-rooted
   walkers of get_hinstances / get_hports / get_hpins / get_hcables / get_hwires (C11).

   Python sets are lists here; results are compared as sets (sorted) with multiplicity, so a
   duplicate in a model result would be visible. Loops/recursions of the code that have no
   structural measure take explicit fuel; out of fuel = None (the code would not terminate).
   No proofs in this file. *)
From Coq Require Import List Arith NArith ZArith Bool.
From SV Require Import Base.Base IR.State Hier.Paths.
Import ListNotations.

(* ------------------------------------------------------------------------------------------ *)
(* HRef.is_valid: walks from the item up to the root, one test per level                       *)

Definition root_ok (s : state) (x : id) : bool :=
  match root_netlist s x with
  | Some n => match top s n with Some t => Nat.eqb t x | None => false end
  | None => false
  end.

Fixpoint is_valid (s : state) (h : href) : bool :=
  match h with
  | [] => false
  | x :: rest =>
    match kind_of s x with
    | Some KInstance =>
        match rest with
        | [] => root_ok s x
        | hp :: _ => match par s RChildren x with
                     | Some d => memb hp (drefs s d) && is_valid s rest
                     | None => false
                     end
        end
    | Some KPort =>
        match rest with
        | [] => false
        | hp :: _ => match par s RPorts x with
                     | Some d => memb hp (drefs s d) && is_valid s rest
                     | None => false
                     end
        end
    | Some KCable =>
        match rest with
        | [] => false
        | hp :: _ => match par s RCables x with
                     | Some d => memb hp (drefs s d) && is_valid s rest
                     | None => false
                     end
        end
    | Some KWire =>
        match rest with
        | [] => false
        | hp :: _ => match par s RWires x with
                     | Some c => Nat.eqb hp c && is_valid s rest
                     | None => false
                     end
        end
    | Some KPin =>
        match rest with
        | [] => false
        | hp :: _ => match par s RPins x with
                     | Some q => Nat.eqb hp q && is_valid s rest
                     | None => false
                     end
        end
    | _ => false
    end
  end.

(* ------------------------------------------------------------------------------------------ *)
(* HRef.is_unique                                                                              *)

(* second loop of is_unique: from an instance, climb through "instances of the definition that
   contains me"; true as soon as one of them is on the path. The code keeps an explicit stack
   without a visited set; the answer is an existential over the climbed chains, so depth-first
   recursion (fuel = depth) computes the same boolean. *)
Fixpoint climbs_into (s : state) (fuel : nat) (targets : list id) (y : id) : option bool :=
  match fuel with
  | O => None
  | S f =>
      match par s RChildren y with
      | None => Some false
      | Some d =>
          fold_left (fun acc p =>
                       match acc with
                       | Some false => if memb p targets then Some true else climbs_into s f targets p
                       | _ => acc
                       end) (drefs s d) (Some false)
      end
  end.

(* the instances on the chain of a reference, and the stray starting points collected by the
   first loop: for each non-root instance whose containing definition has more than one
   reference, all references except the one on the path *)
Fixpoint chain_instances (s : state) (h : href) : list id :=
  match h with
  | [] => []
  | x :: rest => (if kind_is s x KInstance then [x] else []) ++ chain_instances s rest
  end.

Fixpoint unique_starts (s : state) (h : href) : list id :=
  match h with
  | [] => []
  | x :: rest =>
      (if kind_is s x KInstance then
         match par s RChildren x, rest with
         | Some d, hp :: _ =>
             if 1 <? length (drefs s d) then filter (fun y => negb (Nat.eqb y hp)) (drefs s d) else []
         | _, _ => []
         end
       else []) ++ unique_starts s rest
  end.

Definition is_unique (s : state) (fuel : nat) (h : href) : option bool :=
  if negb (is_valid s h) then Some false
  else
    let targets := chain_instances s h in
    fold_left (fun acc y =>
                 match acc with
                 | Some true =>
                     match climbs_into s fuel targets y with
                     | Some b => Some (negb b)
                     | None => None
                     end
                 | _ => acc
                 end) (unique_starts s h) (Some true).

(* ------------------------------------------------------------------------------------------ *)
(* HRef.name                                                                                   *)

(* item.get(".NAME", ""): Some text, or None when the stored value is not a string (str.join then
   raises TypeError) *)
Definition name_get (s : state) (x : id) : option str :=
  match sassoc str_NAME (data s x) with
  | None => Some []
  | Some (VStr n) => Some n
  | Some _ => None
  end.

Fixpoint digits_of (fuel : nat) (n : N) (acc : str) : str :=
  match fuel with
  | O => acc
  | S f =>
      let acc' := (48 + N.modulo n 10)%N :: acc in
      let q := N.div n 10 in
      if N.eqb q 0 then acc' else digits_of f q acc'
  end.

Definition n_to_str (n : N) : str := digits_of (S (N.size_nat n)) n [].

Definition z_to_str (z : Z) : str :=
  match z with
  | Z0 => [48%N]
  | Zpos p => n_to_str (Npos p)
  | Zneg p => 45%N :: n_to_str (Npos p)
  end.

Fixpoint index_of (x : id) (l : list id) : option nat :=
  match l with
  | [] => None
  | y :: l' => if Nat.eqb x y then Some O else option_map S (index_of x l')
  end.

Fixpoint join_names (l : list (option str)) : option str :=
  match l with
  | [] => Some []
  | [a] => a
  | a :: l' => match a, join_names l' with
               | Some x, Some y => Some (x ++ 47%N :: y)
               | _, _ => None
               end
  end.

(* Bundle.is_array / lower_index + position, for wires and pins *)
Definition is_scalar_b (s : state) (b : id) (items : list id) : bool :=
  if 1 <? length items then false else bscalar s b.

Definition bus_suffix (s : state) (r : rel) (x : id) : option (option str) :=
  (* None = the code raises (no cable/port, or the item is not listed in it) *)
  match par s r x with
  | None => None
  | Some b =>
      let items := kids s r b in
      if is_scalar_b s b items then Some None
      else match index_of x items with
           | Some k => Some (Some (91%N :: z_to_str (blower s b + Z.of_nat k) ++ [93%N]))
           | None => None
           end
  end.

(* names of the chain, root first, without the root's own name, slash-joined, plus "[index]" *)
Definition href_name (s : state) (h : href) : option str :=
  match h with
  | [] => None
  | x :: rest =>
      let '(chain, suffix) :=
        match kind_of s x with
        | Some KWire => (rest, bus_suffix s RWires x)
        | Some KPin => (rest, bus_suffix s RPins x)
        | _ => (h, Some None)
        end in
      match suffix with
      | None => None
      | Some sfx =>
          match join_names (map (name_get s) (rev (removelast chain))) with
          | Some nm => Some (nm ++ match sfx with Some t => t | None => [] end)
          | None => None
          end
      end
  end.

(* ------------------------------------------------------------------------------------------ *)
(* depth-first walks below a hierarchical instance (the _update_*namemap functions)            *)

Definition flat_opt {A B} (f : A -> option (list B)) (l : list A) : option (list B) :=
  fold_right (fun a acc => match f a, acc with
                           | Some x, Some y => Some (x ++ y)
                           | _, _ => None
                           end) (Some []) l.

(* h and every instance path below it through the children accepted by [keep] (pre-order) *)
Fixpoint walk (s : state) (keep : id -> bool) (fuel : nat) (h : href) : option (list href) :=
  match fuel with
  | O => None
  | S f =>
      match h with
      | [] => Some []
      | x :: _ =>
          match flat_opt (fun c => walk s keep f (c :: h)) (filter keep (sub s x)) with
          | Some l => Some (h :: l)
          | None => None
          end
      end
  end.

Definition keep_all (c : id) : bool := true.
Definition has_ref (s : state) (c : id) : bool := match iref s c with Some _ => true | None => false end.
(* child.reference and child.reference.is_leaf() is False *)
Definition nonleaf_ref (s : state) (c : id) : bool :=
  match iref s c with
  | Some d => negb (match kids s RChildren d, kids s RCables d with [], [] => true | _, _ => false end)
  | None => false
  end.

(* the fuel every walk is given: one more than the number of allocated ids *)
Definition depth_fuel (s : state) : nat := S (next s).

(* get_hinstances(href of an instance): _update_namemap. The start is not reported; without
   `recursive` only its children are. *)
Definition hinstances_below (s : state) (recursive : bool) (h : href) : option (list href) :=
  match h with
  | [] => Some []
  | x :: _ =>
      if recursive then option_map (@tl href) (walk s keep_all (depth_fuel s) h)
      else Some (map (fun c => c :: h) (sub s x))
  end.

(* the hierarchical instances whose contents a contents-walk reports *)
Definition scope (s : state) (keep : id -> bool) (recursive : bool) (h : href) : option (list href) :=
  if recursive then walk s keep (depth_fuel s) h else Some [h].

Definition hports_at (s : state) (p : href) : list href :=
  match p with [] => [] | x :: _ => map (fun q => q :: p) (ports_of s x) end.
Definition hpins_at (s : state) (p : href) : list href :=
  flat_map (fun hq => match hq with q :: _ => map (fun i => i :: hq) (kids s RPins q) | [] => [] end)
           (hports_at s p).
Definition hcables_at (s : state) (p : href) : list href :=
  match p with [] => [] | x :: _ => map (fun c => c :: p) (cables_of s x) end.
Definition hwires_at (s : state) (p : href) : list href :=
  flat_map (fun hc => match hc with c :: _ => map (fun w => w :: hc) (kids s RWires c) | [] => [] end)
           (hcables_at s p).

Definition hports_below s recursive h := option_map (flat_map (hports_at s)) (scope s (has_ref s) recursive h).
Definition hpins_below s recursive h := option_map (flat_map (hpins_at s)) (scope s (has_ref s) recursive h).
Definition hcables_below s recursive h := option_map (flat_map (hcables_at s)) (scope s (nonleaf_ref s) recursive h).
Definition hwires_below s recursive h := option_map (flat_map (hwires_at s)) (scope s (nonleaf_ref s) recursive h).

(* ---- netlist-rooted queries: get_hX(netlist, recursive=...) ---- *)
Definition top_href (s : state) (n : id) : option href :=
  match top s n with Some t => Some [t] | None => None end.

(* get_hinstances(netlist) does not test the validity of the root reference *)
Definition get_hinstances_netlist (s : state) (n : id) (recursive : bool) : option (list href) :=
  match top_href s n with
  | Some h => hinstances_below s recursive h
  | None => Some []
  end.

(* the other four push the root reference on the work list, where invalid references are dropped *)
Definition netlist_contents (below : state -> bool -> href -> option (list href))
           (s : state) (n : id) (recursive : bool) : option (list href) :=
  match top_href s n with
  | Some h => if is_valid s h then below s recursive h else Some []
  | None => Some []
  end.

Definition get_hports_netlist := netlist_contents hports_below.
Definition get_hpins_netlist := netlist_contents hpins_below.
Definition get_hcables_netlist := netlist_contents hcables_below.
Definition get_hwires_netlist := netlist_contents hwires_below.

(* every instance path of the netlist, root included (used as the universe of the C12 closure) *)
Definition all_ipaths (s : state) (n : id) : option (list href) :=
  match top_href s n with
  | Some h => walk s keep_all (depth_fuel s) h
  | None => Some []
  end.
Definition all_hwires (s : state) (n : id) : option (list href) :=
  option_map (flat_map (hwires_at s)) (all_ipaths s n).

(* ------------------------------------------------------------------------------------------ *)
(* HRef.get_all_hrefs_of_instances: upward bound set, then downward search from the tops reached *)

(* first loop: every instance of every definition that (transitively) contains a target.
   Elements are marked when pushed, so each is pushed once; fuel = pops. *)
Fixpoint bound_close (s : state) (fuel : nat) (stack bound : list id) : option (list id) :=
  match fuel with
  | O => None
  | S f =>
      match stack with
      | [] => Some bound
      | x :: st =>
          match par s RChildren x with
          | None => bound_close s f st bound
          | Some d =>
              let '(st', bound') :=
                fold_left (fun '(st0, b0) p => if memb p b0 then (st0, b0) else (p :: st0, p :: b0))
                          (drefs s d) (st, bound) in
              bound_close s f st' bound'
          end
      end
  end.

(* second loop *)
Fixpoint search_down (s : state) (insts bound : list id) (fuel : nat) (h : href) : option (list href) :=
  match fuel with
  | O => None
  | S f =>
      match h with
      | [] => Some []
      | x :: _ =>
          match flat_opt (fun c => if memb c bound then search_down s insts bound f (c :: h)
                                   else if memb c insts then Some [c :: h] else Some [])
                         (sub s x) with
          | Some l => Some ((if memb x insts then [h] else []) ++ l)
          | None => None
          end
      end
  end.

(* the set `instances | bound` *)
Fixpoint set_of (l : list id) : list id :=
  match l with
  | [] => []
  | x :: l' => if memb x l' then set_of l' else x :: set_of l'
  end.

(* no netlist is handed in: the search starts at every top instance the upward walk has reached,
   i.e. at the members x of  instances | bound  for which HRef(x).is_valid (x is the top instance of
   the netlist that holds the definition it references). What the instances reference plays no
   part. *)
Definition reached_tops (s : state) (insts bound : list id) : list id :=
  filter (fun x => is_valid s [x]) (set_of (insts ++ bound)).

Definition hrefs_of_instances (s : state) (insts : list id) : option (list href) :=
  match bound_close s (S (length insts + next s)) insts [] with
  | None => None
  | Some bound =>
      flat_opt (fun t => search_down s insts bound (depth_fuel s) [t]) (reached_tops s insts bound)
  end.

(* a netlist is handed in: the search starts at its top instance, whatever it references (no top
   instance: the code raises AttributeError on None.reference - no answer) *)
Definition hrefs_of_instances_in (s : state) (insts : list id) (n : id) : option (list href) :=
  match bound_close s (S (length insts + next s)) insts [] with
  | None => None
  | Some bound =>
      match top s n with
      | None => None
      | Some t => search_down s insts bound (depth_fuel s) [t]
      end
  end.

(* HRef.get_all_hrefs_of_item, by class of the item. An outer pin is the value (instance, inner
   pin). *)
Inductive qitem := QId (x : id) | QOuter (n i : id).

Definition hrefs_of_item (s : state) (q : qitem) : option (list href) :=
  match q with
  | QOuter n i =>
      match par s RPins i with
      | Some p => option_map (map (fun h => i :: p :: h)) (hrefs_of_instances s [n])
      | None => Some []
      end
  | QId x =>
      match kind_of s x with
      | Some KInstance => hrefs_of_instances s [x]
      | Some KDefinition => hrefs_of_instances s (drefs s x)
      | Some KPort =>
          match par s RPorts x with
          | Some d => option_map (map (fun h => x :: h)) (hrefs_of_instances s (drefs s d))
          | None => Some []
          end
      | Some KCable =>
          match par s RCables x with
          | Some d => option_map (map (fun h => x :: h)) (hrefs_of_instances s (drefs s d))
          | None => Some []
          end
      | Some KPin =>
          match par s RPins x with
          | Some p => match par s RPorts p with
                      | Some d => option_map (map (fun h => x :: p :: h)) (hrefs_of_instances s (drefs s d))
                      | None => Some []
                      end
          | None => Some []
          end
      | Some KWire =>
          match par s RWires x with
          | Some c => match par s RCables c with
                      | Some d => option_map (map (fun h => x :: c :: h)) (hrefs_of_instances s (drefs s d))
                      | None => Some []
                      end
          | None => Some []
          end
      | _ => Some []
      end
  end.
