(* Specification side of C12: the connectivity relation on hierarchical wires, and the
   well-formedness it is stated under. No proofs in this file.

   A hierarchical wire is  wire :: cable :: instance path  (leaf first, top instance last). *)
From Coq Require Import List Arith Bool Relations.
From SV Require Import Base.Base IR.State Hier.Paths.
Import ListNotations.

(* occurrences of wires / pins in the design elaborated below the root instance t *)
Definition hwire_occ (s : state) (t : id) (h : href) : Prop :=
  exists w c x p, h = w :: c :: x :: p /\ is_rpath s t (x :: p) /\
                  In c (cables_of s x) /\ In w (kids s RWires c).
Definition hpin_occ (s : state) (t : id) (h : href) : Prop :=
  exists i q x p, h = i :: q :: x :: p /\ is_rpath s t (x :: p) /\
                  In q (ports_of s x) /\ In i (kids s RPins q).

(* one crossing of an instance port boundary: in the parent (at instance path hinst) the instance
   pin (n, i) sits on wire w; inside n, one level down, the port pin i sits on wire w' *)
Inductive hlink (s : state) : href -> href -> Prop :=
| hlink_intro n i hinst w c w' c' :
    In (POut n i) (wpins s w) -> par s RWires w = Some c ->
    ipwire s i = Some w' -> par s RWires w' = Some c' ->
    hlink s (w :: c :: hinst) (w' :: c' :: n :: hinst).

(* electrically connected = the least equivalence containing the crossings between wire
   occurrences of the design below t. (When the top instance is not itself a child, a crossing that
   starts or ends at an occurrence has both ends in the design - Proofs/HierTrace.v,
   hlink_occ_standalone - so the restriction only matters for a top instance that is also a wired
   child of some definition outside the design: that outer wire is not part of the design.) *)
Definition hlink_occ (s : state) (t : id) (b b' : href) : Prop :=
  hwire_occ s t b /\ hwire_occ s t b' /\ hlink s b b'.

Definition conn (s : state) (t : id) : href -> href -> Prop :=
  clos_refl_sym_trans href (hlink_occ s t).

(* pins and wires point at each other (the pin-wire half of C01, the outer-pin half of C02), and a
   wire only touches port pins of its own definition and pins of that definition's children *)
Record WFc (s : state) : Prop := mkWFc {
  wc_in : forall i w, In (PIn i) (wpins s w) <-> ipwire s i = Some w;
  wc_out : forall n i w, In (POut n i) (wpins s w) <-> assoc i (ipins s n) = Some (Some w);
  wc_local_in : forall i w c, In (PIn i) (wpins s w) -> par s RWires w = Some c ->
    exists d q, par s RCables c = Some d /\ par s RPins i = Some q /\ par s RPorts q = Some d;
  wc_local_out : forall n i w c, In (POut n i) (wpins s w) -> par s RWires w = Some c ->
    exists d q d', par s RCables c = Some d /\ par s RChildren n = Some d /\
                   par s RPins i = Some q /\ par s RPorts q = Some d' /\ iref s n = Some d'
}.

(* boolean counterpart on allocated ids, evaluated by the driver on every generated netlist *)
Definition wfc_wire_b (s : state) (w : id) : bool :=
  forallb (fun p =>
    match p with
    | PIn i =>
        opt_id_eqb (ipwire s i) (Some w) &&
        match par s RWires w with
        | None => true
        | Some c => match par s RCables c, par s RPins i with
                    | Some d, Some q => opt_id_eqb (par s RPorts q) (Some d)
                    | _, _ => false
                    end
        end
    | POut n i =>
        match assoc i (ipins s n) with Some (Some w') => Nat.eqb w' w | _ => false end &&
        match par s RWires w with
        | None => true
        | Some c => match par s RCables c, par s RPins i with
                    | Some d, Some q =>
                        opt_id_eqb (par s RChildren n) (Some d) &&
                        match par s RPorts q with
                        | Some d' => opt_id_eqb (iref s n) (Some d')
                        | None => false
                        end
                    | _, _ => false
                    end
        end
    | PDet => false
    end) (wpins s w).

Definition wfc_b (s : state) : bool :=
  forallb (wfc_wire_b s) (all_ids s) &&
  forallb (fun i => match ipwire s i with Some w => pin_memb (PIn i) (wpins s w) | None => true end) (all_ids s) &&
  forallb (fun n => forallb (fun iw => match snd iw with
                                       | Some w => pin_memb (POut n (fst iw)) (wpins s w)
                                       | None => true
                                       end) (ipins s n)) (all_ids s).

(* the top instance is not itself a child (standalone top) *)
Definition top_standalone_b (s : state) (n : id) : bool :=
  match top s n with
  | Some t => match par s RChildren t with None => true | Some _ => false end
  | None => true
  end.
