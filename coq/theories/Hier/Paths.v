(* Hierarchical references as values, and their specification (C11).

   A Python HRef is a linked node (item, parent): the item it refers to and the reference of the
   enclosing level; the root node has parent None and refers to the top instance. The model uses
   the value of that chain, LEAF FIRST:   item :: parent item :: ... :: [top instance]
   (HRef.from_parent_and_item (parent, item)  =  item :: parent). The driver prints references
   root first (instance path from the top instance down, then port/cable, then pin/wire).
   Value equality replaces the flyweight identity of the implementation.

   No proofs in this file. *)
From Coq Require Import List Arith Bool.
From SV Require Import Base.Base IR.State.
Import ListNotations.

Definition href := list id.

Fixpoint href_eqb (a b : href) : bool :=
  match a, b with
  | [], [] => true
  | x :: a', y :: b' => Nat.eqb x y && href_eqb a' b'
  | _, _ => false
  end.

Fixpoint href_mem (h : href) (l : list href) : bool :=
  match l with [] => false | k :: l' => href_eqb h k || href_mem h l' end.

(* append the elements of [b] that are not yet present (Python: `if x not in seen: seen.add(x); yield x`) *)
Fixpoint href_union (a b : list href) : list href :=
  match b with
  | [] => a
  | h :: b' => if href_mem h a then href_union a b' else href_union (a ++ [h]) b'
  end.

(* ---- what an instance shows one level down (read downwards: Instance.reference, then the
        definition's children / ports / cables) ---- *)
Definition sub (s : state) (x : id) : list id :=
  match iref s x with Some d => kids s RChildren d | None => [] end.
Definition ports_of (s : state) (x : id) : list id :=
  match iref s x with Some d => kids s RPorts d | None => [] end.
Definition cables_of (s : state) (x : id) : list id :=
  match iref s x with Some d => kids s RCables d | None => [] end.

(* c is a child instance of (the definition referenced by) x *)
Definition child (s : state) (c x : id) : Prop := In c (sub s x).

(* the netlist whose library holds the definition referenced by t names t as its top instance
   (HRef.is_valid, root case: item.reference.library.netlist.top_instance == item) *)
Definition root_netlist (s : state) (t : id) : option id :=
  match iref s t with
  | Some d => match par s RDefs d with
              | Some l => par s RLibs l
              | None => None
              end
  | None => None
  end.

Definition is_root (s : state) (t : id) : Prop :=
  exists n, root_netlist s t = Some n /\ top s n = Some t.

(* instance paths below t: t itself, and any path extended by a child of its last instance *)
Inductive is_rpath (s : state) (t : id) : href -> Prop :=
| rp_top : is_rpath s t [t]
| rp_child c x p : is_rpath s t (x :: p) -> child s c x -> is_rpath s t (c :: x :: p).

(* "is_path s top p": p starts at the top instance; each next instance is a child of the previous
   instance's reference definition *)
Definition is_path (s : state) (t : id) (p : href) : Prop := is_root s t /\ is_rpath s t p.

(* the occurrences of the elaborated design: instance paths, and per path the ports, pins, cables
   and wires of the definition of its last instance *)
Inductive is_href (s : state) : href -> Prop :=
| hr_inst t p : is_path s t p -> is_href s p
| hr_port t x p q : is_path s t (x :: p) -> In q (ports_of s x) -> is_href s (q :: x :: p)
| hr_pin t x p q i : is_path s t (x :: p) -> In q (ports_of s x) -> In i (kids s RPins q) ->
                     is_href s (i :: q :: x :: p)
| hr_cable t x p c : is_path s t (x :: p) -> In c (cables_of s x) -> is_href s (c :: x :: p)
| hr_wire t x p c w : is_path s t (x :: p) -> In c (cables_of s x) -> In w (kids s RWires c) ->
                      is_href s (w :: c :: x :: p).

(* occurrences of an element: the references that end in it *)
Definition occ (s : state) (e : id) (h : href) : Prop := is_href s h /\ hd_error h = Some e.

(* ---- the same notion read UPWARDS through the back pointers, which is what HRef.is_valid reads
        (item.parent / item.definition / item.cable / item.port and Definition.references).
        It coincides with [is_href] when containers and back pointers agree (Inv1a, Inv2a) and
        ids are well-kinded; in an arbitrary heap it is the meaning of "valid". ---- *)
Inductive is_href_up (s : state) : href -> Prop :=
| up_root t : kind_of s t = Some KInstance -> is_root s t -> is_href_up s [t]
| up_child c x p d : kind_of s c = Some KInstance -> par s RChildren c = Some d ->
                     In x (drefs s d) -> is_href_up s (x :: p) -> is_href_up s (c :: x :: p)
| up_port q x p d : kind_of s q = Some KPort -> par s RPorts q = Some d ->
                    In x (drefs s d) -> is_href_up s (x :: p) -> is_href_up s (q :: x :: p)
| up_cable c x p d : kind_of s c = Some KCable -> par s RCables c = Some d ->
                     In x (drefs s d) -> is_href_up s (x :: p) -> is_href_up s (c :: x :: p)
| up_pin i q p : kind_of s i = Some KPin -> par s RPins i = Some q ->
                 is_href_up s (q :: p) -> is_href_up s (i :: q :: p)
| up_wire w c p : kind_of s w = Some KWire -> par s RWires w = Some c ->
                  is_href_up s (c :: p) -> is_href_up s (w :: c :: p).

(* ---- well-formedness used by the enumeration theorems ---- *)

(* ids carry one class, containers hold elements of the right class, ids are allocated *)
Record WFk (s : state) : Prop := mkWFk {
  wk_kids : forall r p c, In c (kids s r p) -> kind_of s c = Some (rel_child r);
  wk_parent : forall r p c, In c (kids s r p) -> kind_of s p = Some (rel_parent r);
  wk_iref : forall x d, iref s x = Some d -> kind_of s x = Some KInstance;
  wk_range_kids : forall r p c, In c (kids s r p) -> c < next s;
  wk_range_iref : forall x d, iref s x = Some d -> x < next s
}.

(* the instantiation graph has no cycle: "is a child of" is well founded on instances
   (equivalently: no definition (transitively) instantiates itself) *)
Definition acyclic (s : state) : Prop := forall x, Acc (child s) x.

(* boolean counterparts, evaluated by the driver on every generated netlist (so that the
   hypotheses of the theorems are checked on the very inputs of the correspondence run) *)
Definition all_ids (s : state) : list id := seq 0 (next s).
Definition all_rels : list rel := [RLibs; RDefs; RPorts; RCables; RChildren; RPins; RWires].

Definition kind_is (s : state) (x : id) (k : kind) : bool :=
  match kind_of s x with Some k' => kind_eqb k' k | None => false end.

Definition opt_id_eqb (a b : option id) : bool :=
  match a, b with Some x, Some y => Nat.eqb x y | None, None => true | _, _ => false end.

(* Inv1a, restricted to allocated ids *)
Definition inv1a_b (s : state) : bool :=
  forallb (fun r =>
    forallb (fun p => nodupb (kids s r p) &&
                      forallb (fun c => opt_id_eqb (par s r c) (Some p)) (kids s r p)) (all_ids s) &&
    forallb (fun c => match par s r c with Some p => memb c (kids s r p) | None => true end) (all_ids s))
  all_rels.

Definition inv2a_b (s : state) : bool :=
  forallb (fun d => nodupb (drefs s d) &&
                    forallb (fun n => opt_id_eqb (iref s n) (Some d)) (drefs s d)) (all_ids s) &&
  forallb (fun n => match iref s n with Some d => memb n (drefs s d) | None => true end) (all_ids s).

Definition wfk_b (s : state) : bool :=
  forallb (fun r => forallb (fun p =>
    forallb (fun c => kind_is s c (rel_child r) && kind_is s p (rel_parent r) && (c <? next s))
            (kids s r p)) (all_ids s)) all_rels &&
  forallb (fun x => match iref s x with Some _ => kind_is s x KInstance | None => true end) (all_ids s).

(* depth-bounded search for a cycle below x: Some true = acyclic below x, None = out of fuel *)
Fixpoint acyclic_from (s : state) (fuel : nat) (x : id) : bool :=
  match fuel with
  | O => false
  | S f => forallb (acyclic_from s f) (sub s x)
  end.

Definition acyclic_b (s : state) : bool :=
  forallb (acyclic_from s (S (next s))) (all_ids s).
