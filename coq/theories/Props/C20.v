(* C20 - The netlist comparer accepts equal netlists and rejects structural differences.
   Property theorems only (statements proved in Proofs/Cmp*.v about the model Cmp/Comparer.v of
   spydrnet/compare/compare_netlists.py; cmp_run a b = outcome of Comparer(a, b).compare():
   Accept = returns, Reject = AssertionError, other constructors = other exceptions;
   compare a b = true iff it returns).
   wf_named a : all libraries, definitions, ports, cables and instances are named, sibling names
                are unique and contain no * or ?, every port has a pin, every pin on a wire belongs
                to a port or to a child with a reference, property dictionaries have unique keys,
                assignment-style instance names have their four "_" separated fields.
   no_asg a   : no instance is named SDN_Assignment_...                                        *)
From Coq Require Import List.
From SV Require Import Base.Base Cmp.Comparer Cmp.Diff Proofs.CmpWitness Proofs.CmpProps.

(* ---- accepts: a named netlist compared with itself / a structurally equal copy ---- *)
Theorem C20_accepts : forall a, wf_named a -> compare a a = true.
Proof. exact accepts_self. Qed.
Print Assumptions C20_accepts.

Theorem C20_accepts_copy : forall a b, wf_named a -> b = a -> compare a b = true.
Proof. exact accepts_copy. Qed.
Print Assumptions C20_accepts_copy.

Example C20_accepts_ex : wf_named w_base /\ no_asg w_base /\ compare w_base w_base = true.
Proof. exact accepts_ex. Qed.
Print Assumptions C20_accepts_ex.

(* ---- rejects: one theorem per mutation class; the comparer raises AssertionError ---- *)
(* a port's direction differs *)
Theorem C20_rejects_port_dir : forall a b, wf_named a -> no_asg a -> nv_diff MPortDir a b -> cmp_run a b = Reject.
Proof. exact rejects_port_dir. Qed.
Print Assumptions C20_rejects_port_dir.
Example C20_rejects_port_dir_ex : exists a b, wf_named a /\ no_asg a /\ nv_diff MPortDir a b.
Proof. exact rejects_port_dir_ex. Qed.

(* a port's width differs *)
Theorem C20_rejects_port_width : forall a b, wf_named a -> no_asg a -> nv_diff MPortWidth a b -> cmp_run a b = Reject.
Proof. exact rejects_port_width. Qed.
Print Assumptions C20_rejects_port_width.
Example C20_rejects_port_width_ex : exists a b, wf_named a /\ no_asg a /\ nv_diff MPortWidth a b.
Proof. exact rejects_port_width_ex. Qed.

(* a port's array-ness differs *)
Theorem C20_rejects_port_array : forall a b, wf_named a -> no_asg a -> nv_diff MPortArray a b -> cmp_run a b = Reject.
Proof. exact rejects_port_array. Qed.
Print Assumptions C20_rejects_port_array.
Example C20_rejects_port_array_ex : exists a b, wf_named a /\ no_asg a /\ nv_diff MPortArray a b.
Proof. exact rejects_port_array_ex. Qed.

(* a cable's width differs *)
Theorem C20_rejects_cable_width : forall a b, wf_named a -> no_asg a -> nv_diff MCableWidth a b -> cmp_run a b = Reject.
Proof. exact rejects_cable_width. Qed.
Print Assumptions C20_rejects_cable_width.
Example C20_rejects_cable_width_ex : exists a b, wf_named a /\ no_asg a /\ nv_diff MCableWidth a b.
Proof. exact rejects_cable_width_ex. Qed.

(* a connection moved to another instance *)
Theorem C20_rejects_conn_inst : forall a b, wf_named a -> no_asg a -> nv_diff MConnInst a b -> cmp_run a b = Reject.
Proof. exact rejects_conn_inst. Qed.
Print Assumptions C20_rejects_conn_inst.
Example C20_rejects_conn_inst_ex : exists a b, wf_named a /\ no_asg a /\ nv_diff MConnInst a b.
Proof. exact rejects_conn_inst_ex. Qed.

(* a connection moved to another port *)
Theorem C20_rejects_conn_port : forall a b, wf_named a -> no_asg a -> nv_diff MConnPort a b -> cmp_run a b = Reject.
Proof. exact rejects_conn_port. Qed.
Print Assumptions C20_rejects_conn_port.
Example C20_rejects_conn_port_ex : exists a b, wf_named a /\ no_asg a /\ nv_diff MConnPort a b.
Proof. exact rejects_conn_port_ex. Qed.

(* a connection moved to another bit *)
Theorem C20_rejects_conn_bit : forall a b, wf_named a -> no_asg a -> nv_diff MConnBit a b -> cmp_run a b = Reject.
Proof. exact rejects_conn_bit. Qed.
Print Assumptions C20_rejects_conn_bit.
Example C20_rejects_conn_bit_ex : exists a b, wf_named a /\ no_asg a /\ nv_diff MConnBit a b.
Proof. exact rejects_conn_bit_ex. Qed.

(* an instance (or the top instance) re-pointed to another definition *)
Theorem C20_rejects_inst_ref : forall a b, wf_named a -> no_asg a -> nv_diff MInstRef a b -> cmp_run a b = Reject.
Proof. exact rejects_inst_ref. Qed.
Print Assumptions C20_rejects_inst_ref.
Example C20_rejects_inst_ref_ex : exists a b, wf_named a /\ no_asg a /\ nv_diff MInstRef a b.
Proof. exact rejects_inst_ref_ex. Qed.

(* the value of one property of an instance differs *)
Theorem C20_rejects_inst_prop : forall a b, wf_named a -> no_asg a -> nv_diff MInstProp a b -> cmp_run a b = Reject.
Proof. exact rejects_inst_prop. Qed.
Print Assumptions C20_rejects_inst_prop.
Example C20_rejects_inst_prop_ex : exists a b, wf_named a /\ no_asg a /\ nv_diff MInstProp a b.
Proof. exact rejects_inst_prop_ex. Qed.

(* the copy has one more library *)
Theorem C20_rejects_lib_add : forall a b, wf_named a -> no_asg a -> nv_diff MLibAdd a b -> cmp_run a b = Reject.
Proof. exact rejects_lib_add. Qed.
Print Assumptions C20_rejects_lib_add.
Example C20_rejects_lib_add_ex : exists a b, wf_named a /\ no_asg a /\ nv_diff MLibAdd a b.
Proof. exact rejects_lib_add_ex. Qed.

(* the copy lacks one library *)
Theorem C20_rejects_lib_drop : forall a b, wf_named a -> no_asg a -> nv_diff MLibDrop a b -> cmp_run a b = Reject.
Proof. exact rejects_lib_drop. Qed.
Print Assumptions C20_rejects_lib_drop.
Example C20_rejects_lib_drop_ex : exists a b, wf_named a /\ no_asg a /\ nv_diff MLibDrop a b.
Proof. exact rejects_lib_drop_ex. Qed.

(* the copy has one more definition *)
Theorem C20_rejects_def_add : forall a b, wf_named a -> no_asg a -> nv_diff MDefAdd a b -> cmp_run a b = Reject.
Proof. exact rejects_def_add. Qed.
Print Assumptions C20_rejects_def_add.
Example C20_rejects_def_add_ex : exists a b, wf_named a /\ no_asg a /\ nv_diff MDefAdd a b.
Proof. exact rejects_def_add_ex. Qed.

(* the copy lacks one definition *)
Theorem C20_rejects_def_drop : forall a b, wf_named a -> no_asg a -> nv_diff MDefDrop a b -> cmp_run a b = Reject.
Proof. exact rejects_def_drop. Qed.
Print Assumptions C20_rejects_def_drop.
Example C20_rejects_def_drop_ex : exists a b, wf_named a /\ no_asg a /\ nv_diff MDefDrop a b.
Proof. exact rejects_def_drop_ex. Qed.

(* the copy has one more port *)
Theorem C20_rejects_port_add : forall a b, wf_named a -> no_asg a -> nv_diff MPortAdd a b -> cmp_run a b = Reject.
Proof. exact rejects_port_add. Qed.
Print Assumptions C20_rejects_port_add.
Example C20_rejects_port_add_ex : exists a b, wf_named a /\ no_asg a /\ nv_diff MPortAdd a b.
Proof. exact rejects_port_add_ex. Qed.

(* the copy lacks one port *)
Theorem C20_rejects_port_drop : forall a b, wf_named a -> no_asg a -> nv_diff MPortDrop a b -> cmp_run a b = Reject.
Proof. exact rejects_port_drop. Qed.
Print Assumptions C20_rejects_port_drop.
Example C20_rejects_port_drop_ex : exists a b, wf_named a /\ no_asg a /\ nv_diff MPortDrop a b.
Proof. exact rejects_port_drop_ex. Qed.

(* the copy has one more cable *)
Theorem C20_rejects_cable_add : forall a b, wf_named a -> no_asg a -> nv_diff MCableAdd a b -> cmp_run a b = Reject.
Proof. exact rejects_cable_add. Qed.
Print Assumptions C20_rejects_cable_add.
Example C20_rejects_cable_add_ex : exists a b, wf_named a /\ no_asg a /\ nv_diff MCableAdd a b.
Proof. exact rejects_cable_add_ex. Qed.

(* the copy lacks one cable *)
Theorem C20_rejects_cable_drop : forall a b, wf_named a -> no_asg a -> nv_diff MCableDrop a b -> cmp_run a b = Reject.
Proof. exact rejects_cable_drop. Qed.
Print Assumptions C20_rejects_cable_drop.
Example C20_rejects_cable_drop_ex : exists a b, wf_named a /\ no_asg a /\ nv_diff MCableDrop a b.
Proof. exact rejects_cable_drop_ex. Qed.

(* the copy has one more instance *)
Theorem C20_rejects_inst_add : forall a b, wf_named a -> no_asg a -> nv_diff MInstAdd a b -> cmp_run a b = Reject.
Proof. exact rejects_inst_add. Qed.
Print Assumptions C20_rejects_inst_add.
Example C20_rejects_inst_add_ex : exists a b, wf_named a /\ no_asg a /\ nv_diff MInstAdd a b.
Proof. exact rejects_inst_add_ex. Qed.

(* the copy lacks one instance *)
Theorem C20_rejects_inst_drop : forall a b, wf_named a -> no_asg a -> nv_diff MInstDrop a b -> cmp_run a b = Reject.
Proof. exact rejects_inst_drop. Qed.
Print Assumptions C20_rejects_inst_drop.
Example C20_rejects_inst_drop_ex : exists a b, wf_named a /\ no_asg a /\ nv_diff MInstDrop a b.
Proof. exact rejects_inst_drop_ex. Qed.

(* all noticed classes *)
Theorem C20_rejects : forall a b, wf_named a -> no_asg a -> single_diff a b -> compare a b = false.
Proof. exact rejects_all. Qed.
Print Assumptions C20_rejects.

Theorem C20_rejects_by_assertion : forall a b m, wf_named a -> no_asg a -> noticed m = true -> nv_diff m a b ->
  cmp_run a b = Reject.
Proof. exact rejects_all_assertion. Qed.
Print Assumptions C20_rejects_by_assertion.

(* ---- the property at full strength (every class, no exclusion of assignment names) ---- *)
Definition C20_full : Prop :=
  forall a, wf_named a ->
    compare a a = true /\ forall m b, nv_diff m a b -> compare a b = false.

(* refuted: a property that only the copy has is not seen
   (witness corpus/cmp/c20-prop-new.json, replayed on the real Comparer on every run) *)
Theorem C20_refuted : ~ C20_full.
Proof. exact refuted_extra_property. Qed.
Print Assumptions C20_refuted.

Theorem C20_refuted_extra_property_entry :
  exists a b, wf_named a /\ no_asg a /\ nv_diff MPropAdded a b /\ compare a b = true.
Proof. exact refuted_extra_property_entry. Qed.
Print Assumptions C20_refuted_extra_property_entry.

(* the hypothesis no_asg of C20_rejects is needed: instances named SDN_Assignment_* are skipped,
   and between two of them only the width field of the name is compared
   (witnesses corpus/cmp/c20-asg-ref.json, c20-asg-moved.json) *)
Definition C20_full_noticed : Prop := forall a b, wf_named a -> single_diff a b -> compare a b = false.
Theorem C20_refuted_assignment_reference : ~ C20_full_noticed.
Proof. exact refuted_assignment_reference. Qed.
Print Assumptions C20_refuted_assignment_reference.

Theorem C20_refuted_assignment_moved : exists a b, wf_named a /\ nv_diff MConnInst a b /\ compare a b = true.
Proof. exact refuted_assignment_moved. Qed.
Print Assumptions C20_refuted_assignment_moved.

(* the hypothesis "named" is needed: a difference on an unnamed element is not seen
   (witness corpus/cmp/c20-unnamed-port-dir.json) *)
Theorem C20_refuted_unnamed : exists a b, nv_diff MPortDir a b /\ compare a b = true.
Proof. exact refuted_unnamed. Qed.
Print Assumptions C20_refuted_unnamed.

(* outside wf_named a netlist may fail against its own copy: sibling names with wildcard
   characters, a port without pins, an assignment-style name with fewer than four fields,
   a connected instance without a name (witnesses corpus/cmp/c20-wildcard-name.json,
   c20-zero-width-port.json, c20-asg-short.json, c20-unnamed-inst-connected.json) *)
Theorem C20_refuted_self_wildcard_names : exists a, cmp_run a a = Reject.
Proof. exact refuted_self_wildcard_names. Qed.
Theorem C20_refuted_self_zero_width_port : exists a, cmp_run a a = Reject /\ a <> w_wild.
Proof. exact refuted_self_zero_width_port. Qed.
Theorem C20_refuted_self_short_assignment_name : exists a, cmp_run a a = IndexErr.
Proof. exact refuted_self_short_assignment_name. Qed.
Theorem C20_refuted_self_unnamed_instance : exists a, cmp_run a a = AttrErr.
Proof. exact refuted_self_unnamed_instance. Qed.
Print Assumptions C20_refuted_self_unnamed_instance.

(* differences that raise, but not AssertionError: a property the copy lacks (KeyError), a
   renamed element (StopIteration) (witnesses c20-prop-dropped-key.json, c20-renamed-port.json) *)
Theorem C20_missing_property_is_keyerror : exists a b, wf_named a /\ no_asg a /\ cmp_run a b = KeyErr.
Proof. exact missing_property_is_keyerror. Qed.
Theorem C20_renamed_element_is_stopiteration : exists a b, wf_named a /\ no_asg a /\ cmp_run a b = StopIter.
Proof. exact renamed_element_is_stopiteration. Qed.
Print Assumptions C20_renamed_element_is_stopiteration.
