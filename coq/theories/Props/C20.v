(* C20 - The netlist comparer accepts equal netlists and rejects structural differences.
   Property theorems only (statements proved in Proofs/Cmp*.v about the model Cmp/Comparer.v of
   spydrnet/compare/compare_netlists.py; cmp_run a b = outcome of Comparer(a, b).compare():
   Accept = returns, Reject = AssertionError, other constructors = other exceptions;
   compare a b = true iff it returns).
   wf_named a : all libraries, definitions, ports, cables and instances are named, sibling names
                are unique (any characters, * ? [ ] included), every pin on a wire belongs to a
                port or to a child with a reference, property dictionaries have unique keys.
                (No longer required since the repairs 57b99ec / 4f7bd74 / f4be0be of /repo: names
                without * and ?, ports with at least one pin, four fields in SDN_Assignment_ names.)
   no_asg a   : no instance has an assignment name: SDN_Assignment_<x>_<width>... (prefix and at
                least four "_" separated fields; a shorter name is an ordinary name)            *)
From Coq Require Import List.
From SV Require Import Base.Base Cmp.Comparer Cmp.Diff Cmp.Equiv Proofs.CmpPinSet Proofs.CmpWitness Proofs.CmpProps
  Proofs.CmpSound Proofs.CmpComplete Proofs.CmpSoundExact Proofs.CmpAcceptAny.

(* ---- accepts: a named netlist compared with itself / a structurally equal copy ---- *)
Theorem C20_accepts : forall a, wf_named a -> compare a a = true.
Proof. exact accepts_self. Qed.
Print Assumptions C20_accepts.

Theorem C20_accepts_copy : forall a b, wf_named a -> b = a -> compare a b = true.
Proof. exact accepts_copy. Qed.
Print Assumptions C20_accepts_copy.

(* beyond the named netlists: EVERY netlist of the model is accepted against its own copy.
   wf_any a (Proofs/CmpAcceptAny.v): the names of the named siblings are pairwise different, every
   pin on a wire can be followed (pins of children without a name, of removed children, pins without
   a port included), property dictionaries have unique keys.  Unnamed elements, assignment names,
   any characters in names, ports without pins are all allowed.  (Was false before the repairs:
   C20_refuted_self_* .)  Checked on the implementation on every run: oracle equal-copy-any. *)
Theorem C20_accepts_any : forall a, wf_any a -> compare a a = true.
Proof. exact accepts_self_any. Qed.
Print Assumptions C20_accepts_any.
(* the named netlists of C20_accepts are a special case *)
Theorem C20_named_is_any : forall a, wf_named a -> wf_any a.
Proof. exact wf_named_any. Qed.
Print Assumptions C20_named_is_any.
Example C20_accepts_any_ex :
  wf_any w_noname /\ ~ wf_named w_noname /\ wf_any w_unnamed /\ wf_any w_asg2 /\ wf_any w_wild /\ wf_any w_zero.
Proof. exact accepts_any_ex. Qed.

Example C20_accepts_ex : wf_named w_base /\ no_asg w_base /\ compare w_base w_base = true.
Proof. exact accepts_ex. Qed.
Print Assumptions C20_accepts_ex.

(* ---- rejects: one theorem per mutation class; the comparer raises AssertionError ---- *)
(* a port's direction differs *)
Theorem C20_rejects_port_dir : forall a b, wf_named a -> no_asg a -> nv_diff MPortDir a b -> cmp_run a b = Reject.
Proof. exact rejects_port_dir. Qed.
Print Assumptions C20_rejects_port_dir.
Example C20_rejects_port_dir_ex : exists a b, wf_named a /\ no_asg a /\ nv_diff MPortDir a b.
Proof. exact rejects_port_dir_ex. Qed.

(* a port's width differs *)
Theorem C20_rejects_port_width : forall a b, wf_named a -> no_asg a -> nv_diff MPortWidth a b -> cmp_run a b = Reject.
Proof. exact rejects_port_width. Qed.
Print Assumptions C20_rejects_port_width.
Example C20_rejects_port_width_ex : exists a b, wf_named a /\ no_asg a /\ nv_diff MPortWidth a b.
Proof. exact rejects_port_width_ex. Qed.

(* a port's array-ness differs *)
Theorem C20_rejects_port_array : forall a b, wf_named a -> no_asg a -> nv_diff MPortArray a b -> cmp_run a b = Reject.
Proof. exact rejects_port_array. Qed.
Print Assumptions C20_rejects_port_array.
Example C20_rejects_port_array_ex : exists a b, wf_named a /\ no_asg a /\ nv_diff MPortArray a b.
Proof. exact rejects_port_array_ex. Qed.

(* a cable's width differs *)
Theorem C20_rejects_cable_width : forall a b, wf_named a -> no_asg a -> nv_diff MCableWidth a b -> cmp_run a b = Reject.
Proof. exact rejects_cable_width. Qed.
Print Assumptions C20_rejects_cable_width.
Example C20_rejects_cable_width_ex : exists a b, wf_named a /\ no_asg a /\ nv_diff MCableWidth a b.
Proof. exact rejects_cable_width_ex. Qed.

(* a connection moved to another instance *)
Theorem C20_rejects_conn_inst : forall a b, wf_named a -> no_asg a -> nv_diff MConnInst a b -> cmp_run a b = Reject.
Proof. exact rejects_conn_inst. Qed.
Print Assumptions C20_rejects_conn_inst.
Example C20_rejects_conn_inst_ex : exists a b, wf_named a /\ no_asg a /\ nv_diff MConnInst a b.
Proof. exact rejects_conn_inst_ex. Qed.

(* a connection moved to another port *)
Theorem C20_rejects_conn_port : forall a b, wf_named a -> no_asg a -> nv_diff MConnPort a b -> cmp_run a b = Reject.
Proof. exact rejects_conn_port. Qed.
Print Assumptions C20_rejects_conn_port.
Example C20_rejects_conn_port_ex : exists a b, wf_named a /\ no_asg a /\ nv_diff MConnPort a b.
Proof. exact rejects_conn_port_ex. Qed.

(* a connection moved to another bit *)
Theorem C20_rejects_conn_bit : forall a b, wf_named a -> no_asg a -> nv_diff MConnBit a b -> cmp_run a b = Reject.
Proof. exact rejects_conn_bit. Qed.
Print Assumptions C20_rejects_conn_bit.
Example C20_rejects_conn_bit_ex : exists a b, wf_named a /\ no_asg a /\ nv_diff MConnBit a b.
Proof. exact rejects_conn_bit_ex. Qed.

(* an instance (or the top instance) re-pointed to another definition *)
Theorem C20_rejects_inst_ref : forall a b, wf_named a -> no_asg a -> nv_diff MInstRef a b -> cmp_run a b = Reject.
Proof. exact rejects_inst_ref. Qed.
Print Assumptions C20_rejects_inst_ref.
Example C20_rejects_inst_ref_ex : exists a b, wf_named a /\ no_asg a /\ nv_diff MInstRef a b.
Proof. exact rejects_inst_ref_ex. Qed.

(* the value of one property of an instance differs *)
Theorem C20_rejects_inst_prop : forall a b, wf_named a -> no_asg a -> nv_diff MInstProp a b -> cmp_run a b = Reject.
Proof. exact rejects_inst_prop. Qed.
Print Assumptions C20_rejects_inst_prop.
Example C20_rejects_inst_prop_ex : exists a b, wf_named a /\ no_asg a /\ nv_diff MInstProp a b.
Proof. exact rejects_inst_prop_ex. Qed.

(* the copy has one more library *)
Theorem C20_rejects_lib_add : forall a b, wf_named a -> no_asg a -> nv_diff MLibAdd a b -> cmp_run a b = Reject.
Proof. exact rejects_lib_add. Qed.
Print Assumptions C20_rejects_lib_add.
Example C20_rejects_lib_add_ex : exists a b, wf_named a /\ no_asg a /\ nv_diff MLibAdd a b.
Proof. exact rejects_lib_add_ex. Qed.

(* the copy lacks one library *)
Theorem C20_rejects_lib_drop : forall a b, wf_named a -> no_asg a -> nv_diff MLibDrop a b -> cmp_run a b = Reject.
Proof. exact rejects_lib_drop. Qed.
Print Assumptions C20_rejects_lib_drop.
Example C20_rejects_lib_drop_ex : exists a b, wf_named a /\ no_asg a /\ nv_diff MLibDrop a b.
Proof. exact rejects_lib_drop_ex. Qed.

(* the copy has one more definition *)
Theorem C20_rejects_def_add : forall a b, wf_named a -> no_asg a -> nv_diff MDefAdd a b -> cmp_run a b = Reject.
Proof. exact rejects_def_add. Qed.
Print Assumptions C20_rejects_def_add.
Example C20_rejects_def_add_ex : exists a b, wf_named a /\ no_asg a /\ nv_diff MDefAdd a b.
Proof. exact rejects_def_add_ex. Qed.

(* the copy lacks one definition *)
Theorem C20_rejects_def_drop : forall a b, wf_named a -> no_asg a -> nv_diff MDefDrop a b -> cmp_run a b = Reject.
Proof. exact rejects_def_drop. Qed.
Print Assumptions C20_rejects_def_drop.
Example C20_rejects_def_drop_ex : exists a b, wf_named a /\ no_asg a /\ nv_diff MDefDrop a b.
Proof. exact rejects_def_drop_ex. Qed.

(* the copy has one more port *)
Theorem C20_rejects_port_add : forall a b, wf_named a -> no_asg a -> nv_diff MPortAdd a b -> cmp_run a b = Reject.
Proof. exact rejects_port_add. Qed.
Print Assumptions C20_rejects_port_add.
Example C20_rejects_port_add_ex : exists a b, wf_named a /\ no_asg a /\ nv_diff MPortAdd a b.
Proof. exact rejects_port_add_ex. Qed.

(* the copy lacks one port *)
Theorem C20_rejects_port_drop : forall a b, wf_named a -> no_asg a -> nv_diff MPortDrop a b -> cmp_run a b = Reject.
Proof. exact rejects_port_drop. Qed.
Print Assumptions C20_rejects_port_drop.
Example C20_rejects_port_drop_ex : exists a b, wf_named a /\ no_asg a /\ nv_diff MPortDrop a b.
Proof. exact rejects_port_drop_ex. Qed.

(* the copy has one more cable *)
Theorem C20_rejects_cable_add : forall a b, wf_named a -> no_asg a -> nv_diff MCableAdd a b -> cmp_run a b = Reject.
Proof. exact rejects_cable_add. Qed.
Print Assumptions C20_rejects_cable_add.
Example C20_rejects_cable_add_ex : exists a b, wf_named a /\ no_asg a /\ nv_diff MCableAdd a b.
Proof. exact rejects_cable_add_ex. Qed.

(* the copy lacks one cable *)
Theorem C20_rejects_cable_drop : forall a b, wf_named a -> no_asg a -> nv_diff MCableDrop a b -> cmp_run a b = Reject.
Proof. exact rejects_cable_drop. Qed.
Print Assumptions C20_rejects_cable_drop.
Example C20_rejects_cable_drop_ex : exists a b, wf_named a /\ no_asg a /\ nv_diff MCableDrop a b.
Proof. exact rejects_cable_drop_ex. Qed.

(* the copy has one more instance *)
Theorem C20_rejects_inst_add : forall a b, wf_named a -> no_asg a -> nv_diff MInstAdd a b -> cmp_run a b = Reject.
Proof. exact rejects_inst_add. Qed.
Print Assumptions C20_rejects_inst_add.
Example C20_rejects_inst_add_ex : exists a b, wf_named a /\ no_asg a /\ nv_diff MInstAdd a b.
Proof. exact rejects_inst_add_ex. Qed.

(* the copy lacks one instance *)
Theorem C20_rejects_inst_drop : forall a b, wf_named a -> no_asg a -> nv_diff MInstDrop a b -> cmp_run a b = Reject.
Proof. exact rejects_inst_drop. Qed.
Print Assumptions C20_rejects_inst_drop.
Example C20_rejects_inst_drop_ex : exists a b, wf_named a /\ no_asg a /\ nv_diff MInstDrop a b.
Proof. exact rejects_inst_drop_ex. Qed.

(* a property that only the copy has: an EDIF.properties list on the copy only, one more entry,
   one more key in an entry (was refuted - C20_refuted, finding C20-extra-properties - while
   compare_instances walked only the original's properties) *)
Theorem C20_rejects_prop_added : forall a b, wf_named a -> no_asg a -> nv_diff MPropAdded a b -> cmp_run a b = Reject.
Proof. exact rejects_prop_added. Qed.
Print Assumptions C20_rejects_prop_added.
Example C20_rejects_prop_added_ex : exists a b, wf_named a /\ no_asg a /\ nv_diff MPropAdded a b.
Proof. exact rejects_prop_added_ex. Qed.

(* all classes (single_diff a b: one difference of any class) *)
Theorem C20_rejects : forall a b, wf_named a -> no_asg a -> single_diff a b -> compare a b = false.
Proof. exact rejects_all. Qed.
Print Assumptions C20_rejects.

Theorem C20_rejects_by_assertion : forall a b m, wf_named a -> no_asg a -> nv_diff m a b ->
  cmp_run a b = Reject.
Proof. exact rejects_all_assertion. Qed.
Print Assumptions C20_rejects_by_assertion.

(* ==== the general characterisation: SOUNDNESS and COMPLETENESS of the comparer ====
   Cmp/Equiv.v defines structural equivalence without reference to the comparer:
     nv_equiv a b     same netlist name; same top instance; the libraries of b are a rearrangement
                      of libraries related one by one to those of a: same name, and their
                      definitions again matched as a set: same name, ports matched as a set (name,
                      direction, array-ness, width), cables matched as a set (name, same number of
                      wires, the wire at each index carries the same pins - a permutation of the
                      same pin designators (instance name, port name, index)), instances matched as
                      a set (name, reference = definition name + library name, the same properties
                      (entry, key) with ==-equal values); original identifiers equal throughout
     nv_equiv_ord a b the same with the pins of every wire listed in the same order
     nv_covered_set a b  like nv_equiv, but the properties of a only have to occur in b
     nv_covered a b      like nv_equiv_ord, but the properties of a only have to occur in b
   "the same properties" = EDIF.properties absent on both sides, or two lists with the same number
   of entries whose entries at each index have the same keys with ==-equal values.
   Since the repair of compare_cables (the pins of two wires are matched by key) and of
   compare_instances (the two property lists must have the same length and the same keys entry
   by entry; an EDIF.properties list on one side only is a difference) the comparer decides
   nv_equiv: neither the order of siblings nor the order in which the pins of a wire are listed
   matters, and nothing else is overlooked.                                                    *)

(* SOUNDNESS: no structural difference is ever accepted.  Nothing is assumed about b.
   (Had the side condition no_extra_props a b - finding C20-extra-properties - before the
   repair of compare_instances.) *)
Theorem C20_sound : forall a b, wf_named a -> no_asg a -> compare a b = true -> nv_equiv a b.
Proof. exact compare_sound. Qed.
Print Assumptions C20_sound.

(* the weaker conclusion that held before: a corollary *)
Theorem C20_sound_covered : forall a b, wf_named a -> no_asg a -> compare a b = true -> nv_covered_set a b.
Proof. exact compare_sound_covered. Qed.
Print Assumptions C20_sound_covered.

(* the hypotheses are satisfiable by two different netlists (siblings in another order at every
   level; corpus/cmp/c20-perm.json, accepted by the real Comparer on every run) *)
Example C20_sound_ex :
  exists a b, a <> b /\ wf_named a /\ no_asg a /\ compare a b = true.
Proof. exact sound_ex. Qed.
Print Assumptions C20_sound_ex.

(* acceptance is symmetric (it was not: a netlist with fewer properties was accepted against one
   with more, not the other way round) *)
Theorem C20_symmetric : forall a b, wf_named a -> wf_named b -> no_asg a -> no_asg b ->
  compare a b = true -> compare b a = true.
Proof. exact compare_symmetric. Qed.
Print Assumptions C20_symmetric.
Example C20_symmetric_ex :
  exists a b, a <> b /\ wf_named a /\ wf_named b /\ no_asg a /\ no_asg b /\ compare a b = true.
Proof. exact reverse_ex. Qed.

(* contrapositive: ANY difference (one, two, many at once) is refused *)
Theorem C20_rejects_every_difference : forall a b, wf_named a -> no_asg a -> ~ nv_equiv a b ->
  compare a b = false.
Proof. exact not_equiv_rejected. Qed.
Print Assumptions C20_rejects_every_difference.
Example C20_rejects_every_difference_ex :
  exists a b, wf_named a /\ no_asg a /\ ~ nv_equiv a b.
Proof. exact structural_difference_ex. Qed.

Theorem C20_rejects_every_uncovered_difference : forall a b, wf_named a -> no_asg a -> ~ nv_covered_set a b ->
  compare a b = false.
Proof. exact not_covered_rejected. Qed.
Print Assumptions C20_rejects_every_uncovered_difference.

(* two simultaneous differences (corpus/cmp/c20-double.json) *)
Example C20_two_differences_ex : exists a b, wf_named a /\ wf_named b /\ no_asg a /\ ~ nv_equiv a b.
Proof. exact double_ex. Qed.

(* COMPLETENESS: every equivalent netlist is accepted, whatever the order of its siblings and
   whatever the order in which the pins of its wires are listed.  Generalises C20_accepts (b = a).
   (Was refuted - C20_complete_for_pin_sets_refuted, finding C20-pin-order-sensitive - while
   compare_cables zipped the two pin lists.) *)
Definition C20_complete_for_pin_sets : Prop :=
  forall a b, wf_named a -> wf_named b -> no_asg a -> nv_equiv a b -> compare a b = true.

Theorem C20_complete_for_pin_sets_holds : C20_complete_for_pin_sets.
Proof. exact complete_for_pin_sets_holds. Qed.
Print Assumptions C20_complete_for_pin_sets_holds.

Example C20_complete_for_pin_sets_ex : exists a b, a <> b /\ wf_named a /\ wf_named b /\ no_asg a /\ nv_equiv a b.
Proof. exact complete_ex. Qed.
Print Assumptions C20_complete_for_pin_sets_ex.

(* the witness of the former refutation (corpus/cmp/c20-pin-order.json: the two pins of net k[0]
   connected in the other order), replayed on the real Comparer on every run: equivalent, not
   listed in the same order, accepted in both directions *)
Example C20_pin_order_accepted :
  exists a b, wf_named a /\ wf_named b /\ no_asg a /\ no_asg b /\ nv_equiv a b /\ ~ nv_equiv_ord a b /\
              cmp_run a b = Accept /\ cmp_run b a = Accept.
Proof. exact pin_order_witness. Qed.
Print Assumptions C20_pin_order_accepted.

(* nothing is lost by the repair: two pin lists that the comparison position by position accepts
   (zip_pins, Proofs/CmpPinSet.v: what compare_cables did before - pin k of the first wire against
   pin k of the second) are accepted by the comparison by key; no hypothesis on the netlists *)
Theorem C20_positional_acceptance_kept : forall xo xc io ic wo wc, length wo = length wc ->
  zip_pins xo xc io ic wo wc = Accept -> cmp_wire xo xc io ic wo wc = Accept.
Proof. exact zip_accept_still_accepted. Qed.
Print Assumptions C20_positional_acceptance_kept.
Example C20_positional_acceptance_kept_ex :
  exists xo xc io ic wo wc, wo <> nil /\ length wo = length wc /\ zip_pins xo xc io ic wo wc = Accept.
Proof. exact zip_accept_ex. Qed.

(* with the pins listed in the same order, assignment-style instance names are allowed too *)
Theorem C20_complete : forall a b, wf_named a -> wf_named b -> nv_equiv_ord a b -> compare a b = true.
Proof. exact compare_complete. Qed.
Print Assumptions C20_complete.

Example C20_complete_ex : exists a b, a <> b /\ wf_named a /\ wf_named b /\ nv_equiv_ord a b.
Proof. exact complete_ord_ex. Qed.
Print Assumptions C20_complete_ex.

(* the hypothesis no_asg of C20_complete_for_pin_sets is needed: two instances named
   SDN_Assignment_x_w / SDN_Assignment_y_w have the same key (only the width field w of such
   names is compared), every pin takes the first pin of the other wire with its key, and the two
   instances may have different references (witness corpus/cmp/c20-asg-pin-order.json, replayed
   on the real Comparer on every run; part of the assignment-instance hole, not of the property's
   named netlists) *)
Theorem C20_complete_for_pin_sets_needs_no_asg :
  exists a b, wf_named a /\ wf_named b /\ nv_equiv a b /\ compare a a = true /\ cmp_run a b = Reject.
Proof. exact pin_sets_need_no_asg. Qed.
Print Assumptions C20_complete_for_pin_sets_needs_no_asg.

(* what compare() decides on named netlists, exactly: structural equivalence
   (was nv_covered_set before the repair of compare_instances) *)
Theorem C20_exact : forall a b, wf_named a -> wf_named b -> no_asg a ->
  (compare a b = true <-> nv_equiv a b).
Proof. exact compare_iff_equiv. Qed.
Print Assumptions C20_exact.
Example C20_exact_ex : exists a b, a <> b /\ wf_named a /\ wf_named b /\ no_asg a /\ nv_equiv a b.
Proof. exact complete_ex. Qed.

Theorem C20_exact_both_ways : forall a b, wf_named a -> wf_named b -> no_asg a -> no_asg b ->
  (compare a b = true /\ compare b a = true <-> nv_equiv a b).
Proof. exact compare_both_ways. Qed.
Print Assumptions C20_exact_both_ways.

(* the class-by-class theorems above (C20_rejects_port_dir ... C20_rejects_prop_added, all 20
   classes) as corollaries of soundness, in acceptance form: a single difference of any class
   breaks the equivalence - also when the pins of a wire are taken as a set: a connection moved
   to another instance, port or bit is a different set of pins - hence is refused *)
Theorem C20_single_difference_not_equivalent : forall m a b, wf_named a ->
  nv_diff m a b -> ~ nv_equiv a b.
Proof. exact nv_diff_not_equiv. Qed.
Print Assumptions C20_single_difference_not_equivalent.

Theorem C20_rejects_by_soundness : forall m a b, wf_named a -> no_asg a ->
  nv_diff m a b -> compare a b = false.
Proof. exact rejects_by_soundness. Qed.
Print Assumptions C20_rejects_by_soundness.

Theorem C20_rejects_single_diff_by_soundness : forall a b, wf_named a -> no_asg a -> single_diff a b ->
  compare a b = false.
Proof. exact single_diff_rejected_by_soundness. Qed.
Print Assumptions C20_rejects_single_diff_by_soundness.

(* the former hole (finding C20-extra-properties; was C20_sound_needs_no_extra_props): the second
   netlist has a property that the first lacks - covered, not equivalent; accepted before the
   repair, rejected now, in both directions (corpus/cmp/c20-prop-new.json, replayed on the real
   Comparer on every run) *)
Example C20_extra_properties_rejected :
  exists a b, wf_named a /\ wf_named b /\ no_asg a /\ no_asg b /\ nv_covered_set a b /\ ~ nv_equiv a b /\
              cmp_run a b = Reject /\ cmp_run b a = Reject.
Proof. exact extra_props_rejected. Qed.
Print Assumptions C20_extra_properties_rejected.

(* the remaining side condition of C20_sound is an open finding, and the hole is real: *)
(* - no_asg: assignment instances are not compared, not even when comparing both ways
     (C20-assignment-instances-not-compared) *)
Theorem C20_sound_needs_no_asg :
  exists a b, wf_named a /\ wf_named b /\ compare a b = true /\ compare b a = true /\ ~ nv_equiv a b.
Proof. exact assignment_hole. Qed.
Print Assumptions C20_sound_needs_no_asg.
(* - wf_named: unnamed elements: C20_refuted_unnamed below *)

(* the lower index of a port is not part of the property's list (direction, width, array-ness)
   and is never read by the comparer (witness corpus/cmp/c20-lower-index.json) *)
Theorem C20_lower_index_not_compared :
  exists a b, a <> b /\ wf_named a /\ wf_named b /\ nv_equiv_ord a b /\ compare a b = true.
Proof. exact lower_index_witness. Qed.
Print Assumptions C20_lower_index_not_compared.

(* ---- the property at full strength on named netlists without assignment-style names: every
   class of difference the property lists, a property only the copy has included, is rejected
   by an AssertionError (was refuted: C20_refuted, witness corpus/cmp/c20-prop-new.json) ---- *)
Definition C20_full_named : Prop :=
  forall a, wf_named a -> no_asg a ->
    compare a a = true /\ forall m b, nv_diff m a b -> cmp_run a b = Reject.

Theorem C20_full_named_holds : C20_full_named.
Proof. exact full_named_holds. Qed.
Print Assumptions C20_full_named_holds.
Example C20_full_named_ex : wf_named w_base /\ no_asg w_base /\ exists m b, nv_diff m w_base b.
Proof. split; [exact w_base_wf|split; [exact w_base_noasg|exists MPropAdded, w_prop_new; exact w_prop_new_diff]]. Qed.

(* the witnesses of the former refutation, replayed on the real Comparer on every run:
   EDIF.properties only on the copy (c20-prop-new.json), one more entry (c20-prop-added-entry.json) *)
Example C20_extra_property_rejected :
  nv_diff MPropAdded w_base w_prop_new /\ cmp_run w_base w_prop_new = Reject /\
  nv_diff MPropAdded w_base w_prop_entry /\ cmp_run w_base w_prop_entry = Reject.
Proof. exact extra_property_rejected. Qed.
Print Assumptions C20_extra_property_rejected.

(* without the exclusion of assignment names the full statement still fails
   (finding C20-assignment-instances-not-compared; witness corpus/cmp/c20-asg-ref.json) *)
Definition C20_full : Prop :=
  forall a, wf_named a ->
    compare a a = true /\ forall m b, nv_diff m a b -> compare a b = false.

Theorem C20_refuted : ~ C20_full.
Proof. exact refuted_full_by_assignment. Qed.
Print Assumptions C20_refuted.

(* the hypothesis no_asg of C20_rejects is needed: instances named SDN_Assignment_* are skipped,
   and between two of them only the width field of the name is compared
   (witnesses corpus/cmp/c20-asg-ref.json, c20-asg-moved.json) *)
Definition C20_full_noticed : Prop := forall a b, wf_named a -> single_diff a b -> compare a b = false.
Theorem C20_refuted_assignment_reference : ~ C20_full_noticed.
Proof. exact refuted_assignment_reference. Qed.
Print Assumptions C20_refuted_assignment_reference.

Theorem C20_refuted_assignment_moved : exists a b, wf_named a /\ nv_diff MConnInst a b /\ compare a b = true.
Proof. exact refuted_assignment_moved. Qed.
Print Assumptions C20_refuted_assignment_moved.

(* the hypothesis "named" is needed: a difference on an unnamed element is not seen
   (witness corpus/cmp/c20-unnamed-port-dir.json) *)
Theorem C20_refuted_unnamed : exists a b, nv_diff MPortDir a b /\ compare a b = true.
Proof. exact refuted_unnamed. Qed.
Print Assumptions C20_refuted_unnamed.

(* the witnesses of the former self-reject refutations (findings C20-wildcard-names-self-reject,
   C20-zero-width-port-self-reject, C20-assignment-name-indexerror,
   C20-unnamed-instance-attributeerror; were the C20_refuted_self theorems): sibling names 'ab' and 'a*', a
   named port without pins, an instance named SDN_Assignment_x, a connected instance without a
   name.  Since the repairs (names looked up literally; no 'DRC' assert in compare_ports;
   get_assignment_width; None-safe getters) each is accepted against its own copy, and the first
   three are ordinary members of the domain of C20_accepts / C20_exact (witnesses
   corpus/cmp/c20-wildcard-name.json, c20-zero-width-port.json, c20-asg-short.json,
   c20-unnamed-inst-connected.json, replayed on the real Comparer on every run) *)
Example C20_self_wildcard_names_accepted : wf_named w_wild /\ cmp_run w_wild w_wild = Accept.
Proof. exact self_wildcard_names_accepted. Qed.
Example C20_self_zero_width_port_accepted : wf_named w_zero /\ cmp_run w_zero w_zero = Accept /\ w_zero <> w_wild.
Proof. exact self_zero_width_port_accepted. Qed.
Example C20_self_short_assignment_name_accepted :
  wf_named w_short /\ no_asg w_short /\ cmp_run w_short w_short = Accept.
Proof. exact self_short_assignment_name_accepted. Qed.
Example C20_self_unnamed_instance_accepted : ~ wf_named w_noname /\ cmp_run w_noname w_noname = Accept.
Proof. exact self_unnamed_instance_accepted. Qed.
Print Assumptions C20_self_unnamed_instance_accepted.

(* differences that raised, but not AssertionError (findings C20-missing-property-not-assertion,
   C20-renamed-element-stopiteration): a property the copy lacks (was KeyError), a renamed element
   (was StopIteration) are rejected by an AssertionError now, in both directions (witnesses
   c20-prop-dropped-key.json, c20-renamed-port.json, replayed on the real Comparer on every run);
   the general statements are C20_rejects_by_assertion / C20_full_named_holds: every single
   difference of a named netlist gives Reject, no other exception *)
Example C20_missing_property_is_rejected :
  exists a b, wf_named a /\ no_asg a /\ cmp_run a b = Reject /\ cmp_run b a = Reject.
Proof. exact missing_property_is_rejected. Qed.
Example C20_renamed_element_is_rejected :
  exists a b, wf_named a /\ no_asg a /\ cmp_run a b = Reject /\ cmp_run b a = Reject.
Proof. exact renamed_element_is_rejected. Qed.
Print Assumptions C20_renamed_element_is_rejected.

(* in general: compare_instances on any two instances (or None) returns or raises
   AssertionError, whatever their names, references and EDIF.properties are (the asserts on the
   number of entries and on the key sets guard properties_composer[x][key]) *)
Theorem C20_compare_instances_raises_only_assertion : forall o c,
  cmp_inst o c = Accept \/ cmp_inst o c = Reject.
Proof. exact cmp_inst_assert_only. Qed.
Print Assumptions C20_compare_instances_raises_only_assertion.
Example C20_compare_instances_raises_only_assertion_ex :
  exists o c, i_ref o <> None /\ i_ref c <> None /\ i_props o <> i_props c /\ i_props o <> None /\ i_props c <> None.
Proof. exact cmp_inst_assert_only_ex. Qed.

(* the whole comparer, on ALL netlist values - unnamed elements, assignment-style names of any
   shape, instances without reference or parent, dangling pins, pins without a port, any
   properties: compare() returns or raises AssertionError.  (Ill is not an outcome of the code: it
   marks values that are not the abstraction of a netlist - a pin on a wire whose instance or port
   cannot be followed, never produced by harness/cmp_canon.py without being reported.)
   Was false before the repair 4f7bd74: IndexError (name.split("_")[3]), AttributeError
   (None.startswith, None.library, None.pins), TypeError ("..." + None).                      *)
Theorem C20_raises_only_assertion : forall a b,
  cmp_run a b = Accept \/ cmp_run a b = Reject \/ cmp_run a b = Ill.
Proof. exact cmp_run_assert_only. Qed.
Print Assumptions C20_raises_only_assertion.

Theorem C20_no_other_exception : forall a b,
  cmp_run a b <> StopIter /\ cmp_run a b <> IndexErr /\ cmp_run a b <> KeyErr /\
  cmp_run a b <> AttrErr /\ cmp_run a b <> TypeErr.
Proof. exact cmp_run_no_other_exception. Qed.
Print Assumptions C20_no_other_exception.
Example C20_raises_only_assertion_ex :
  ~ wf_named w_noname /\ cmp_run w_noname w_noname = Accept /\ cmp_run w_noname w_base = Reject.
Proof. exact cmp_run_assert_only_ex. Qed.
