(* C06 - The Verilog reader builds exactly the design the source describes. Property theorems only.
   Mechanism level (for ALL expressions / ranges / call sequences): the connection clause ("bit k of the expression,
   counted from its least significant end, is joined to bit k of the port") for identifier, bit-select,
   part-select, constants (one-wire cables) and concatenations, for any port width >= expression width;
   create_or_update_cable / _port growth and re-basing; the assign clause PROVED (C06_assign_clause_holds: pin k of the
   assignment instance carries bit k of both sides); the top clause PROVED (C06_top_clause_holds: in every file order the single root is the top).
   Document level: the reader VerilogParser.parse_verilog is modelled from the document value to the netlist value
   (Fmt/VElab.v elab, tied to the real parser on every run by harness/verilog_doc.py).
     C06_wf       : for ALL documents, whatever elab returns is a well-formed, self-contained netlist value.
     C06_full_concatenations / _named_maps / _positional_maps / _assigns / _ports / _wires :
                    per construct, the EXACT effect of the reader on any state satisfying the structural invariant
                    (every state reached from a document does), under the typing hypotheses of the input class.
     C06_nets_are_connections : the nets of the value are exactly the labelled connections of the state.
     C06_full_instance_nets   : a whole port map, read off the netlist value, including stability of everything
                    connected before under the growth later connections cause (implied cables, ports created or
                    widened on the referenced definition).
     C06_full_top : whole documents: the first module that is not a `celldefine module, if nobody instantiates it,
                    is the top (for a root anywhere in the file: C06_top_clause_holds, on the module list).
     C06_visible_reachable    : [visible] - every connection made shows in the value - is an invariant of EVERY state
                    the reader reaches (all header entries, body items, module boundaries, the end of the file).
     C06_frame_body_items / C06_frame_end_of_file : frames for wire declarations, assigns, instance creation, port maps
                    of any definition, defparams, add_blackbox_definitions, the deferred positional maps - in EVERY
                    definition held, what is on a net bit stays on it (everything except a re-basing declaration).
     C06_full_instance_persists / C06_full_last_module_instance / C06_full_module_instance / C06_full_connections_named :
                    the induction over the modules of a document and the items of a body, for the connection clause: for
                    an instance with a named port map in ANY module of a document, the value elab returns shows bit k
                    of every connection expression on bit k of the port; input class = the boolean predicate
                    inst_in_class (selects inside the ranges known at that point, ports of the instantiated definition
                    based at 0, no port declaration later in the body, the instantiated module not declared later).
     C06_full_assigns_document : the same for the assign clause (pin k of the assignment carries bit k of both sides).
     C06_full_ports_document   : what header and port declarations joined (C06_full_ports) is in the final value.
     C06_full_instances_document : every instantiation is an instance of that name and module in the value.
     NOT proved - C06_full stays a Definition: (i) the connection clause when the instantiated module is declared LATER
     in the file (forward reference) or a port declaration follows the instance: a re-basing declaration
     ("input [7:4] a" after "module m(a)") legitimately moves labels, so this needs the statement in positions from the
     low end, or "declarations based at 0" as a reachable-state invariant; (ii) the composition of the deferred
     positional maps over the positions of one instance; (iii) the remaining clauses of denote at document level
     (the list of modules, port direction / width / base, cables, instance parameters / attributes are proved per
     construct only) and exactness (that the nets, assigns and instances hold nothing else).
   Character level: the tokenizer (TokenFactory, VerilogTokenizer) is modelled in Fmt/VLex.v - theorems C06_lex_* in the
   last section of this file. The recursive descent from tokens to the document value is not modelled. *)
From Coq Require Import String.
From Coq Require Import List ZArith Bool Permutation Lia.
From SV Require Import Base.Base Fmt.VBits Fmt.VExpr Fmt.VDoc Fmt.VTop Fmt.VElab Fmt.VSpec Fmt.VSem
  Proofs.VerilogLists Proofs.VerilogSlice Proofs.VerilogGrow Proofs.VerilogPort Proofs.VerilogAssign Proofs.VerilogTop
  Proofs.VElabBase Proofs.VElabInv Proofs.VElabWf Proofs.VElabExpr Proofs.VElabConn Proofs.VElabAssign Proofs.VElabPorts Proofs.VElabNets Proofs.VElabTop Proofs.VElabStable Proofs.VElabVis Proofs.VElabFrame Proofs.VElabFrameX Proofs.VElabDoc Proofs.VElabRun Proofs.VElabRunX Proofs.VElabRunA Proofs.VElabRunP Proofs.VElabRunI.
Import ListNotations.
Local Close Scope string_scope.
Open Scope Z_scope.
Local Notation "'S' x" := (s2l x%string) (at level 0, x at level 0, only parsing).

(* (c) low-end alignment *)
Theorem C06_lowend_align : forall (W : Type) (ws : list W) (pins : list nat) (n : nat),
  Permutation pins (seq 0 n) -> (length ws <= n)%nat ->
  align Z.of_nat pins ws = Some (combine ws (rev (seq 0 (length ws)))).
Proof. exact lowend_align_lemma. Qed.
Print Assumptions C06_lowend_align.

Theorem C06_lowend_align_bit : forall (W : Type) (ws : list W) (pins : list nat) (n k : nat) (w : W),
  Permutation pins (seq 0 n) -> (length ws <= n)%nat -> (k < length ws)%nat ->
  nth_error ws (length ws - 1 - k) = Some w ->
  exists calls, align Z.of_nat pins ws = Some calls /\ In (w, k) calls /\
    (forall w' k', In (w', k') calls -> (k' < length ws)%nat).
Proof. exact lowend_align_bit_lemma. Qed.
Print Assumptions C06_lowend_align_bit.

(* the reader's wire list of a well-typed expression is the expression's meaning (LSB-first net bits), reversed *)
Theorem C06_expr_denote : forall e x, expr_typed e x ->
  exists t, reader_expr e x = Some t /\ rev t = expr_bits e x.
Proof. exact expr_denote_lemma. Qed.
Print Assumptions C06_expr_denote.

(* connection clause of the property *)
Theorem C06_port_map_denote : forall e x (pins : list nat) (n : nat),
  expr_typed e x -> Permutation pins (seq 0 n) -> (length (expr_bits e x) <= n)%nat ->
  exists t calls, reader_expr e x = Some t /\ align Z.of_nat pins t = Some calls /\
    length calls = length (expr_bits e x) /\
    forall k w, nth_error (expr_bits e x) k = Some w -> In (w, k) calls.
Proof. exact port_map_denote_lemma. Qed.
Print Assumptions C06_port_map_denote.

Example C06_port_map_denote_witness :
  let e : env := fun c => if Nat.eqb c 0 then (2, 4%nat) else (0, 1%nat) in
  let x := ECat [APart 0%nat 5 4; AId 1%nat; ABit 0%nat 2] in
  expr_bits e x = [(0%nat, 2); (1%nat, 0); (0%nat, 4); (0%nat, 5)] /\
  reader_expr e x = Some [(0%nat, 5); (0%nat, 4); (1%nat, 0); (0%nat, 2)] /\
  align Z.of_nat [3;1;4;0;2]%nat [(0%nat, 5); (0%nat, 4); (1%nat, 0); (0%nat, 2)] =
    Some [((0%nat, 5), 3%nat); ((0%nat, 4), 2%nat); ((1%nat, 0), 1%nat); ((0%nat, 2), 0%nat)].
Proof. vm_compute. repeat split. Qed.

(* (d) after any sequence of create_or_update_cable calls the cable covers exactly the hull of all ranges
   seen, and the wire that was bit i is still bit i *)
Theorem C06_grow_rebase_correct : forall (rs : list (option Z * option Z)) (b : bundle), wfb b ->
  let b' := fold_left upd rs b in
  wfb b' /\ b_lo b' = hull_lo (b_lo b) rs /\ b_hi b' = hull_hi (b_hi b) rs /\
  Z.of_nat (length (b_items b')) = b_hi b' - b_lo b' + 1 /\
  (forall i, b_lo b <= i <= b_hi b -> item_at b' i = item_at b i) /\
  (forall x, In x (b_items b') -> In x (b_items b) \/ (b_next b <= x)%nat).
Proof. exact grow_rebase_lemma. Qed.
Print Assumptions C06_grow_rebase_correct.

Example C06_grow_rebase_witness :
  let b := new_bundle (Some 3) (Some 2) 0 in
  let b' := fold_left upd [(Some 5, None); (Some 1, Some 0); (None, None); (Some 4, Some 7)] b in
  b_lo b' = 0 /\ b_items b' = [4;5;0;1;2;3;6;7]%nat /\ item_at b' 2 = Some 0%nat /\ item_at b' 3 = Some 1%nat.
Proof. vm_compute. repeat split. Qed.

(* a defining declaration ("input [7:4] a;" after "module m(a)") re-bases: positions keep their objects,
   Verilog indices shift *)
Theorem C06_rebase_shift : forall b l r il iu, wfb b -> in_range l r = Some (il, iu) ->
  let b' := update_cable l r true b in
  wfb b' /\ b_lo b' = il /\ b_hi b' = Z.max iu (il + Z.of_nat (length (b_items b)) - 1) /\
  (forall i, b_lo b <= i <= b_hi b -> item_at b' (i - b_lo b + il) = item_at b i).
Proof. exact rebase_shift_lemma. Qed.
Print Assumptions C06_rebase_shift.

(* ports: same function as for cables whenever the request has the port's base (module ports based at 0) *)
Theorem C06_update_port_same_base : forall b l r d il iu, wfb b -> in_range l r = Some (il, iu) ->
  b_lo (rebase d il b) = il -> update_port l r d b = update_cable l r d b.
Proof. exact update_port_same_base_lemma. Qed.
Print Assumptions C06_update_port_same_base.

(* ... and NOT in general: a port [3:0] asked for [4:1] keeps its 4 pins (the width already matches) *)
Example C06_update_port_other_base_no_hull :
  let b := new_bundle (Some 3) (Some 0) 0 in
  b_hi (update_port (Some 4) (Some 1) false b) = 3 /\ b_hi (update_cable (Some 4) (Some 1) false b) = 4.
Proof. vm_compute. split; reflexivity. Qed.

(* assign statements (repaired: former finding V06-assign-msb-first, pin k carried bit w-1-k): in the model of
   connect_wires_for_assign pin k of the assignment instance carries bit k, counted from the low end, of both
   sides, for any two typed atoms; the instance is as wide as the narrower side. *)
Theorem C06_assign_pins_lsb_first : forall e lhs rhs, atom_typed e lhs -> atom_typed e rhs ->
  let w := Nat.min (awidth e lhs) (awidth e rhs) in
  exists pins, read_assign e lhs rhs = Some pins /\ length pins = w /\
    forall k, (k < w)%nat ->
      nth_error pins k = Some ((atom_cable lhs, alo e lhs + Z.of_nat k), (atom_cable rhs, alo e rhs + Z.of_nat k)) /\
      nth_error (atom_bits e lhs) k = Some (atom_cable lhs, alo e lhs + Z.of_nat k) /\
      nth_error (atom_bits e rhs) k = Some (atom_cable rhs, alo e rhs + Z.of_nat k).
Proof. exact assign_pins_lsb_lemma. Qed.
Print Assumptions C06_assign_pins_lsb_first.

(* the clause "pin k carries bit k" (was C06_assign_clause_refuted) *)
Theorem C06_assign_clause_holds : assign_lsb_pins.
Proof. exact assign_lsb_pins_holds_lemma. Qed.
Print Assumptions C06_assign_clause_holds.

(* regression witness of the former refutation: assign a[1:0] = b[1:0] (corpus/verilog/a1-multi-bit-assign.json) *)
Example C06_assign_lsb_witness :
  read_assign wit_env (APart 0%nat 1 0) (APart 1%nat 1 0) = Some [((0%nat, 0), (1%nat, 0)); ((0%nat, 1), (1%nat, 1))].
Proof. vm_compute. reflexivity. Qed.

(* top election. The clause "the single root module of the design becomes the top" holds of the model of
   parse_module / parse_instantiation / elect_top in EVERY file order (elect_top decides at the end of the file; the
   one-level re-election alone missed the root - former finding V06-top-election, bundled synth_th1_slaac.v). *)
Theorem C06_top_clause_holds : top_is_root.
Proof. exact top_is_root_lemma. Qed.
Print Assumptions C06_top_clause_holds.

(* the former counterexample: file order A, R, M1, M2 with R -> M1 -> M2 -> A. While parsing, M1 is the candidate;
   the reader returns R (regression case corpus/verilog/t1-top-election-three-levels.json) *)
Example C06_top_clause_witness :
  single_root wit_doc 1%nat /\ elect_parsing wit_doc = [2%nat] /\ elect wit_doc = [1%nat].
Proof. split; [exact wit_single_root|]. split; vm_compute; reflexivity. Qed.

(* the candidate found while parsing: the root when it comes first *)
Theorem C06_root_first_is_top : forall r insts rest,
  (forall d, In d ((r, false, insts) :: rest) -> snd (fst d) = false -> ~ In r (snd d)) ->
  forall t, In t (elect_parsing ((r, false, insts) :: rest)) -> t = r.
Proof. exact root_first_is_top_lemma. Qed.
Print Assumptions C06_root_first_is_top.

Example C06_root_first_is_top_witness :
  let doc : list dmod := [(1, false, [2; 0]); (0, false, []); (2, false, [0])]%nat in
  (forall d, In d doc -> snd (fst d) = false -> ~ In 1%nat (snd d)) /\ elect_parsing doc = [1%nat] /\ elect doc = [1%nat].
Proof.
  split; [|split; vm_compute; reflexivity].
  intros d [<-|[<-|[<-|[]]]] _ H; cbn in H; intuition discriminate.
Qed.

(* ================= document level ================= *)

(* (a) every netlist value the reader returns - for ANY document, inside the input class or not - is well-formed and
   self-contained: every instance names a definition of the value, every endpoint of a net is an existing bit of a
   port of the module or of the instantiated definition, every net bit lies inside its cable, no endpoint is on two
   nets, sibling names are unique, nothing has width 0, the top names a definition of the value. *)
Theorem C06_wf : forall (d : vdoc) (n : nv), elab d = Ok n -> wf_nv n.
Proof. exact elab_wf. Qed.
Print Assumptions C06_wf.

(* a document with a forward reference, a never-declared module used by position, a concatenation, an empty
   connection, an implied net, a constant and an assign:
     module top(a, b, y); input [3:0] a; input b; output [1:0] y; wire [3:0] w;
       sub u1(.p(a[1:0]), .q({b, w[2]}), .r());  GND g(w[0], 1'b0);  assign y[0] = n1;  endmodule
     module sub(input [1:0] p, input [1:0] q, output r); endmodule *)
Definition ex_doc : vdoc :=
  [ {| vm_name := S "top"; vm_cell := false; vm_params := []; vm_attrs := [];
       vm_header := [HPort None None (S "a"); HPort None None (S "b"); HPort None None (S "y")];
       vm_body := [ IPortDecl DIn None (Some (3, 0)) [S "a"] []; IPortDecl DIn None None [S "b"] [];
                    IPortDecl DOut None (Some (1, 0)) [S "y"] []; IWire TWire (Some (3, 0)) [S "w"] [];
                    IInst (S "sub") (S "u1") [] []
                      (CNamed [(S "p", Some (DAtom (DPart (S "a") 1 0))); (S "q", Some (DCat [DId (S "b"); DBit (S "w") 2])); (S "r", None)]);
                    IInst (S "GND") (S "g") [] [] (CPos [Some (DAtom (DBit (S "w") 0)); Some (DAtom (DConst false))]);
                    IAssign (DBit (S "y") 0) (DId (S "n1")) ] |};
    {| vm_name := S "sub"; vm_cell := false; vm_params := []; vm_attrs := [];
       vm_header := [HPort (Some DIn) (Some (1, 0)) (S "p"); HPort (Some DIn) (Some (1, 0)) (S "q"); HPort (Some DOut) None (S "r")];
       vm_body := [] |} ].

Example C06_wf_witness :
  match elab ex_doc with
  | Ok n => nv_top n = Some (S "top") /\ map nd_name (nv_defs n) = [S "top"; S "sub"; S "GND"] /\
            (exists d, nth_error (nv_defs n) 0 = Some d /\
                       net_of (S "b", 0) d = [EPort (LName (S "b")) 0; EInst (S "u1") (LName (S "q")) 1] /\
                       net_of (S "w", 0) d = [EInst (S "g") (LPos 0) 0] /\
                       nd_assigns d = [[(Some (S "y", 0), Some (S "n1", 0))]])
  | Err _ => False
  end.
Proof. vm_compute. split; [reflexivity|]. split; [reflexivity|]. eexists. split; [reflexivity|]. repeat split. Qed.

(* (b) what the reader builds, construct by construct. Each theorem describes EXACTLY what one construct does to a
   state of the reader that satisfies the structural invariant (every state reached from a document does: run_inv),
   under the typing hypotheses of the property's input class for that construct, in the vocabulary of Fmt/VSem.v:
   crange d = what a definition knows of its nets; dexpr_bits = the bits an expression names, least significant
   first; wire_label / pin_endpoint = the net bit of a wire / the port bit of a pin as the netlist value shows them. *)

(* the bridge to the netlist value: endpoint e is on net bit r of the value exactly when the state holds a connection
   whose pin is seen as e and whose wire is seen as r *)
Theorem C06_nets_are_connections : forall s d r e, DInv d ->
  (In e (net_of r (abs_def s d)) <-> In (Some e, Some r) (lconn s d)).
Proof. exact net_of_lconn. Qed.
Print Assumptions C06_nets_are_connections.

(* expressions: identifier, bit-select, part-select, constant, implied net, concatenation. The wires selected, seen
   through their labels, are the bits the expression names, MOST significant first; the definition only gains the
   implied one-bit cables. *)
Theorem C06_full_concatenations : forall d e d' ws, DInv d -> dexpr_typed (crange d) e -> expr_wires e d = Ok (d', ws) ->
  cables_ext d d' /\ map (wire_label d') ws = map Some (rev (dexpr_bits (crange d) e)).
Proof. exact expr_wires_spec. Qed.
Print Assumptions C06_full_concatenations.

(* the module of ex_doc after its header and declarations, as the reader builds it *)
Definition ex_doc2 : vdoc := [ {| vm_name := S "top"; vm_cell := false; vm_params := []; vm_attrs := [];
       vm_header := [HPort None None (S "a"); HPort None None (S "b"); HPort None None (S "y")];
       vm_body := [ IPortDecl DIn None (Some (3, 0)) [S "a"] []; IPortDecl DIn None None [S "b"] [];
                    IPortDecl DOut None (Some (1, 0)) [S "y"] []; IWire TWire (Some (5, 2)) [S "w"] [];
                    IInst (S "sub") (S "u1") [] [] (CNamed []) ] |} ].
Definition ex_state : estate := match run ex_doc2 with Ok s => s | Err _ => set_defs
         {| st_defs := []; st_tops := None; st_ps := []; st_acount := O; st_curinst := None; st_pending := [] |} [] end.

Lemma ex_state_inv : Inv ex_state.
Proof.
  apply (run_inv ex_doc2). unfold ex_state. destruct (run ex_doc2) as [s|e] eqn:E; [reflexivity|].
  vm_compute in E. discriminate.
Qed.

Example C06_full_concatenations_witness :
  let d := get_def 0 ex_state in
  let e := DCat [DId (S "b"); DPart (S "w") 4 3; DConst true; DBit (S "a") 0; DId (S "n9")] in
  DInv d /\ dexpr_typed (crange d) e /\
  dexpr_bits (crange d) e = [(S "n9", 0); (S "a", 0); (S "\<const1>", 0); (S "w", 3); (S "w", 4); (S "b", 0)] /\
  exists d' ws, expr_wires e d = Ok (d', ws) /\ length (ed_cables d') = (length (ed_cables d) + 2)%nat.
Proof.
  split; [apply get_def_dinv; exact ex_state_inv|]. split.
  - split; [discriminate|]. repeat constructor; try reflexivity; cbn.
    + exists 2, 4%nat. split; [vm_compute; reflexivity|lia].
    + exists 0, 4%nat. split; [vm_compute; reflexivity|lia].
  - split; [vm_compute; reflexivity|]. eexists; eexists; split; vm_compute; reflexivity.
Qed.

(* a named connection .p(e): bit k of the expression is joined to bit k of port p of the instance; the port is created
   (never-declared module) or widened on the referenced definition when the expression is wider; the instantiating
   definition gains the connections and the implied cables; nothing else changes *)
Theorem C06_full_named_maps : forall cur ii rk pname e s s' inst,
  Inv s -> cur <> rk -> (cur < length (st_defs s))%nat -> (rk < length (st_defs s))%nat ->
  nth_error (ed_insts (get_def cur s)) ii = Some inst -> ei_ref inst = RName (ed_name (get_def rk s)) ->
  dexpr_typed (crange (get_def cur s)) e -> lo0 (get_def rk s) pname ->
  named_conn cur ii rk (pname, Some e) s = Ok s' ->
  let d := get_def cur s in let d' := get_def cur s' in let bits := dexpr_bits (crange d) e in
  exists pk new,
    cables_ext d (set_conn d' (ed_conn d)) /\ ed_conn d' = ed_conn d ++ new /\
    port_made pname (length bits) (get_def rk s) (get_def rk s') pk /\
    (forall k, k <> cur -> k <> rk -> get_def k s' = get_def k s) /\
    names s' = names s /\
    map (fun pw => (pin_endpoint s' d' (fst pw), wire_label d' (snd pw))) new =
      map (fun kr => (Some (EInst (ei_name inst) (LName pname) (Z.of_nat (fst kr))), Some (snd kr))) (rev (number bits)).
Proof. exact named_conn_spec. Qed.
Print Assumptions C06_full_named_maps.

Example C06_full_named_maps_witness :
  let e := DCat [DBit (S "a") 3; DId (S "b")] in
  (exists inst, nth_error (ed_insts (get_def 0 ex_state)) 0 = Some inst /\ ei_ref inst = RName (ed_name (get_def 1 ex_state))) /\
  dexpr_typed (crange (get_def 0 ex_state)) e /\ lo0 (get_def 1 ex_state) (S "p") /\
  exists s', named_conn 0 0 1 (S "p", Some e) ex_state = Ok s' /\
    lconn s' (get_def 0 s') = lconn ex_state (get_def 0 ex_state) ++
      [(Some (EInst (S "u1") (LName (S "p")) 1), Some (S "a", 3)); (Some (EInst (S "u1") (LName (S "p")) 0), Some (S "b", 0))].
Proof.
  split; [eexists; split; vm_compute; reflexivity|]. split.
  - split; [discriminate|]. repeat constructor; try reflexivity; cbn. exists 0, 4%nat. split; [vm_compute; reflexivity|lia].
  - split; [intros pk p H; vm_compute in H; discriminate|]. eexists. split; vm_compute; reflexivity.
Qed.

(* the whole port map of an instance, read off the netlist value, with stability of what was connected before: the
   nets of the instantiating module afterwards are its nets before plus, for every connection .p(e), bit k of e
   joined to bit k of port p of the instance (conn_meaning) - although later connections may create implied cables
   and create or widen ports of the referenced definition. [visible]: every connection made so far shows in the
   netlist value (as an endpoint on a labelled net bit, or as a pin of an assign); it holds again afterwards. *)
Theorem C06_full_instance_nets : forall cur ii rk inst l s s',
  Inv s -> cur <> rk -> (cur < length (st_defs s))%nat -> (rk < length (st_defs s))%nat ->
  nth_error (ed_insts (get_def cur s)) ii = Some inst -> ei_ref inst = RName (ed_name (get_def rk s)) ->
  Forall (conn_typed (crange (get_def cur s))) l -> Forall (fun pc => has_glob (fst pc) = false) l ->
  all_lo0 (get_def rk s) -> visible s (get_def cur s) ->
  fold_res (named_conn cur ii rk) l s = Ok s' ->
  visible s' (get_def cur s') /\
  forall r e, In e (net_of r (abs_def s' (get_def cur s'))) <->
              In e (net_of r (abs_def s (get_def cur s))) \/
              exists pc, In pc l /\ In (e, r) (conn_meaning (ei_name inst) (crange (get_def cur s)) pc).
Proof. exact instance_nets_visible. Qed.
Print Assumptions C06_full_instance_nets.

Example C06_full_instance_nets_witness :
  let l := [(S "p", Some (DCat [DBit (S "a") 3; DId (S "b")])); (S "q", None); (S "p", Some (DAtom (DId (S "n7"))))] in
  Forall (conn_typed (crange (get_def 0 ex_state))) l /\ all_lo0 (get_def 1 ex_state) /\
  visible ex_state (get_def 0 ex_state) /\
  (* the second connection to p finds its pins taken: the reader refuses (AssertionError) *)
  fold_res (named_conn 0 0 1) l ex_state = Err EAssert /\
  exists s', fold_res (named_conn 0 0 1) (firstn 2 l) ex_state = Ok s' /\
    net_of (S "b", 0) (abs_def s' (get_def 0 s')) = [EPort (LName (S "b")) 0; EInst (S "u1") (LName (S "p")) 0].
Proof.
  split.
  - constructor.
    + cbn. split; [discriminate|]. constructor; [split; [reflexivity|]; cbn; exists 0, 4%nat; split; [vm_compute; reflexivity|lia]|].
      constructor; [split; [reflexivity|exact Logic.I]|constructor].
    + constructor; [exact Logic.I|]. constructor; [cbn; split; [reflexivity|exact Logic.I]|constructor].
  - split; [intros p Hp; vm_compute in Hp; contradiction|]. split.
    + apply (resolved_visible _ _
        [(EPort (LName (S "a")) 0, (S "a", 0)); (EPort (LName (S "b")) 0, (S "b", 0)); (EPort (LName (S "y")) 0, (S "y", 0));
         (EPort (LName (S "a")) 1, (S "a", 1)); (EPort (LName (S "a")) 2, (S "a", 2)); (EPort (LName (S "a")) 3, (S "a", 3));
         (EPort (LName (S "y")) 1, (S "y", 1))]). vm_compute. reflexivity.
    + split; [vm_compute; reflexivity|]. eexists. split; vm_compute; reflexivity.
Qed.

(* [visible] is a reachable-state invariant: in the state the reader arrives at for ANY document that it accepts (no
   typing hypothesis), every connection of every definition shows in the netlist value - its wire is a labelled net
   bit, its pin is a bit of a port of the module / of the definition the instance references, or a pin of an assign.
   (Proofs/VElabVis.v: the structural invariant VInv - every connection joins an existing wire to an existing pin,
   every deferred positional map names an existing instance of an existing definition - is preserved by every header
   entry, every item of a module body, the module boundaries, add_blackbox_definitions and the deferred maps.) *)
Theorem C06_visible_reachable : forall (doc : vdoc) (s : estate) (k : nat), run doc = Ok s -> visible s (get_def k s).
Proof. exact run_visible. Qed.
Print Assumptions C06_visible_reachable.

(* hence the hypothesis [visible] of C06_full_instance_nets is met by the final state of every run *)
Example C06_visible_reachable_witness : visible ex_state (get_def 0 ex_state) /\ ed_conn (get_def 0 ex_state) <> [].
Proof.
  split; [|vm_compute; discriminate].
  apply (run_visible ex_doc2). unfold ex_state. destruct (run ex_doc2) as [s|e] eqn:E; [reflexivity|]. vm_compute in E. discriminate.
Qed.

(* frames for the constructs that had none: every item of a module body except a port declaration - wire declarations,
   assigns, instances with named or positional maps (of ANY definition, the module itself or one referenced elsewhere
   included), defparams - keeps, in EVERY definition held, every endpoint on the net bit it was on (no typing
   hypothesis: only a "defining" declaration re-bases a bundle; everything else extends bundles and appends objects) *)
Theorem C06_frame_body_items : forall cur items s s' k r e, Inv s -> Forall not_port_decl items ->
  fold_res (body_item cur) items s = Ok s' ->
  In e (net_of r (abs_def s (get_def k s))) -> In e (net_of r (abs_def s' (get_def k s'))).
Proof. exact body_nets_persist. Qed.
Print Assumptions C06_frame_body_items.

(* ... and so do add_blackbox_definitions and the positional maps deferred to the end of the file *)
Theorem C06_frame_end_of_file : forall s1 s k r e, Inv s1 ->
  fold_res pending_one (st_pending (close_blackboxes s1)) (close_blackboxes s1) = Ok s ->
  In e (net_of r (abs_def s1 (get_def k s1))) -> In e (net_of r (abs_def s (get_def k s))).
Proof. exact end_of_file_nets_persist. Qed.
Print Assumptions C06_frame_end_of_file.

(* the connection clause composed: an instance with a named port map, read in a state that satisfies the invariants
   every reachable state satisfies (Inv: run_inv; VInv: run_vinv), puts bit k of every connection expression on bit k
   of the port, and the value still shows it after any label-stable continuation (LS: C06_frame_* above) *)
Theorem C06_full_instance_persists : forall cur m i params attrs l s s1 s2, Inv s -> VInv s -> (cur < length (st_defs s))%nat ->
  ed_name (get_def cur s) <> m ->
  Forall (conn_typed (crange (get_def cur s))) l -> Forall (fun pc => has_glob (fst pc) = false) l ->
  (forall k, find_def m s = Some k -> all_lo0 (get_def k s)) ->
  inst_item cur m i params attrs (CNamed l) s = Ok s1 -> LS s1 s2 ->
  forall pc e r, In pc l -> In (e, r) (conn_meaning i (crange (get_def cur s)) pc) ->
  In e (net_of r (abs_def s2 (get_def cur s2))).
Proof. exact inst_named_persists. Qed.
Print Assumptions C06_full_instance_persists.

(* one position of a positional port map (processed when the whole file has been read): the same, on the port at that
   position of the referenced definition, or on a new unnamed port of the width of the expression when the
   definition has no port there (never-declared module) *)
Theorem C06_full_positional_maps : forall cur ii rk fresh index e s s' inst,
  Inv s -> cur <> rk -> (cur < length (st_defs s))%nat -> (rk < length (st_defs s))%nat ->
  nth_error (ed_insts (get_def cur s)) ii = Some inst -> ei_ref inst = RName (ed_name (get_def rk s)) ->
  dexpr_typed (crange (get_def cur s)) e ->
  (fresh = false -> exists p, nth_error (ed_ports (get_def rk s)) index = Some p /\ b_lo (ep_b p) = 0) ->
  pos_conn cur ii rk fresh index (Some e) s = Ok s' ->
  let d := get_def cur s in let d' := get_def cur s' in let bits := dexpr_bits (crange d) e in
  let rd := get_def rk s in
  exists pk p' new,
    cables_ext d (set_conn d' (ed_conn d)) /\ ed_conn d' = ed_conn d ++ new /\
    nth_error (ed_ports (get_def rk s')) pk = Some p' /\
    (if fresh then pk = length (ed_ports rd) /\ get_def rk s' = set_ports rd (ed_ports rd ++ [p']) /\
                   ep_name p' = None /\ ep_dir p' = None /\ ep_b p' = new_bundle (Some (Z.of_nat (length bits) - 1)) (Some 0) 0
     else pk = index /\ get_def rk s' = rd) /\
    (forall k, k <> cur -> k <> rk -> get_def k s' = get_def k s) /\
    names s' = names s /\
    map (fun pw => (pin_endpoint s' d' (fst pw), wire_label d' (snd pw))) new =
      map (fun kr => (Some (EInst (ei_name inst) (port_label pk p') (Z.of_nat (fst kr))), Some (snd kr))) (rev (number bits)).
Proof. exact pos_conn_spec. Qed.
Print Assumptions C06_full_positional_maps.

Example C06_full_positional_maps_witness :
  let e := DAtom (DPart (S "w") 5 4) in
  dexpr_typed (crange (get_def 0 ex_state)) e /\
  exists s', pos_conn 0 0 1 true 0 (Some e) ex_state = Ok s' /\
    lconn s' (get_def 0 s') = lconn ex_state (get_def 0 ex_state) ++
      [(Some (EInst (S "u1") (LPos 0) 1), Some (S "w", 5)); (Some (EInst (S "u1") (LPos 0) 0), Some (S "w", 4))].
Proof.
  split.
  - split; [reflexivity|]. cbn. exists 2, 4%nat. split; [vm_compute; reflexivity|lia].
  - eexists. split; vm_compute; reflexivity.
Qed.

(* an EMPTY position "M m(a, , b);" (repaired: former finding V06-positional-empty, the map was rejected): nothing is
   connected and no definition other than the referenced one changes; beyond the ports the referenced definition has,
   an unnamed one-bit port [0:0] takes the position, so that the following positions keep their index *)
Theorem C06_full_positional_empty : forall cur ii rk fresh index s s', (rk < length (st_defs s))%nat ->
  pos_conn cur ii rk fresh index None s = Ok s' ->
  let rd := get_def rk s in
  (forall k, k <> rk -> get_def k s' = get_def k s) /\ names s' = names s /\
  (if fresh
   then get_def rk s' = set_ports rd (ed_ports rd ++ [{| ep_name := None; ep_dir := None; ep_b := new_bundle (Some 0) (Some 0) 0 |}]) /\
        b_lo (new_bundle (Some 0) (Some 0) 0) = 0 /\ length (b_items (new_bundle (Some 0) (Some 0) 0)) = 1%nat
   else s' = s).
Proof. exact pos_conn_empty_spec. Qed.
Print Assumptions C06_full_positional_empty.

(* an assign: one instance of SDN_VERILOG_ASSIGNMENT_w, w = the smaller width; pin k of o / i carries bit k (from the
   low end: datom_bits is least significant first) of the left / right side - what the statement means (former
   finding V06-assign-msb-first: pin k carried bit w-1-k) *)
Theorem C06_full_assigns : forall lhs rhs n d d', DInv d -> datom_typed (crange d) lhs -> datom_typed (crange d) rhs ->
  assign_item lhs rhs n d = Ok d' ->
  let lb := datom_bits (crange d) lhs in let rb := datom_bits (crange d) rhs in
  let w := Nat.min (length lb) (length rb) in let ii := length (ed_insts d) in
  exists d2 new,
    cables_ext d d2 /\
    d' = set_conn (set_insts d2 (ed_insts d ++ [{| ei_name := assign_name w n; ei_ref := RAssign w; ei_params := []; ei_attrs := [] |}]))
                  (ed_conn d ++ new) /\
    (forall p x, In (p, x) new -> exists pk k, p = POuter ii pk k) /\
    (forall k, (k < w)%nat -> pin_label d' (POuter ii 1 k) = nth_error lb k /\ pin_label d' (POuter ii 0 k) = nth_error rb k).
Proof. exact assign_item_spec. Qed.
Print Assumptions C06_full_assigns.

Example C06_full_assigns_witness :
  let d := get_def 0 ex_state in
  datom_typed (crange d) (DPart (S "y") 1 0) /\ datom_typed (crange d) (DPart (S "w") 3 2) /\
  exists d', assign_item (DPart (S "y") 1 0) (DPart (S "w") 3 2) 0 d = Ok d' /\
    def_assigns d' = [[(Some (S "y", 0), Some (S "w", 2)); (Some (S "y", 1), Some (S "w", 3))]].
Proof.
  split; [split; [reflexivity|]; cbn; exists 0, 2%nat; split; [vm_compute; reflexivity|lia]|].
  split; [split; [reflexivity|]; cbn; exists 2, 4%nat; split; [vm_compute; reflexivity|lia]|].
  eexists. split; vm_compute; reflexivity.
Qed.

(* ports: a module declared for the first time with a plain header and one declaration per port ends with exactly
   the header ports, in header order, with the declared direction and width [w-1:0] (an undeclared one: no
   direction, one bit), one cable per port of the same name and width, and port bit k joined to cable bit k *)
Theorem C06_full_ports : forall mname names decls d1 d',
  NoDup names -> (forall n, In n names -> has_glob n = false) ->
  NoDup (map pd_name decls) -> (forall x, In x decls -> In (pd_name x) names /\ rg_ok (pd_rg x) (pd_w x)) ->
  fold_res header_entry (map (HPort None None) names) (empty_def mname) = Ok d1 ->
  fold_res (fun x => port_decl_one (pd_dir x) (pd_ty x) (pd_rg x) (pd_name x)) decls d1 = Ok d' ->
  PortsSt names (fold_left (fun t x => tab_set t (pd_name x) (pd_dir x, pd_ty x, pd_w x)) decls (fun _ => None)) d'.
Proof. exact ports_spec. Qed.
Print Assumptions C06_full_ports.

Example C06_full_ports_witness :
  let names := [S "a"; S "b"; S "y"] in
  let decls := [ {| pd_dir := DOut; pd_ty := Some TReg; pd_rg := Some (1, 0); pd_name := S "y"; pd_w := 2 |};
                 {| pd_dir := DIn; pd_ty := None; pd_rg := Some (3, 0); pd_name := S "a"; pd_w := 4 |} ] in
  NoDup names /\ NoDup (map pd_name decls) /\ (forall x, In x decls -> In (pd_name x) names /\ rg_ok (pd_rg x) (pd_w x)) /\
  exists d1 d', fold_res header_entry (map (HPort None None) names) (empty_def (S "m")) = Ok d1 /\
    fold_res (fun x => port_decl_one (pd_dir x) (pd_ty x) (pd_rg x) (pd_name x)) decls d1 = Ok d' /\
    map (fun p => (ep_name p, ep_dir p, length (b_items (ep_b p)))) (ed_ports d') =
      [(Some (S "a"), Some DIn, 4%nat); (Some (S "b"), None, 1%nat); (Some (S "y"), Some DOut, 2%nat)].
Proof.
  split; [repeat constructor; cbn; intuition discriminate|]. split; [repeat constructor; cbn; intuition discriminate|]. split.
  - intros x [<-|[<-|[]]]; cbn; split; try (right; split; [reflexivity|lia]); intuition.
  - eexists; eexists. split; [vm_compute; reflexivity|]. split; vm_compute; reflexivity.
Qed.

(* wire declarations: a net declared for the first time adds exactly one cable - name, range [h:l] (wire k of the
   cable is bit l + k, any base, negative included), net type, attributes - and nothing else; in "wire [h:l] a, b" the
   range goes to EVERY name (former finding V06-shared-range), the attributes to the first name only *)
Theorem C06_full_wires : forall ty rg attrs names d d', NoDup names ->
  (forall n, In n names -> has_glob n = false /\ find_cable n d = None) -> rg_wf rg ->
  wire_decl ty rg attrs names d = Ok d' ->
  exists n rest, names = n :: rest /\
    d' = set_cables d (ed_cables d ++ decl_cable ty rg attrs n :: map (decl_cable ty rg []) rest).
Proof. exact wire_decl_spec. Qed.
Print Assumptions C06_full_wires.

Example C06_full_wires_witness :
  let d := get_def 0 ex_state in
  (forall n, In n [S "t"; S "v"] -> has_glob n = false /\ find_cable n d = None) /\
  exists d', wire_decl TReg (Some (-1, -3)) [(S "keep", None)] [S "t"; S "v"] d = Ok d' /\
    map (fun c => (ec_name c, b_lo (ec_b c), length (b_items (ec_b c)), ec_type c)) (skipn 4 (ed_cables d')) =
      [(S "t", -3, 3%nat, Some TReg); (S "v", -3, 3%nat, Some TReg)].
Proof.
  split; [intros n [<-|[<-|[]]]; split; vm_compute; reflexivity|]. eexists. split; vm_compute; reflexivity.
Qed.

(* the top clause on whole documents: when the first module that is not a `celldefine module is instantiated by no
   module of the document (itself included), the reader elects it - whatever else the document contains (it is the
   candidate found while parsing, and elect_top keeps it). A root later in the file: C06_top_clause_holds. *)
Theorem C06_full_top : forall cells m rest n,
  Forall (fun c => vm_cell c = true) cells -> vm_cell m = false ->
  (forall m', In m' (m :: rest) -> vm_cell m' = false -> body_no_inst (vm_name m) (vm_body m')) ->
  elab (cells ++ m :: rest) = Ok n -> nv_top n = Some (vm_name m).
Proof. exact elab_top_root_first. Qed.
Print Assumptions C06_full_top.

Example C06_full_top_witness :
  exists m rest, ex_doc = [] ++ m :: rest /\ vm_cell m = false /\
    (forall m', In m' (m :: rest) -> vm_cell m' = false -> body_no_inst (vm_name m) (vm_body m')) /\
    exists n, elab ex_doc = Ok n.
Proof.
  eexists; eexists. split; [reflexivity|]. split; [reflexivity|]. split.
  - intros m' [<-|[<-|[]]] _; cbn; repeat constructor; cbn; discriminate.
  - destruct (elab ex_doc) as [n|e] eqn:E; [eexists; reflexivity|]. vm_compute in E. discriminate.
Qed.

(* whole documents, by induction over the modules and over the items of a body: in the LAST module of a document (a flat
   netlist is one module; the cells it uses need not be declared), an instance with a named port map followed by items
   that are not port declarations. The reader reaches the instance in the state s - after the modules before, the
   header and the items before - and under the typing hypotheses of the input class ON s (selects inside the declared
   ranges; the ports the referenced definition has so far are based at 0) the VALUE elab returns shows, in the
   definition of that module, bit k of every connection expression joined to bit k of the port. *)
Theorem C06_full_last_module_instance : forall pre m before m' i params attrs l after n,
  elab (pre ++ [m]) = Ok n -> vm_cell m = false ->
  vm_body m = before ++ IInst m' i params attrs (CNamed l) :: after -> Forall not_port_decl after ->
  exists s0 s5 cur s d,
    fold_res module_decl pre st_init = Ok s0 /\ module_open m s0 = Ok (s5, cur) /\ fold_res (body_item cur) before s5 = Ok s /\
    nth_error (nv_defs n) cur = Some d /\ nd_name d = vm_name m /\
    (vm_name m <> m' ->
     Forall (conn_typed (crange (get_def cur s))) l -> Forall (fun pc => has_glob (fst pc) = false) l ->
     (forall k, find_def m' s = Some k -> all_lo0 (get_def k s)) ->
     forall pc e r, In pc l -> In (e, r) (conn_meaning i (crange (get_def cur s)) pc) -> In e (net_of r d)).
Proof. exact last_module_instance_value. Qed.
Print Assumptions C06_full_last_module_instance.

(* the first module of ex_doc alone (sub and GND are never declared): u1's map is followed by a positional map and an
   assign; the theorem puts bit 1 of {b, w[2]} = b on bit 1 of q, and bit 1 of a[1:0] on bit 1 of p *)
Example C06_full_last_module_witness :
  match elab (firstn 1 ex_doc) with
  | Ok n => exists d, nth_error (nv_defs n) 0 = Some d /\ nd_name d = S "top" /\
                      In (EInst (S "u1") (LName (S "q")) 1) (net_of (S "b", 0) d) /\
                      In (EInst (S "u1") (LName (S "p")) 1) (net_of (S "a", 1) d)
  | Err _ => False
  end.
Proof.
  destruct (elab (firstn 1 ex_doc)) as [n|er] eqn:E; [|vm_compute in E; discriminate].
  destruct (C06_full_last_module_instance [] (nth 0 ex_doc {| vm_name := []; vm_cell := true; vm_params := []; vm_attrs := []; vm_header := []; vm_body := [] |})
              (firstn 4 (vm_body (nth 0 ex_doc {| vm_name := []; vm_cell := true; vm_params := []; vm_attrs := []; vm_header := []; vm_body := [] |})))
              (S "sub") (S "u1") [] []
              [(S "p", Some (DAtom (DPart (S "a") 1 0))); (S "q", Some (DCat [DId (S "b"); DBit (S "w") 2])); (S "r", None)]
              (skipn 5 (vm_body (nth 0 ex_doc {| vm_name := []; vm_cell := true; vm_params := []; vm_attrs := []; vm_header := []; vm_body := [] |})))
              n E eq_refl eq_refl) as (s0 & s5 & cur & s & d & E0 & E5 & Es & Hd & Nd & K).
  { repeat constructor. }
  cbn in E0. inversion E0; subst s0. clear E0.
  vm_compute in E5. inversion E5; subst s5 cur. clear E5.
  vm_compute in Es. inversion Es; subst s. clear Es.
  exists d. split; [exact Hd|]. split; [exact Nd|].
  match type of K with ?A -> _ => assert (H1 : A) by (vm_compute; discriminate) end. specialize (K H1).
  match type of K with ?A -> _ => assert (H2 : A) end.
  { constructor; [cbn; split; [reflexivity|]; cbn; exists 0, 4%nat; split; [vm_compute; reflexivity|lia]|].
    constructor; [cbn; split; [discriminate|]; constructor; [split; [reflexivity|exact Logic.I]|];
                  constructor; [split; [reflexivity|]; cbn; exists 0, 4%nat; split; [vm_compute; reflexivity|lia]|constructor]|].
    constructor; [exact Logic.I|constructor]. }
  specialize (K H2).
  match type of K with ?A -> _ => assert (H3 : A) by (repeat constructor) end. specialize (K H3).
  match type of K with ?A -> _ => assert (H4 : A) by (intros k Hk; vm_compute in Hk; discriminate) end. specialize (K H4).
  rename K into T.
  split.
  - apply (T (S "q", Some (DCat [DId (S "b"); DBit (S "w") 2]))); [right; left; reflexivity|]. vm_compute. left. reflexivity.
  - apply (T (S "p", Some (DAtom (DPart (S "a") 1 0)))); [left; reflexivity|]. vm_compute. left. reflexivity.
Qed.

(* ... and in ANY module m of a document, when the modules after m neither re-declare m nor declare the instantiated
   module (it is declared earlier in the file or never - no forward reference): while a later module is read its own
   definition is re-based freely, every other definition keeps its labels, instances and references
   (Proofs/VElabFrameX.v module_decl_LSX), so the connection keeps its meaning down to the value elab returns. *)
Theorem C06_full_module_instance : forall pre m post before m' i params attrs l after n,
  elab (pre ++ m :: post) = Ok n -> vm_cell m = false ->
  vm_body m = before ++ IInst m' i params attrs (CNamed l) :: after -> Forall not_port_decl after ->
  Forall (fun m2 => vm_name m2 <> vm_name m /\ vm_name m2 <> m') post ->
  exists s0 s5 cur s,
    fold_res module_decl pre st_init = Ok s0 /\ module_open m s0 = Ok (s5, cur) /\ fold_res (body_item cur) before s5 = Ok s /\
    Inv s /\ VInv s /\ ed_name (get_def cur s) = vm_name m /\
    (vm_name m <> m' ->
     Forall (conn_typed (crange (get_def cur s))) l -> Forall (fun pc => has_glob (fst pc) = false) l ->
     (forall k, find_def m' s = Some k -> all_lo0 (get_def k s)) ->
     forall pc e r, In pc l -> In (e, r) (conn_meaning i (crange (get_def cur s)) pc) ->
     exists d, nth_error (nv_defs n) cur = Some d /\ In e (net_of r d)).
Proof. exact module_instance_value. Qed.
Print Assumptions C06_full_module_instance.

(* sub declared first, then top (ex_doc in the other order), then a module with a re-basing declaration "input [7:4] z" *)
Definition ex_doc4 : vdoc :=
  match ex_doc with
  | top :: sub :: _ =>
      [sub; top; {| vm_name := S "aux"; vm_cell := false; vm_params := []; vm_attrs := [];
                    vm_header := [HPort None None (S "z")]; vm_body := [IPortDecl DIn None (Some (7, 4)) [S "z"] []] |}]
  | _ => []
  end.

Example C06_full_module_instance_witness :
  match elab ex_doc4 with
  | Ok n => exists d, nth_error (nv_defs n) 1 = Some d /\ In (EInst (S "u1") (LName (S "q")) 1) (net_of (S "b", 0) d)
  | Err _ => False
  end.
Proof.
  destruct (elab ex_doc4) as [n|er] eqn:E; [|vm_compute in E; discriminate].
  destruct (C06_full_module_instance (firstn 1 ex_doc4) (nth 1 ex_doc4 {| vm_name := []; vm_cell := true; vm_params := []; vm_attrs := []; vm_header := []; vm_body := [] |})
              (skipn 2 ex_doc4)
              (firstn 4 (vm_body (nth 1 ex_doc4 {| vm_name := []; vm_cell := true; vm_params := []; vm_attrs := []; vm_header := []; vm_body := [] |})))
              (S "sub") (S "u1") [] []
              [(S "p", Some (DAtom (DPart (S "a") 1 0))); (S "q", Some (DCat [DId (S "b"); DBit (S "w") 2])); (S "r", None)]
              (skipn 5 (vm_body (nth 1 ex_doc4 {| vm_name := []; vm_cell := true; vm_params := []; vm_attrs := []; vm_header := []; vm_body := [] |})))
              n E eq_refl eq_refl) as (s0 & s5 & cur & s & E0 & E5 & Es & _ & _ & _ & K).
  { repeat constructor. }
  { constructor; [|constructor]. split; vm_compute; discriminate. }
  vm_compute in E0. inversion E0; subst s0. clear E0.
  vm_compute in E5. inversion E5; subst s5 cur. clear E5.
  vm_compute in Es. inversion Es; subst s. clear Es.
  match type of K with ?A -> _ => assert (H1 : A) by (vm_compute; discriminate) end. specialize (K H1).
  match type of K with ?A -> _ => assert (H2 : A) end.
  { constructor; [cbn; split; [reflexivity|]; cbn; exists 0, 4%nat; split; [vm_compute; reflexivity|lia]|].
    constructor; [cbn; split; [discriminate|]; constructor; [split; [reflexivity|exact Logic.I]|];
                  constructor; [split; [reflexivity|]; cbn; exists 0, 4%nat; split; [vm_compute; reflexivity|lia]|constructor]|].
    constructor; [exact Logic.I|constructor]. }
  specialize (K H2).
  match type of K with ?A -> _ => assert (H3 : A) by (repeat constructor) end. specialize (K H3).
  match type of K with ?A -> _ => assert (H4 : A) end.
  { intros k Hk. vm_compute in Hk. inversion Hk; subst k. intros p Hp. vm_compute in Hp.
    repeat (destruct Hp as [<-|Hp]; [reflexivity|]). destruct Hp. }
  specialize (K H4).
  apply (K (S "q", Some (DCat [DId (S "b"); DBit (S "w") 2]))); [right; left; reflexivity|]. vm_compute. left. reflexivity.
Qed.

(* the same with the input class as ONE boolean predicate on the document (inst_in_class, Proofs/VElabRunX.v: the
   module is not a cell and does not instantiate itself here, selects inside the ranges the nets have at that point -
   env_before, computed by the reader model on the text before the instance -, no glob names, the ports the
   instantiated definition has so far based at 0, no port declaration later in the body, no later module re-declaring
   m or declaring the instantiated module), and no intermediate state in the statement: the connection clause of
   C06_full for named port maps. *)
Theorem C06_full_connections_named : forall pre m post before m' i params attrs l after n,
  elab (pre ++ m :: post) = Ok n ->
  vm_body m = before ++ IInst m' i params attrs (CNamed l) :: after ->
  inst_in_class pre m post before m' l after = true ->
  forall pc e r, In pc l -> In (e, r) (conn_meaning i (env_before pre m before) pc) ->
  exists d, nth_error (nv_defs n) (pos_before pre m before) = Some d /\ In e (net_of r d).
Proof. exact module_instance_class. Qed.
Print Assumptions C06_full_connections_named.

Example C06_full_connections_named_witness :
  let top := nth 1 ex_doc4 {| vm_name := []; vm_cell := true; vm_params := []; vm_attrs := []; vm_header := []; vm_body := [] |} in
  let l := [(S "p", Some (DAtom (DPart (S "a") 1 0))); (S "q", Some (DCat [DId (S "b"); DBit (S "w") 2])); (S "r", None)] in
  vm_body top = firstn 4 (vm_body top) ++ IInst (S "sub") (S "u1") [] [] (CNamed l) :: skipn 5 (vm_body top) /\
  inst_in_class (firstn 1 ex_doc4) top (skipn 2 ex_doc4) (firstn 4 (vm_body top)) (S "sub") l (skipn 5 (vm_body top)) = true /\
  pos_before (firstn 1 ex_doc4) top (firstn 4 (vm_body top)) = 1%nat /\
  conn_meaning (S "u1") (env_before (firstn 1 ex_doc4) top (firstn 4 (vm_body top))) (S "q", Some (DCat [DId (S "b"); DBit (S "w") 2])) =
    [(EInst (S "u1") (LName (S "q")) 1, (S "b", 0)); (EInst (S "u1") (LName (S "q")) 0, (S "w", 2))] /\
  (* a select outside the declared range is outside the class *)
  inst_in_class (firstn 1 ex_doc4) top (skipn 2 ex_doc4) (firstn 4 (vm_body top)) (S "sub") [(S "p", Some (DAtom (DBit (S "a") 9)))] [] = false.
Proof. vm_compute. repeat split. Qed.

(* the assign clause on whole documents: an assign in any module m (no port declaration after it in the body, no later
   module re-declaring m), read in the state s with both sides typed: the value elab returns holds, in the definition
   of m, one assignment whose pin k carries bit k - from the low end - of the left and of the right side, as wide as
   the narrower side *)
Theorem C06_full_assigns_document : forall pre m post before lhs rhs after n,
  elab (pre ++ m :: post) = Ok n -> vm_cell m = false ->
  vm_body m = before ++ IAssign lhs rhs :: after -> Forall not_port_decl after ->
  Forall (fun m2 => vm_name m2 <> vm_name m) post ->
  exists s0 s5 cur s,
    fold_res module_decl pre st_init = Ok s0 /\ module_open m s0 = Ok (s5, cur) /\ fold_res (body_item cur) before s5 = Ok s /\
    Inv s /\ VInv s /\
    (datom_typed (crange (get_def cur s)) lhs -> datom_typed (crange (get_def cur s)) rhs ->
     let lb := datom_bits (crange (get_def cur s)) lhs in let rb := datom_bits (crange (get_def cur s)) rhs in
     exists d, nth_error (nv_defs n) cur = Some d /\
       In (map (fun k => (nth_error lb k, nth_error rb k)) (seq 0 (Nat.min (length lb) (length rb)))) (nd_assigns d)).
Proof. exact module_assign_value. Qed.
Print Assumptions C06_full_assigns_document.

(* "assign y[0] = n1;" at the end of top in ex_doc4 (the module aux follows) *)
Example C06_full_assigns_document_witness :
  match elab ex_doc4 with
  | Ok n => exists d, nth_error (nv_defs n) 1 = Some d /\ In [(Some (S "y", 0), Some (S "n1", 0))] (nd_assigns d)
  | Err _ => False
  end.
Proof.
  destruct (elab ex_doc4) as [n|er] eqn:E; [|vm_compute in E; discriminate].
  destruct (C06_full_assigns_document (firstn 1 ex_doc4) (nth 1 ex_doc4 {| vm_name := []; vm_cell := true; vm_params := []; vm_attrs := []; vm_header := []; vm_body := [] |})
              (skipn 2 ex_doc4)
              (firstn 6 (vm_body (nth 1 ex_doc4 {| vm_name := []; vm_cell := true; vm_params := []; vm_attrs := []; vm_header := []; vm_body := [] |})))
              (DBit (S "y") 0) (DId (S "n1")) [] n E eq_refl eq_refl) as (s0 & s5 & cur & s & E0 & E5 & Es & _ & _ & K).
  { constructor. }
  { constructor; [|constructor]. vm_compute. discriminate. }
  vm_compute in E0. inversion E0; subst s0. clear E0.
  vm_compute in E5. inversion E5; subst s5 cur. clear E5.
  vm_compute in Es. inversion Es; subst s. clear Es.
  match type of K with ?A -> _ => assert (H1 : A) end.
  { split; [reflexivity|]. cbn. exists 0, 2%nat. split; [vm_compute; reflexivity|lia]. }
  specialize (K H1).
  match type of K with ?A -> _ => assert (H2 : A) by (split; [reflexivity|exact Logic.I]) end. specialize (K H2).
  cbv zeta in K. destruct K as (d & Hd & Hin). exists d. split; [exact Hd|]. vm_compute in Hin. exact Hin.
Qed.

(* the ports clause on whole documents: what the header and the port declarations of a module have joined when the last
   port declaration has been read (state s; for a plain header C06_full_ports says what: port bit k on bit k of the
   cable of the same name) is in the value elab returns - no typing hypothesis *)
Theorem C06_full_ports_document : forall pre m post before after sf,
  run (pre ++ m :: post) = Ok sf -> vm_cell m = false ->
  vm_body m = before ++ after -> Forall not_port_decl after ->
  Forall (fun m2 => vm_name m2 <> vm_name m) post ->
  exists s0 s5 cur s,
    fold_res module_decl pre st_init = Ok s0 /\ module_open m s0 = Ok (s5, cur) /\ fold_res (body_item cur) before s5 = Ok s /\
    Inv s /\ VInv s /\ ed_name (get_def cur s) = vm_name m /\
    forall lb b r, In (EPort lb b) (net_of r (abs_def s (get_def cur s))) ->
                   In (EPort lb b) (net_of r (abs_def sf (get_def cur sf))).
Proof. exact module_port_nets. Qed.
Print Assumptions C06_full_ports_document.

Example C06_full_ports_document_witness :
  match run ex_doc4 with
  | Ok sf => In (EPort (LName (S "a")) 3) (net_of (S "a", 3) (abs_def sf (get_def 1 sf)))
  | Err _ => False
  end.
Proof.
  destruct (run ex_doc4) as [sf|er] eqn:E; [|vm_compute in E; discriminate].
  destruct (C06_full_ports_document (firstn 1 ex_doc4) (nth 1 ex_doc4 {| vm_name := []; vm_cell := true; vm_params := []; vm_attrs := []; vm_header := []; vm_body := [] |})
              (skipn 2 ex_doc4)
              (firstn 3 (vm_body (nth 1 ex_doc4 {| vm_name := []; vm_cell := true; vm_params := []; vm_attrs := []; vm_header := []; vm_body := [] |})))
              (skipn 3 (vm_body (nth 1 ex_doc4 {| vm_name := []; vm_cell := true; vm_params := []; vm_attrs := []; vm_header := []; vm_body := [] |})))
              sf E eq_refl eq_refl) as (s0 & s5 & cur & s & E0 & E5 & Es & _ & _ & _ & K).
  { repeat constructor. }
  { constructor; [|constructor]. vm_compute. discriminate. }
  vm_compute in E0. inversion E0; subst s0. clear E0.
  vm_compute in E5. inversion E5; subst s5 cur. clear E5.
  vm_compute in Es. inversion Es; subst s. clear Es.
  apply K. vm_compute. left. reflexivity.
Qed.

(* the instances clause on whole documents (no typing hypothesis; named or positional map): every instantiation
   "m' i (...)" in a module m - no port declaration after it in the body, no later module re-declaring m - is an
   instance named i of module m' in a definition of the value *)
Theorem C06_full_instances_document : forall pre m post before m' i params attrs conns after n,
  elab (pre ++ m :: post) = Ok n -> vm_cell m = false ->
  vm_body m = before ++ IInst m' i params attrs conns :: after -> Forall not_port_decl after ->
  Forall (fun m2 => vm_name m2 <> vm_name m) post ->
  exists cur d, nth_error (nv_defs n) cur = Some d /\ In (i, m') (map (fun ni => (ni_name ni, ni_ref ni)) (nd_insts d)).
Proof. exact module_has_instance. Qed.
Print Assumptions C06_full_instances_document.

(* the positional instance "GND g(w[0], 1'b0)" of top in ex_doc4 *)
Example C06_full_instances_document_witness :
  match elab ex_doc4 with
  | Ok n => exists cur d, nth_error (nv_defs n) cur = Some d /\ In (S "g", S "GND") (map (fun ni => (ni_name ni, ni_ref ni)) (nd_insts d))
  | Err _ => False
  end.
Proof.
  destruct (elab ex_doc4) as [n|er] eqn:E; [|vm_compute in E; discriminate].
  apply (C06_full_instances_document (firstn 1 ex_doc4) (nth 1 ex_doc4 {| vm_name := []; vm_cell := true; vm_params := []; vm_attrs := []; vm_header := []; vm_body := [] |})
           (skipn 2 ex_doc4)
           (firstn 5 (vm_body (nth 1 ex_doc4 {| vm_name := []; vm_cell := true; vm_params := []; vm_attrs := []; vm_header := []; vm_body := [] |})))
           (S "GND") (S "g") [] [] (CPos [Some (DAtom (DBit (S "w") 0)); Some (DAtom (DConst false))])
           (skipn 6 (vm_body (nth 1 ex_doc4 {| vm_name := []; vm_cell := true; vm_params := []; vm_attrs := []; vm_header := []; vm_body := [] |})))
           n E eq_refl eq_refl).
  - repeat constructor.
  - constructor; [|constructor]. vm_compute. discriminate.
Qed.

(* ANSI headers: a direction, and the range given with it or after it, stays in force for the names that follow
   until the next direction keyword (former finding V06-ansi-inherit-dir) *)
Theorem C06_ansi_header_inherits : forall dr rg n rg' n' rest,
  inherit_header None (HPort (Some dr) rg n :: HPort None rg' n' :: rest) =
  HPort (Some dr) rg n :: HPort (Some dr) (match rg' with Some _ => rg' | None => rg end) n'
    :: inherit_header (Some (dr, match rg' with Some _ => rg' | None => rg end)) rest.
Proof. intros. reflexivity. Qed.
Print Assumptions C06_ansi_header_inherits.

Theorem C06_plain_header_unchanged : forall names, inherit_header None (map (HPort None None) names) = map (HPort None None) names.
Proof. induction names as [|n l IH]; cbn; [reflexivity|]. rewrite IH. reflexivity. Qed.
Print Assumptions C06_plain_header_unchanged.

(* "module m(input [3:0] a, b, output c, [1:0] d, e); endmodule" and a `celldefine module with an empty body
   (former findings V06-ansi-inherit-dir, V06-cell-empty-body; regression cases d3 / d8 of corpus/verilog) *)
Example C06_ansi_header_witness :
  match elab [ {| vm_name := S "m"; vm_cell := false; vm_params := []; vm_attrs := [];
                  vm_header := [HPort (Some DIn) (Some (3, 0)) (S "a"); HPort None None (S "b"); HPort (Some DOut) None (S "c");
                                HPort None (Some (1, 0)) (S "d"); HPort None None (S "e")];
                  vm_body := [] |};
               {| vm_name := S "c"; vm_cell := true; vm_params := []; vm_attrs := [];
                  vm_header := [HPort (Some DIn) None (S "i"); HPort None None (S "j")]; vm_body := [] |} ] with
  | Ok n => nv_top n = Some (S "m") /\
            map (fun d => map (fun p => (np_label p, np_dir p, np_width p)) (nd_ports d)) (nv_defs n) =
              [[(LName (S "a"), Some DIn, 4%nat); (LName (S "b"), Some DIn, 4%nat); (LName (S "c"), Some DOut, 1%nat);
                (LName (S "d"), Some DOut, 2%nat); (LName (S "e"), Some DOut, 2%nat)];
               [(LName (S "i"), Some DIn, 1%nat); (LName (S "j"), Some DIn, 1%nat)]]
  | Err _ => False
  end.
Proof. vm_compute. split; reflexivity. Qed.

(* The statement at full strength: denote = the meaning of a document (the Coq counterpart of
   harness/verilog_gen.expected), well_typed = the property's input class. Proved of it: the connection clause for
   named port maps (C06_full_connections_named, input class inst_in_class) and the assign clause
   (C06_full_assigns_document) on the value elab returns, C06_wf for all documents, the top clause (C06_full_top). *)
Definition C06_full (well_typed : vdoc -> Prop) (denote : vdoc -> nv -> Prop) : Prop :=
  forall d n, well_typed d -> elab d = Ok n -> exists m, denote d m /\ same_netlist m n.

(* ====================================================================================================
   Character level (lexer): Fmt/VLex.v models TokenFactory.add_character / flush and the tokenizer's
   generate_tokens / peek character by character (tied to VerilogTokenizer on every C06 run by
   harness/verilog_lex.py: every generated text, every wild / damaged text and every bundled example is
   tokenized by both and compared token by token).  [tokenize_raw] keeps comment tokens (generate_tokens),
   [tokenize] is what the parser sees (peek drops them).  The model is a structural recursion over the
   characters, so it terminates on every text by construction.
     C06_lex_consumes        : for ALL texts, the tokens concatenated are the text with its white space removed
                               character by character in order: every character that is not white space is in
                               exactly one raw token, nothing is invented (the one blank the factory puts at the
                               end of an escaped identifier is white space).
     C06_lex_seen_are_raw    : what the parser sees is the raw stream without the comment tokens.
     C06_lex_no_empty_token  : for ALL texts no token is empty.
     C06_lex_roundtrip       : for ALL lists of well-formed tokens (tok_ok: words = keywords, identifiers, numbers
                               such as 4'hA; the one-character tokens; escaped identifiers; strings) and every white
                               space separator: tokenize (print_with sep ts) = ts.
     C06_lex_block_comment / _line_comment / _white_space : for ALL a, b and comment bodies, when the factory is
                               between tokens after a (between_tokens: empty buffer, no flag - decidable by running
                               the model on a), tokenize (a ++ comment ++ b) = tokenize a ++ tokenize b; on the raw
                               stream the comment is exactly one token between the two.
     C06_lex_loop            : the accumulator forms that are extracted and run are the recursive forms.
   NOT proved - C06_lex_roundtrip_full stays a Definition: the same round trip for every token the lexer reads
   back on its own (compiler directives up to the new line, numbers with a dot such as 1.5, words containing a
   slash); the recursive descent from tokens to the document value (VerilogParser) is still not modelled.
   ==================================================================================================== *)
From SV Require Import Fmt.VLex Proofs.VLexProofs.
Open Scope N_scope.

Theorem C06_lex_consumes : forall s, strip_ws (concat (tokenize_raw s)) = strip_ws s.
Proof. exact tokenize_raw_consumes. Qed.
Print Assumptions C06_lex_consumes.

Theorem C06_lex_seen_are_raw : forall s, tokenize s = filter (fun t => negb (is_comment t)) (tokenize_raw s).
Proof. reflexivity. Qed.
Print Assumptions C06_lex_seen_are_raw.

Theorem C06_lex_no_empty_token : forall s, Forall (fun t => t <> []) (tokenize_raw s) /\ Forall (fun t => t <> []) (tokenize s).
Proof. exact (fun s => conj (tokenize_raw_nonempty s) (tokenize_nonempty s)). Qed.
Print Assumptions C06_lex_no_empty_token.

Theorem C06_lex_roundtrip : forall sep ts, is_ws sep = true -> forallb tok_ok ts = true ->
  tokenize (print_with sep ts) = ts /\ tokenize_raw (print_with sep ts) = ts.
Proof. exact (fun sep ts H1 H2 => conj (tokenize_print_with sep ts H1 H2) (tokenize_raw_print_with sep ts H1 H2)). Qed.
Print Assumptions C06_lex_roundtrip.

Theorem C06_lex_roundtrip_print_tokens : forall ts, forallb tok_ok ts = true -> tokenize (print_tokens ts) = ts.
Proof. exact tokenize_print_tokens. Qed.
Print Assumptions C06_lex_roundtrip_print_tokens.

Theorem C06_lex_block_comment : forall a body b, between_tokens a -> no_close None body = true ->
  tokenize (a ++ block_comment body ++ b) = tokenize a ++ tokenize b /\
  tokenize_raw (a ++ block_comment body ++ b) = tokenize_raw a ++ block_comment body :: tokenize_raw b.
Proof. exact (fun a body b H1 H2 => conj (tokenize_block_comment a body b H1 H2) (tokenize_raw_block_comment a body b H1 H2)). Qed.
Print Assumptions C06_lex_block_comment.

Theorem C06_lex_line_comment : forall a body b, between_tokens a -> forallb (fun x => negb (x =? 10)) body = true ->
  tokenize (a ++ line_comment body ++ 10 :: b) = tokenize a ++ tokenize b /\
  tokenize_raw (a ++ line_comment body ++ 10 :: b) = tokenize_raw a ++ line_comment body :: tokenize_raw b.
Proof. exact (fun a body b H1 H2 => conj (tokenize_line_comment a body b H1 H2) (tokenize_raw_line_comment a body b H1 H2)). Qed.
Print Assumptions C06_lex_line_comment.

Theorem C06_lex_white_space : forall a w b, between_tokens a -> forallb is_ws w = true ->
  tokenize_raw (a ++ w ++ b) = tokenize_raw a ++ tokenize_raw b.
Proof. exact tokenize_raw_ws. Qed.
Print Assumptions C06_lex_white_space.

Theorem C06_lex_loop : forall s, tokenize_raw_loop s = tokenize_raw s /\ tokenize_loop s = tokenize s.
Proof. exact (fun s => conj (tokenize_raw_loop_eq s) (tokenize_loop_eq s)). Qed.
Print Assumptions C06_lex_loop.

(* the round trip for every token that the lexer reads back on its own (directives need sep = new line) *)
Definition C06_lex_roundtrip_full : Prop :=
  forall sep ts, is_ws sep = true -> Forall (fun t => tokenize_raw (t ++ [sep]) = [t]) ts ->
  tokenize_raw (print_with sep ts) = ts.

(* a source of three modules with a line comment, a directive, a block comment, an attribute with a string,
   escaped identifiers, sized constants and a defparam; the expected token lists below were produced by
   spydrnet's VerilogTokenizer (generate_tokens / has_next-next) on the same text *)
Definition lex_head : str := S "// three modules
`timescale 1ns/1ps
".
Definition lex_a : str := S "module leaf(input a, output [1:0] y); ".
Definition lex_cbody : str := S " empty: a*b / c **".
Definition lex_b : str := S " endmodule
(* top = ""yes"" *) module mid(a, \b[0] , c);
  input a; inout \b[0] ; output c;
  wire [3:0] w;
  leaf u0(.a(a), .y(w[1:0]));
  assign c = w[0];
endmodule
module top(); wire x; mid m0(.a(1'b0), .\b[0] (x), .c());
  defparam m0.P = 4'hA;
endmodule
".
Definition lex_src : str := lex_head ++ lex_a ++ block_comment lex_cbody ++ lex_b.
Definition lex_src_raw_tokens : list tok := map s2l
    ["// three modules"; "`timescale 1ns/1ps"; "module"; "leaf"; "("; "input"; "a"; ","; "output"; "["; 
     "1"; ":"; "0"; "]"; "y"; ")"; ";"; "/* empty: a*b / c ***/"; "endmodule"; "("; "*"; "top"; "="; 
     """yes"""; "*"; ")"; "module"; "mid"; "("; "a"; ","; "\b[0] "; ","; "c"; ")"; ";"; "input"; "a"; 
     ";"; "inout"; "\b[0] "; ";"; "output"; "c"; ";"; "wire"; "["; "3"; ":"; "0"; "]"; "w"; ";"; "leaf"; 
     "u0"; "("; "."; "a"; "("; "a"; ")"; ","; "."; "y"; "("; "w"; "["; "1"; ":"; "0"; "]"; ")"; ")"; 
     ";"; "assign"; "c"; "="; "w"; "["; "0"; "]"; ";"; "endmodule"; "module"; "top"; "("; ")"; ";"; 
     "wire"; "x"; ";"; "mid"; "m0"; "("; "."; "a"; "("; "1'b0"; ")"; ","; "."; "\b[0] "; "("; "x"; ")"; 
     ","; "."; "c"; "("; ")"; ")"; ";"; "defparam"; "m0"; "."; "P"; "="; "4'hA"; ";"; "endmodule"]%string.
Definition lex_src_tokens : list tok := map s2l
    ["`timescale 1ns/1ps"; "module"; "leaf"; "("; "input"; "a"; ","; "output"; "["; "1"; ":"; "0"; "]"; 
     "y"; ")"; ";"; "endmodule"; "("; "*"; "top"; "="; """yes"""; "*"; ")"; "module"; "mid"; "("; "a"; 
     ","; "\b[0] "; ","; "c"; ")"; ";"; "input"; "a"; ";"; "inout"; "\b[0] "; ";"; "output"; "c"; ";"; 
     "wire"; "["; "3"; ":"; "0"; "]"; "w"; ";"; "leaf"; "u0"; "("; "."; "a"; "("; "a"; ")"; ","; "."; 
     "y"; "("; "w"; "["; "1"; ":"; "0"; "]"; ")"; ")"; ";"; "assign"; "c"; "="; "w"; "["; "0"; "]"; ";"; 
     "endmodule"; "module"; "top"; "("; ")"; ";"; "wire"; "x"; ";"; "mid"; "m0"; "("; "."; "a"; "("; 
     "1'b0"; ")"; ","; "."; "\b[0] "; "("; "x"; ")"; ","; "."; "c"; "("; ")"; ")"; ";"; "defparam"; 
     "m0"; "."; "P"; "="; "4'hA"; ";"; "endmodule"]%string.

Example C06_lex_tokens_witness :
  tokenize_raw lex_src = lex_src_raw_tokens /\ tokenize lex_src = lex_src_tokens /\
  length (tokenize_raw lex_src) = 120%nat /\ length (tokenize lex_src) = 118%nat.
Proof. vm_compute. repeat split; reflexivity. Qed.

Example C06_lex_consumes_witness :
  strip_ws (concat (tokenize_raw lex_src)) = strip_ws lex_src /\ length (strip_ws lex_src) = 283%nat /\
  length lex_src = 353%nat.
Proof. vm_compute. repeat split; reflexivity. Qed.

Example C06_lex_no_empty_token_witness : forallb (fun t => negb (is_nil t)) (tokenize_raw lex_src) = true.
Proof. vm_compute. reflexivity. Qed.

(* the three modules (without the directive line) consist of well-formed tokens of all four classes, and
   printing them with any of the five separators and reading them back is the identity *)
Example C06_lex_roundtrip_witness :
  let ts := tokenize (lex_a ++ lex_b) in
  forallb tok_ok ts = true /\ length ts = 117%nat /\
  existsb word_ok ts && existsb punct_ok ts && existsb escaped_ok ts && existsb string_ok ts = true /\
  tokenize (print_tokens ts) = ts /\ tokenize (print_with 10 ts) = ts /\ print_tokens ts <> lex_a ++ lex_b.
Proof. vm_compute. repeat split; try reflexivity. discriminate. Qed.

(* the hypotheses of the comment theorems hold for the example: after "...y); " the factory is between tokens,
   the body " empty: a*b / c **" does not close the comment early *)
Example C06_lex_block_comment_witness :
  between_tokens (lex_head ++ lex_a) /\ no_close None lex_cbody = true /\
  tokenize lex_src = tokenize (lex_head ++ lex_a) ++ tokenize lex_b /\
  length (tokenize (lex_head ++ lex_a)) = 16%nat /\ length (tokenize lex_b) = 102%nat /\
  ~ between_tokens (S "module leaf(input a").
Proof.
  split; [split; vm_compute; reflexivity|]. split; [vm_compute; reflexivity|]. split.
  - vm_compute; reflexivity.
  - split; [vm_compute; reflexivity|]. split; [vm_compute; reflexivity|]. intros [H _]. vm_compute in H. discriminate.
Qed.

Example C06_lex_line_comment_witness :
  between_tokens [] /\
  tokenize_raw (line_comment (S " three modules") ++ 10 :: lex_a) = line_comment (S " three modules") :: tokenize_raw lex_a /\
  tokenize (line_comment (S " three modules") ++ 10 :: lex_a) = tokenize lex_a.
Proof. split; [split; reflexivity|]. vm_compute. split; reflexivity. Qed.
