(* C06 - The Verilog reader builds exactly the design the source describes. Property theorems only.
   Proved, for ALL expressions / ranges / call sequences: the connection clause ("bit k of the expression,
   counted from its least significant end, is joined to bit k of the port") for identifier, bit-select,
   part-select, constants (one-wire cables) and concatenations, for any port width >= expression width;
   create_or_update_cable / _port growth and re-basing.
   Not proved: the document-level statement C06_full (module table, forward references, top election,
   assigns, parameters, attributes) - VRead.elab is not modelled; covered by the oracle of
   harness/verilog_check.py on the implementation only. Character-level tokenisation is not modelled. *)
From Coq Require Import List ZArith Bool Permutation.
From SV Require Import Base.Base Fmt.VBits Fmt.VExpr Fmt.VDoc Fmt.VTop
  Proofs.VerilogLists Proofs.VerilogSlice Proofs.VerilogGrow Proofs.VerilogPort Proofs.VerilogAssign Proofs.VerilogTop.
Import ListNotations.
Open Scope Z_scope.

(* (c) low-end alignment *)
Theorem C06_lowend_align : forall (W : Type) (ws : list W) (pins : list nat) (n : nat),
  Permutation pins (seq 0 n) -> (length ws <= n)%nat ->
  align Z.of_nat pins ws = Some (combine ws (rev (seq 0 (length ws)))).
Proof. exact lowend_align_lemma. Qed.
Print Assumptions C06_lowend_align.

Theorem C06_lowend_align_bit : forall (W : Type) (ws : list W) (pins : list nat) (n k : nat) (w : W),
  Permutation pins (seq 0 n) -> (length ws <= n)%nat -> (k < length ws)%nat ->
  nth_error ws (length ws - 1 - k) = Some w ->
  exists calls, align Z.of_nat pins ws = Some calls /\ In (w, k) calls /\
    (forall w' k', In (w', k') calls -> (k' < length ws)%nat).
Proof. exact lowend_align_bit_lemma. Qed.
Print Assumptions C06_lowend_align_bit.

(* the reader's wire list of a well-typed expression is the expression's meaning (LSB-first net bits), reversed *)
Theorem C06_expr_denote : forall e x, expr_typed e x ->
  exists t, reader_expr e x = Some t /\ rev t = expr_bits e x.
Proof. exact expr_denote_lemma. Qed.
Print Assumptions C06_expr_denote.

(* connection clause of the property *)
Theorem C06_port_map_denote : forall e x (pins : list nat) (n : nat),
  expr_typed e x -> Permutation pins (seq 0 n) -> (length (expr_bits e x) <= n)%nat ->
  exists t calls, reader_expr e x = Some t /\ align Z.of_nat pins t = Some calls /\
    length calls = length (expr_bits e x) /\
    forall k w, nth_error (expr_bits e x) k = Some w -> In (w, k) calls.
Proof. exact port_map_denote_lemma. Qed.
Print Assumptions C06_port_map_denote.

Example C06_port_map_denote_witness :
  let e : env := fun c => if Nat.eqb c 0 then (2, 4%nat) else (0, 1%nat) in
  let x := ECat [APart 0%nat 5 4; AId 1%nat; ABit 0%nat 2] in
  expr_bits e x = [(0%nat, 2); (1%nat, 0); (0%nat, 4); (0%nat, 5)] /\
  reader_expr e x = Some [(0%nat, 5); (0%nat, 4); (1%nat, 0); (0%nat, 2)] /\
  align Z.of_nat [3;1;4;0;2]%nat [(0%nat, 5); (0%nat, 4); (1%nat, 0); (0%nat, 2)] =
    Some [((0%nat, 5), 3%nat); ((0%nat, 4), 2%nat); ((1%nat, 0), 1%nat); ((0%nat, 2), 0%nat)].
Proof. vm_compute. repeat split. Qed.

(* (d) after any sequence of create_or_update_cable calls the cable covers exactly the hull of all ranges
   seen, and the wire that was bit i is still bit i *)
Theorem C06_grow_rebase_correct : forall (rs : list (option Z * option Z)) (b : bundle), wfb b ->
  let b' := fold_left upd rs b in
  wfb b' /\ b_lo b' = hull_lo (b_lo b) rs /\ b_hi b' = hull_hi (b_hi b) rs /\
  Z.of_nat (length (b_items b')) = b_hi b' - b_lo b' + 1 /\
  (forall i, b_lo b <= i <= b_hi b -> item_at b' i = item_at b i) /\
  (forall x, In x (b_items b') -> In x (b_items b) \/ (b_next b <= x)%nat).
Proof. exact grow_rebase_lemma. Qed.
Print Assumptions C06_grow_rebase_correct.

Example C06_grow_rebase_witness :
  let b := new_bundle (Some 3) (Some 2) 0 in
  let b' := fold_left upd [(Some 5, None); (Some 1, Some 0); (None, None); (Some 4, Some 7)] b in
  b_lo b' = 0 /\ b_items b' = [4;5;0;1;2;3;6;7]%nat /\ item_at b' 2 = Some 0%nat /\ item_at b' 3 = Some 1%nat.
Proof. vm_compute. repeat split. Qed.

(* a defining declaration ("input [7:4] a;" after "module m(a)") re-bases: positions keep their objects,
   Verilog indices shift *)
Theorem C06_rebase_shift : forall b l r il iu, wfb b -> in_range l r = Some (il, iu) ->
  let b' := update_cable l r true b in
  wfb b' /\ b_lo b' = il /\ b_hi b' = Z.max iu (il + Z.of_nat (length (b_items b)) - 1) /\
  (forall i, b_lo b <= i <= b_hi b -> item_at b' (i - b_lo b + il) = item_at b i).
Proof. exact rebase_shift_lemma. Qed.
Print Assumptions C06_rebase_shift.

(* ports: same function as for cables whenever the request has the port's base (module ports based at 0) *)
Theorem C06_update_port_same_base : forall b l r d il iu, wfb b -> in_range l r = Some (il, iu) ->
  b_lo (rebase d il b) = il -> update_port l r d b = update_cable l r d b.
Proof. exact update_port_same_base_lemma. Qed.
Print Assumptions C06_update_port_same_base.

(* ... and NOT in general: a port [3:0] asked for [4:1] keeps its 4 pins (the width already matches) *)
Example C06_update_port_other_base_no_hull :
  let b := new_bundle (Some 3) (Some 0) 0 in
  b_hi (update_port (Some 4) (Some 1) false b) = 3 /\ b_hi (update_cable (Some 4) (Some 1) false b) = 4.
Proof. vm_compute. split; reflexivity. Qed.

(* assign statements: in the faithful model of connect_wires_for_assign pin k of the assignment instance carries
   bit w-1-k of both sides; the clause "pin k carries bit k" is REFUTED for multi-bit assigns (open finding
   V06-assign-msb-first; witness replayed by corpus/verilog/a1-multi-bit-assign.json). The two sides are still
   paired bit by bit (lhs bit j with rhs bit j). *)
Theorem C06_assign_pins_msb_first : forall e c h l c2 h2 l2 k,
  atom_typed e (APart c h l) -> atom_typed e (APart c2 h2 l2) -> h - l = h2 - l2 -> 0 <= k <= h - l ->
  exists pins, read_assign e (APart c h l) (APart c2 h2 l2) = Some pins /\
    nth_error pins (Z.to_nat k) = Some ((c, h - k), (c2, h2 - k)).
Proof. exact assign_pins_msb_first_lemma. Qed.
Print Assumptions C06_assign_pins_msb_first.

Theorem C06_assign_clause_refuted : ~ assign_lsb_pins.
Proof. exact assign_lsb_pins_refuted_lemma. Qed.
Print Assumptions C06_assign_clause_refuted.

(* top election. The clause "the single root module of the design becomes the top" is REFUTED for the faithful
   model of parse_module / parse_instantiation (open finding V06-top-election; bundled synth_th1_slaac.v;
   witness replayed by corpus/verilog/t1-top-election-three-levels.json); it holds when the root comes first. *)
Theorem C06_top_clause_refuted : ~ top_is_root.
Proof. exact top_is_root_refuted_lemma. Qed.
Print Assumptions C06_top_clause_refuted.

Theorem C06_root_first_is_top : forall r insts rest,
  (forall d, In d ((r, false, insts) :: rest) -> snd (fst d) = false -> ~ In r (snd d)) ->
  forall t, In t (elect ((r, false, insts) :: rest)) -> t = r.
Proof. exact root_first_is_top_lemma. Qed.
Print Assumptions C06_root_first_is_top.

Example C06_root_first_is_top_witness :
  let doc : list dmod := [(1, false, [2; 0]); (0, false, []); (2, false, [0])]%nat in
  (forall d, In d doc -> snd (fst d) = false -> ~ In 1%nat (snd d)) /\ elect doc = [1%nat].
Proof.
  split; [|vm_compute; reflexivity].
  intros d [<-|[<-|[<-|[]]]] _ H; cbn in H; intuition discriminate.
Qed.

(* The statement at full strength. elab: document-level model of VerilogParser.parse_verilog (not written);
   denote: the meaning of a document (the Coq counterpart of harness/verilog_gen.expected). *)
Definition C06_full (elab : vdoc -> option nv) (well_typed : vdoc -> Prop) (denote : vdoc -> nv -> Prop) : Prop :=
  forall d n, well_typed d -> elab d = Some n -> exists m, denote d m /\ same_netlist m n.
