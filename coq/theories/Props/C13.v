(* C13 - Query filters mean what they say. Property theorems only.
   Models: Query/Glob.v, Query/Regex.v, Query/Patterns.v (spydrnet/util/patterns.py),
   Query/Filter.v (the filter stages shared by spydrnet/util/get_*.py).
   Query/Enum.v (the candidate enumeration of the eight non-hierarchical query functions per kind of
   root object, and the whole queries = enumeration + stages + callback) and Query/EnumSpec.v (the
   declarative specification of which elements a root leads to), second half of this file.
   Not modelled: the candidate enumeration of the five hierarchical functions (get_hinstances ... get_hwires); that part is
   tied to the property by the metamorphic oracle of harness/query_check.py. *)
From Coq Require Import List NArith Bool Permutation String.
From SV Require Import Base.Base IR.State IR.NS IR.Ops Hier.Paths Hier.Trace
  Query.Glob Query.Regex Query.Patterns Query.Filter Query.Enum Query.EnumSpec
  Proofs.QueryGlob Proofs.QueryRegex Proofs.QueryFilterA Proofs.QueryFilterB Proofs.QueryFilter
  Proofs.NsInv Proofs.QueryEnumBase Proofs.QueryEnumInst Proofs.QueryEnumPorts Proofs.QueryEnumNetl
  Proofs.QueryEnumPins Proofs.QueryEnumDefs Proofs.QueryEnumLibs Proofs.QueryEnumCables Proofs.QueryEnumFull Proofs.QueryEnumEx
  Proofs.QueryEnumTerm Proofs.QueryEnumTerm2 Proofs.QueryEnumWires Proofs.QueryEnumWiresSpec Proofs.QueryEnumWiresAll
  Proofs.QueryEnumCablesAll Proofs.QueryEnumAllFull Proofs.QueryEnumWiresAllRoots Proofs.QueryEnumCablesAllRoots Proofs.QueryEnumLookIdent
  Proofs.QueryEnumPolCoh Proofs.QueryEnumLookAll.
Import ListNotations.
Local Open Scope string_scope.
Local Open Scope list_scope.

(* ---- wildcard mode ---------------------------------------------------------------------- *)

(* the code path  pattern.replace("[","[[]") ; fnmatch.translate ; match  is glob_match, and
   is_case=False lower-cases both sides *)
Theorem C13_code_path_is_glob : forall v p is_case,
  value_matches_glob v p is_case =
  if is_case then glob_match p (value_or_empty v) else glob_match (lower p) (lower (value_or_empty v)).
Proof. exact value_matches_glob_eq. Qed.
Print Assumptions C13_code_path_is_glob.

(* glob_match decides the declarative wildcard relation: sound and complete for all p, v *)
Theorem C13_glob_match_iff : forall p v, glob_match p v = true <-> Matches p v.
Proof. exact glob_match_iff. Qed.
Print Assumptions C13_glob_match_iff.

(* a pattern without * and ? matches exactly itself (brackets and every other character included) *)
Theorem C13_glob_literal : forall p, no_wild p -> forall v, glob_match p v = true <-> v = p.
Proof. exact glob_literal. Qed.
Print Assumptions C13_glob_literal.

Theorem C13_glob_star : forall p v,
  glob_match (STAR :: p) v = true <-> exists v1 v2, v = v1 ++ v2 /\ glob_match p v2 = true.
Proof. exact glob_star. Qed.
Print Assumptions C13_glob_star.

Theorem C13_glob_question : forall p v,
  glob_match (QUEST :: p) v = true <-> exists x v', v = x :: v' /\ glob_match p v' = true.
Proof. exact glob_question. Qed.
Print Assumptions C13_glob_question.

Theorem C13_glob_prefix : forall s, no_wild s -> forall v,
  glob_match (s ++ [STAR]) v = true <-> exists w, v = s ++ w.
Proof. exact glob_prefix. Qed.
Print Assumptions C13_glob_prefix.

(* is_case=False: the match of the lower-cased sides is the case-insensitive wildcard relation *)
Theorem C13_nocase_iff_lower : forall p v, glob_match (lower p) (lower v) = true <-> MatchesCI p v.
Proof. exact nocase_iff_lower. Qed.
Print Assumptions C13_nocase_iff_lower.

Theorem C13_nocase_literal : forall p, no_wild p -> forall v,
  glob_match (lower p) (lower v) = true <-> lower v = lower p.
Proof. exact nocase_literal. Qed.
Print Assumptions C13_nocase_literal.

(* _is_pattern_absolute *)
Theorem C13_absolute_iff : forall p is_case is_re,
  is_pattern_absolute p is_case is_re = true <-> is_case = true /\ is_re = false /\ no_wild p.
Proof. exact absolute_iff. Qed.
Print Assumptions C13_absolute_iff.

(* an absolute pattern matches by equality: what justifies answering it by a name lookup *)
Theorem C13_absolute_match_eq : forall p is_case is_re v,
  is_pattern_absolute p is_case is_re = true ->
  (value_matches_glob v p is_case = true <-> value_or_empty v = p).
Proof. exact absolute_match_eq. Qed.
Print Assumptions C13_absolute_match_eq.

Example C13_literal_hypothesis_satisfiable :
  no_wild (s2l "a[0]!-]") /\ glob_match (s2l "a[0]!-]") (s2l "a[0]!-]") = true.
Proof. exact x_no_wild. Qed.

Example C13_absolute_example :
  is_pattern_absolute (s2l "a[0]") true false = true /\ value_matches_glob (Some (s2l "a[0]")) (s2l "a[0]") true = true.
Proof. split; vm_compute; reflexivity. Qed.

(* ---- regex mode -------------------------------------------------------------------------- *)

(* the derivative matcher decides the declarative meaning of the expression (ci = IGNORECASE) *)
Theorem C13_rmatch_iff : forall ci v r, rmatch ci r v = true <-> RM ci r v.
Proof. exact rmatch_iff. Qed.
Print Assumptions C13_rmatch_iff.

Theorem C13_regex_escape_spec : forall s v, rmatch false (regex_escape s) v = true <-> v = s.
Proof. exact regex_escape_spec. Qed.
Print Assumptions C13_regex_escape_spec.

Theorem C13_regex_escape_nocase : forall s v, rmatch true (regex_escape s) v = true <-> lower v = lower s.
Proof. exact regex_escape_nocase. Qed.
Print Assumptions C13_regex_escape_nocase.

(* re.escape(s) + ".*" : the strings that start with s and continue without a newline *)
Theorem C13_regex_prefix_spec : forall s v,
  rmatch false (regex_prefix s) v = true <-> exists w, v = s ++ w /\ ~ In NL w.
Proof. exact regex_prefix_spec. Qed.
Print Assumptions C13_regex_prefix_spec.

(* the parser reads the text produced by re.escape as that expression *)
Theorem C13_parse_escape : forall s, parse_re (re_escape_str s) = Some (regex_escape s).
Proof. exact parse_escape. Qed.
Print Assumptions C13_parse_escape.

Theorem C13_parse_escape_dotstar : forall s,
  parse_re (re_escape_str s ++ [46; 42]%N) = Some (regex_prefix s).
Proof. exact parse_escape_dotstar. Qed.
Print Assumptions C13_parse_escape_dotstar.

(* ---- the filter stages --------------------------------------------------------------------- *)

(* the property on the two-stage queries (get_libraries / get_definitions / get_instances /
   get_ports / get_cables), at full strength *)
Definition C13_full : Prop := filter_full_statement.

(* holds since the repair of findings C13-K1 / C13-K2 (every yield of the name-map stage consumes the
   element; what the first stage yielded is kept apart).
   lookups_ok: every lookup agrees with the linear scan that returns every child carrying the value
   (for a registered lookup: the invariant of property C10; for the scan itself - user keys - trivially,
   since the repair of C13-K5); patterns are non-empty strings.
   "matches" (sel_match) is per element: an exact pattern is compared the way the namespace of the
   element compares - fold e: the key is EDIF.identifier and the element is under the EDIF policy, then
   case-insensitively - everywhere: fast lookup, scan, name-map stages, get_netlists (finding C13-K4
   repaired: only the fast lookup used to fold). *)
Theorem C13_full_holds : C13_full.
Proof. exact filter_full. Qed.
Print Assumptions C13_full_holds.

(* the former witnesses of the duplicate yields: get_instances(instance, ['a','a*']) (also in the
   other order and with the pattern repeated), get_definitions / get_ports / get_cables likewise,
   get_instances([definition, instance of it], 'a*'): one element named a, yielded once *)
Example C13_former_duplicate_witnesses :
  run_query true false w_key (fun _ => false) true BFound [] [0] w_pats = [0] /\
  (run_query true false w_key (fun _ => false) true BFound [] [0] [s2l "a*"; s2l "a"] = [0] /\
   run_query true false w_key (fun _ => false) true BFound [] [0] [s2l "a"; s2l "a"] = [0]) /\
  run_query true false w_key (fun _ => false) false BNames [] [0] w_pats = [0] /\
  run_query true false w_key (fun _ => false) true BFound [(Filter.scan_lookup w_key (fun _ => false) [0], [0])] [0] [s2l "a*"] = [0].
Proof.
  split; [exact witness_found_once|]. split; [exact witness_found_once_rev|].
  split; [exact witness_names_once|exact witness_found_not_reiterated].
Qed.

(* the former witness of C13-K4: elements 1 and 2 carry the identifier Foo, 1 is under the EDIF policy:
   the exact pattern FOO selects 1 and only 1, in the name-map stages, through the scan, in get_netlists *)
Example C13_exact_identifier_case_example :
  run_query true false f_key f_fold false BNames [] [1; 2] [s2l "FOO"] = [1] /\
  run_query true false f_key f_fold false BNames [(Filter.scan_lookup f_key f_fold [1; 2], [1; 2])] [] [s2l "FOO"] = [1] /\
  run_query true false f_key f_fold true BFound [] [1; 2] [s2l "FOO"] = [1] /\
  run_netlists true false f_key f_fold [1; 2] [s2l "FOO"] = [1].
Proof. exact x_fold. Qed.

Example C13_filter_hypotheses_satisfiable :
  lookups_ok x_key (fun _ => false) x_parents /\ ~ In [] [s2l "a[0]"; s2l "a*"].
Proof. exact x_lookups_ok. Qed.

(* stage A alone never yields an element twice, whatever the lookups answer *)
Theorem C13_stageA_NoDup : forall key mt ab nk parents pats found,
  NoDup (stageA key mt ab nk parents pats found).
Proof. exact (fun key => stageA_NoDup key (fun _ => false)). Qed.
Print Assumptions C13_stageA_NoDup.

(* get_netlists *)
Theorem C13_netlists_spec : forall ic ir key fold objs pats, ~ In [] pats ->
  NoDup (run_netlists ic ir key fold objs pats) /\
  forall e, In e (run_netlists ic ir key fold objs pats) <-> In e objs /\ sel_match ic ir key fold pats e = true.
Proof. exact run_netlists_spec. Qed.
Print Assumptions C13_netlists_spec.

Example C13_netlists_example :
  ~ In [] [s2l "n1"; s2l "N*"] /\
  run_netlists false false (fun e => match e with 0 => Some (s2l "n1") | 1 => Some (s2l "n2") | _ => None end)
               (fun _ => false) [0; 1; 0; 2] [s2l "n1"; s2l "N*"] = [0; 1].
Proof. exact x_netlists. Qed.

(* the name stage of the hierarchical queries *)
Theorem C13_hier_spec : forall ic ir hname refs in_yield pats, NoDup refs ->
  NoDup (run_hier ic ir hname refs in_yield pats) /\
  forall e, In e (run_hier ic ir hname refs in_yield pats) <->
            In e refs /\ ~ In e in_yield /\ existsb (fun p => matches_b ic ir p (hname e)) pats = true.
Proof. exact run_hier_spec. Qed.
Print Assumptions C13_hier_spec.

Example C13_hier_example :
  NoDup [0; 1; 2] /\
  run_hier true false (fun e => match e with 0 => s2l "u0" | 1 => s2l "u0/c" | _ => s2l "u1" end)
           [0; 1; 2] [2] [s2l "u0"; s2l "u*"] = [0; 1].
Proof. exact x_hier. Qed.

(* the filter law of the five hierarchical queries, for every kind of root and every selection (since
   the repair of finding C13-K6 nothing is yielded before the patterns are looked at): the result for
   a pattern = the unfiltered result (refs, the references the function finds; their enumeration is
   the hier engine's) restricted to the references whose hierarchical name matches; no duplicates.
   Tied on every run: the stage-level request "H" evaluates run_hier on the implementation's own
   unfiltered result and compares with the implementation's filtered result, for roots of every kind. *)
Theorem C13_hier_filters_unfiltered : forall ic ir hname refs pats, NoDup refs ->
  NoDup (run_hier ic ir hname refs [] pats) /\
  forall e, In e (run_hier ic ir hname refs [] pats) <->
            In e (run_hier true false hname refs [] star_pat) /\ existsb (fun p => matches_b ic ir p (hname e)) pats = true.
Proof. exact hier_filters_unfiltered. Qed.
Print Assumptions C13_hier_filters_unfiltered.

Theorem C13_hier_unfiltered : forall hname refs, NoDup refs ->
  forall e, In e (run_hier true false hname refs [] star_pat) <-> In e refs.
Proof. exact hier_unfiltered. Qed.
Print Assumptions C13_hier_unfiltered.

(* ============================================================================================ *)
(* The whole query functions: candidate enumeration per kind of root object (Query/Enum.v) against
   the declarative specification (Query/EnumSpec.v), then the stages above.

   Hypotheses:  QWF s      - containment / reference sets / pin-wire links / outer-pin tables exact
                             (properties C01, C02), ids well-kinded, references point at definitions:
                             holds in every state reached by editing calls (C13_reachable_states);
                LookOK s.. - under the chosen key global_service.lookup agrees with a linear scan
                             returning every child that carries the value (for .NAME it follows from
                             C10's table invariant, C13_lookup_hypothesis_for_names; for keys without a
                             registered lookup it holds outright, C13_lookup_hypothesis_for_scanned_keys);
                ~ In [] pats - the empty string is not a pattern;
                "= WOk res"  - the run terminated within the fuel and did not raise.
   A root is any [item]: an element of any class, an outer pin, a detached outer pin, a hierarchical
   reference. *)

Theorem C13_reachable_states : forall ops, QWF (Ops.run ops State.init).
Proof. exact reachable_qwf. Qed.
Print Assumptions C13_reachable_states.

Theorem C13_lookup_hypothesis_for_names : forall s reg r,
  NsInv s -> ns_rel r = true -> (forall p, NoDup (kids s r p)) -> LookOK s reg str_NAME r.
Proof. exact lookok_name. Qed.
Print Assumptions C13_lookup_hypothesis_for_names.

(* under the DEFAULT policy the hypothesis holds for every other key, EDIF.identifier included: the
   namespaces index names only, the registered lookup says so (NotImplemented) and
   global_service.lookup scans (finding C13-K3 repaired: it used to answer "nothing") *)
Theorem C13_lookup_hypothesis_default_policy : forall s reg k r,
  (forall p t, nstab s p = Some t -> ns_pol t = PolDefault) -> str_eqb k str_NAME = false -> LookOK s reg k r.
Proof. exact lookok_default_policy. Qed.
Print Assumptions C13_lookup_hypothesis_default_policy.

(* under the EDIF policy the hypothesis holds for EDIF.identifier as well (finding C13-K4 repaired: the
   scan compares an identifier the way the namespace of the child does): the table answers with the
   child whose lower-cased identifier is the lower-cased value (C10's invariant NsInv) and the scan
   returns exactly that child - provided the children of a parent with an EDIF table are themselves
   under the EDIF policy (PolCoh: child[".NS"] follows the parent, NamespaceManager.add). PolCoh holds in
   every state reached by editing calls (C13_policy_coherence_reachable), so the hypothesis LookOK is
   discharged there for both registered keys (C13_lookup_hypothesis_reachable) - no side condition left. *)
Theorem C13_lookup_hypothesis_for_identifiers : forall s reg r,
  NsInv s -> ns_rel r = true -> (forall p, NoDup (kids s r p)) -> PolCoh s r -> LookOK s reg str_IDENT r.
Proof. exact lookok_edif_ident. Qed.
Print Assumptions C13_lookup_hypothesis_for_identifiers.

Theorem C13_policy_coherence_reachable : forall ops r, ns_rel r = true -> PolCoh (Ops.run ops State.init) r.
Proof. exact reachable_polcoh. Qed.
Print Assumptions C13_policy_coherence_reachable.

(* in every state reached by editing calls: global_service.lookup = the scan, for .NAME and for
   EDIF.identifier, under either policy, lookups registered or not (user keys: C13_lookup_hypothesis_for_scanned_keys) *)
Theorem C13_lookup_hypothesis_reachable : forall ops reg r, ns_rel r = true ->
  LookOK (Ops.run ops State.init) reg str_NAME r /\ LookOK (Ops.run ops State.init) reg str_IDENT r.
Proof. exact (fun ops reg r Hr => conj (reachable_lookok_name ops reg r Hr) (reachable_lookok_ident ops reg r Hr)). Qed.
Print Assumptions C13_lookup_hypothesis_reachable.

(* the former witness of C13-K3: child 10 carries the identifier x; exact pattern, registered and
   deregistered lookups, and the wildcard form agree *)
Example C13_default_policy_hypotheses_satisfiable :
  (forall p t, nstab ex_id p = Some t -> ns_pol t = PolDefault) /\ str_eqb str_IDENT str_NAME = false /\
  query_instances ex_id (mkQ true true false str_IDENT (fun _ => true)) 100 [IE 5] false true [s2l "x"] = WOk [10] /\
  query_instances ex_id (mkQ false true false str_IDENT (fun _ => true)) 100 [IE 5] false true [s2l "x"] = WOk [10] /\
  query_instances ex_id (mkQ true true false str_IDENT (fun _ => true)) 100 [IE 5] false true [s2l "x*"] = WOk [10].
Proof. exact ex_default_policy. Qed.

(* for a key without a registered lookup (user keys), or with the lookups deregistered, the hypothesis
   holds outright: global_service.lookup scans the children and returns every child carrying the
   value (finding C13-K5 repaired: it used to return the first one only) *)
Theorem C13_lookup_hypothesis_for_scanned_keys : forall s reg k r,
  reg && registered_key k = false -> LookOK s reg k r.
Proof. exact lookok_scan. Qed.
Print Assumptions C13_lookup_hypothesis_for_scanned_keys.

(* the former witness of C13-K5: children 1 and 2 share the value v under a user key; the exact
   pattern v selects both, like v* *)
Definition k5_key (e : id) : option str := match e with 1 | 2 => Some (s2l "v") | _ => None end.
Example C13_scanned_keys_example :
  true && registered_key (s2l "USER.k") = false /\
  run_query true false k5_key (fun _ => false) false BNames [(Filter.scan_lookup k5_key (fun _ => false) [1; 2; 3], [1; 2; 3])] [] [s2l "v"] = [1; 2] /\
  run_query true false k5_key (fun _ => false) false BNames [(Filter.scan_lookup k5_key (fun _ => false) [1; 2; 3], [1; 2; 3])] [] [s2l "v*"] = [1; 2].
Proof. vm_compute. repeat split; reflexivity. Qed.

Example C13_enumeration_hypotheses_satisfiable :
  QWF ex /\ LookOK ex true str_NAME RChildren /\ LookOK ex false str_NAME RDefs /\
  LookOK ex true str_NAME RLibs /\ LookOK ex true str_NAME RPorts /\ LookOK ex true str_NAME RCables.
Proof. exact ex_hypotheses. Qed.

(* ---- get_instances ---- *)

(* the candidates walked from a root are exactly the elements the specification names *)
Theorem C13_get_instances_candidates : forall s, QWF s -> forall rec inside fuel root ps os,
  cands_instances s fuel [root] rec inside = WOk (ps, os) ->
  (forall e, (exists p, In p ps /\ In e (kids s RChildren p)) <-> reachA_instances s rec inside root e) /\
  (forall e, In e os <-> reachB_instances s rec inside root e).
Proof. exact cands_instances_spec. Qed.
Print Assumptions C13_get_instances_candidates.

(* result = { e the root leads to | value under the key matches one of the patterns, callback accepts } *)
Theorem C13_get_instances : forall s, QWF s -> forall o fuel root rec inside pats res,
  LookOK s (q_reg o) (q_key o) RChildren -> ~ In [] pats ->
  query_instances s o fuel [root] rec inside pats = WOk res ->
  forall e, In e res <->
    ((reachA_instances s rec inside root e /\ Filter.has_key (key_of s (q_key o)) e = true) \/
     reachB_instances s rec inside root e) /\
    (sel_match (q_case o) (q_re o) (key_of s (q_key o)) (fold_of s (q_key o)) pats e = true /\ q_cb o e = true).
Proof. exact query_instances_spec. Qed.
Print Assumptions C13_get_instances.

(* no element twice, for any collection of roots *)
Theorem C13_get_instances_NoDup : forall s o fuel roots rec inside pats res,
  query_instances s o fuel roots rec inside pats = WOk res -> NoDup res.
Proof. exact query_instances_NoDup. Qed.
Print Assumptions C13_get_instances_NoDup.

(* the statement that findings C13-K1 / C13-K2 refuted before the repair; its former witness
   get_instances(instance u, ['a', 'a*']) on a netlist reached by editing calls now yields child a once,
   and so does get_instances([definition, instance of it], 'a*'); replayed on the implementation on every run *)
Definition C13_get_instances_NoDup_full : Prop := instances_nodup_full.
Theorem C13_get_instances_NoDup_holds : C13_get_instances_NoDup_full.
Proof. exact instances_nodup_holds. Qed.
Print Assumptions C13_get_instances_NoDup_holds.

Example C13_get_instances_former_witness :
  query_instances ex (opt_name true) 100 [IE 14] false true [s2l "a"; s2l "a*"] = WOk [10; 11] /\
  query_instances ex (opt_name true) 100 [IE 5; IE 14] false true [s2l "a*"] = WOk [10; 11].
Proof. split; [exact ex_instances_once|exact ex_instances_once_collection]. Qed.

(* for any COLLECTION of roots: the result for a pattern list is the unfiltered result restricted to
   the matching elements; the order of the patterns is irrelevant; with and without the fast lookup
   the same list is returned *)
Theorem C13_get_instances_filters_unfiltered : forall s o fuel roots rec inside pats res ures,
  LookOK s (q_reg o) (q_key o) RChildren -> ~ In [] pats ->
  query_instances s o fuel roots rec inside pats = WOk res ->
  query_instances s (unfiltered o) fuel roots rec inside star_pat = WOk ures ->
  forall e, In e res <-> In e ures /\ sel_match (q_case o) (q_re o) (key_of s (q_key o)) (fold_of s (q_key o)) pats e = true.
Proof. exact instances_filters_unfiltered. Qed.
Print Assumptions C13_get_instances_filters_unfiltered.

Theorem C13_get_instances_pattern_order : forall s o fuel roots rec inside pats pats' res res',
  LookOK s (q_reg o) (q_key o) RChildren -> ~ In [] pats -> Permutation pats pats' ->
  query_instances s o fuel roots rec inside pats = WOk res ->
  query_instances s o fuel roots rec inside pats' = WOk res' -> forall e, In e res <-> In e res'.
Proof. exact instances_pattern_order. Qed.
Print Assumptions C13_get_instances_pattern_order.

Theorem C13_get_instances_fast_eq_scan : forall s o fuel roots rec inside pats,
  LookOK s (q_reg o) (q_key o) RChildren ->
  query_instances s o fuel roots rec inside pats =
  query_instances s (mkQ false (q_case o) (q_re o) (q_key o) (q_cb o)) fuel roots rec inside pats.
Proof. exact instances_fast_eq_scan. Qed.
Print Assumptions C13_get_instances_fast_eq_scan.

Example C13_get_instances_example :
  query_instances ex (opt_name true) 100 [IE 0] true true [s2l "a*"] = WOk [15; 10; 11] /\
  query_instances ex (opt_name true) 100 [IE 2] true false [s2l "*"] = WOk [14; 16; 15; 11; 10].
Proof. split; [exact ex_instances_netlist_recursive|exact ex_instances_outside_recursive]. Qed.

(* ---- get_definitions ---- *)
Theorem C13_get_definitions_candidates : forall s, QWF s -> forall rec inside fuel root ps os,
  cands_definitions s fuel [root] rec inside = WOk (ps, os) ->
  (forall e, (exists p, In p ps /\ In e (kids s RDefs p)) <-> reachA_definitions s inside root e) /\
  (forall e, In e os <-> reachB_definitions s rec inside root e) /\ NoDup os.
Proof. exact cands_definitions_spec. Qed.
Print Assumptions C13_get_definitions_candidates.

Theorem C13_get_definitions : forall s, QWF s -> forall o fuel root rec inside pats res,
  LookOK s (q_reg o) (q_key o) RDefs -> ~ In [] pats ->
  query_definitions s o fuel [root] rec inside pats = WOk res ->
  forall e, In e res <->
    (reachA_definitions s inside root e \/ reachB_definitions s rec inside root e) /\
    (sel_match (q_case o) (q_re o) (key_of s (q_key o)) (fold_of s (q_key o)) pats e = true /\ q_cb o e = true).
Proof. exact query_definitions_spec. Qed.
Print Assumptions C13_get_definitions.

Theorem C13_get_definitions_NoDup : forall s o fuel roots rec inside pats res,
  query_definitions s o fuel roots rec inside pats = WOk res -> NoDup res.
Proof. exact query_definitions_NoDup. Qed.
Print Assumptions C13_get_definitions_NoDup.

Theorem C13_get_definitions_filters_unfiltered : forall s o fuel roots rec inside pats res ures,
  LookOK s (q_reg o) (q_key o) RDefs -> ~ In [] pats ->
  query_definitions s o fuel roots rec inside pats = WOk res ->
  query_definitions s (unfiltered o) fuel roots rec inside star_pat = WOk ures ->
  forall e, In e res <-> In e ures /\ sel_match (q_case o) (q_re o) (key_of s (q_key o)) (fold_of s (q_key o)) pats e = true.
Proof. exact definitions_filters_unfiltered. Qed.
Print Assumptions C13_get_definitions_filters_unfiltered.

Theorem C13_get_definitions_pattern_order : forall s o fuel roots rec inside pats pats' res res',
  LookOK s (q_reg o) (q_key o) RDefs -> ~ In [] pats -> Permutation pats pats' ->
  query_definitions s o fuel roots rec inside pats = WOk res ->
  query_definitions s o fuel roots rec inside pats' = WOk res' -> forall e, In e res <-> In e res'.
Proof. exact definitions_pattern_order. Qed.
Print Assumptions C13_get_definitions_pattern_order.

Theorem C13_get_definitions_fast_eq_scan : forall s o fuel roots rec inside pats,
  LookOK s (q_reg o) (q_key o) RDefs ->
  query_definitions s o fuel roots rec inside pats =
  query_definitions s (mkQ false (q_case o) (q_re o) (q_key o) (q_cb o)) fuel roots rec inside pats.
Proof. exact definitions_fast_eq_scan. Qed.
Print Assumptions C13_get_definitions_fast_eq_scan.

Example C13_get_definitions_example :
  query_definitions ex (opt_name true) 100 [IE 0] true true [s2l "*"] = WOk [13; 2; 5].
Proof. exact ex_definitions_netlist. Qed.

(* ---- get_libraries ---- *)

(* every root, selection and recursive setting *)
Theorem C13_get_libraries_candidates : forall s, QWF s -> forall rec inside fuel root ps os,
  cands_libraries s fuel [root] rec inside = WOk (ps, os) ->
  (forall e, (exists p, In p ps /\ In e (kids s RLibs p)) <-> reachA_libraries s root e) /\
  (forall e, In e os <-> reachB_libraries s rec inside root e) /\ NoDup os.
Proof. exact cands_libraries_spec. Qed.
Print Assumptions C13_get_libraries_candidates.

Theorem C13_get_libraries : forall s, QWF s -> forall o fuel root rec inside pats res,
  LookOK s (q_reg o) (q_key o) RLibs -> ~ In [] pats ->
  query_libraries s o fuel [root] rec inside pats = WOk res ->
  forall e, In e res <->
    (reachA_libraries s root e \/ reachB_libraries s rec inside root e) /\
    (sel_match (q_case o) (q_re o) (key_of s (q_key o)) (fold_of s (q_key o)) pats e = true /\ q_cb o e = true).
Proof. exact query_libraries_spec. Qed.
Print Assumptions C13_get_libraries.

(* the case in which recursive used to be ignored (repaired in the code, the model follows), on its
   own: the library of the enclosing definition and, recursive, of every definition above it *)
Theorem C13_get_libraries_instance_outside : forall s, QWF s -> forall o fuel root x rec pats res,
  LookOK s (q_reg o) (q_key o) RLibs -> ~ In [] pats ->
  item_owner s root x -> kind_of s x = Some KInstance ->
  query_libraries s o fuel [root] rec false pats = WOk res ->
  forall e, In e res <->
    (exists p d', par s RChildren x = Some p /\ star (used_by s) rec p d' /\ par s RDefs d' = Some e) /\
    (sel_match (q_case o) (q_re o) (key_of s (q_key o)) (fold_of s (q_key o)) pats e = true /\ q_cb o e = true).
Proof. exact query_libraries_instance_outside. Qed.
Print Assumptions C13_get_libraries_instance_outside.

(* the statement without any exclusion, as one proposition. It was refuted by the faithful model
   (C13_get_libraries_refuted: get_libraries(instance, selection=OUTSIDE, recursive=True) missed the
   libraries above the enclosing definition, "object_collection += parent" iterated the keys of the
   definition's dictionary); repaired in the code, the former witness is the regression Example below
   and is replayed on the implementation on every run *)
Definition C13_get_libraries_full : Prop := libraries_full.
Theorem C13_get_libraries_full_holds : C13_get_libraries_full.
Proof. exact libraries_full_holds. Qed.
Print Assumptions C13_get_libraries_full_holds.

Example C13_get_libraries_instance_outside_recursive_example :
  query_libraries ex (opt_name true) 100 [IE 10] true false [s2l "*"] = WOk [12; 1].
Proof. exact ex_libraries_above. Qed.

Theorem C13_get_libraries_NoDup : forall s o fuel roots rec inside pats res,
  query_libraries s o fuel roots rec inside pats = WOk res -> NoDup res.
Proof. exact query_libraries_NoDup. Qed.
Print Assumptions C13_get_libraries_NoDup.

Theorem C13_get_libraries_filters_unfiltered : forall s o fuel roots rec inside pats res ures,
  LookOK s (q_reg o) (q_key o) RLibs -> ~ In [] pats ->
  query_libraries s o fuel roots rec inside pats = WOk res ->
  query_libraries s (unfiltered o) fuel roots rec inside star_pat = WOk ures ->
  forall e, In e res <-> In e ures /\ sel_match (q_case o) (q_re o) (key_of s (q_key o)) (fold_of s (q_key o)) pats e = true.
Proof. exact libraries_filters_unfiltered. Qed.
Print Assumptions C13_get_libraries_filters_unfiltered.

Theorem C13_get_libraries_pattern_order : forall s o fuel roots rec inside pats pats' res res',
  LookOK s (q_reg o) (q_key o) RLibs -> ~ In [] pats -> Permutation pats pats' ->
  query_libraries s o fuel roots rec inside pats = WOk res ->
  query_libraries s o fuel roots rec inside pats' = WOk res' -> forall e, In e res <-> In e res'.
Proof. exact libraries_pattern_order. Qed.
Print Assumptions C13_get_libraries_pattern_order.

Theorem C13_get_libraries_fast_eq_scan : forall s o fuel roots rec inside pats,
  LookOK s (q_reg o) (q_key o) RLibs ->
  query_libraries s o fuel roots rec inside pats =
  query_libraries s (mkQ false (q_case o) (q_re o) (q_key o) (q_cb o)) fuel roots rec inside pats.
Proof. exact libraries_fast_eq_scan. Qed.
Print Assumptions C13_get_libraries_fast_eq_scan.

Example C13_get_libraries_example :
  query_libraries ex (opt_name true) 100 [IE 2] true false [s2l "*"] = WOk [12; 1] /\
  query_libraries ex (opt_name true) 100 [IE 10] true false [s2l "*"] = WOk [12; 1].
Proof. split; [exact ex_libraries_definition_outside|exact ex_libraries_above]. Qed.

(* ---- get_ports: the whole property, every root ---- *)
Theorem C13_get_ports_candidates : forall s, QWF s -> forall fuel root ps os,
  cands_ports s fuel [root] = WOk (ps, os) ->
  (forall e, (exists p, In p ps /\ In e (kids s RPorts p)) <-> reachA_ports s root e) /\
  (forall e, In e os <-> reachB_ports s root e) /\ NoDup os.
Proof. exact cands_ports_spec. Qed.
Print Assumptions C13_get_ports_candidates.

Theorem C13_get_ports : forall s, QWF s -> forall o fuel root pats res,
  LookOK s (q_reg o) (q_key o) RPorts -> ~ In [] pats ->
  query_ports s o fuel [root] pats = WOk res ->
  NoDup res /\
  forall e, In e res <->
    (reachA_ports s root e \/ reachB_ports s root e) /\
    (sel_match (q_case o) (q_re o) (key_of s (q_key o)) (fold_of s (q_key o)) pats e = true /\ q_cb o e = true).
Proof. exact query_ports_spec. Qed.
Print Assumptions C13_get_ports.

Theorem C13_get_ports_NoDup : forall s o fuel roots pats res,
  query_ports s o fuel roots pats = WOk res -> NoDup res.
Proof. exact ports_NoDup. Qed.
Print Assumptions C13_get_ports_NoDup.

Theorem C13_get_ports_filters_unfiltered : forall s o fuel roots pats res ures,
  LookOK s (q_reg o) (q_key o) RPorts -> ~ In [] pats ->
  query_ports s o fuel roots pats = WOk res ->
  query_ports s (unfiltered o) fuel roots star_pat = WOk ures ->
  forall e, In e res <-> In e ures /\ sel_match (q_case o) (q_re o) (key_of s (q_key o)) (fold_of s (q_key o)) pats e = true.
Proof. exact ports_filters_unfiltered. Qed.
Print Assumptions C13_get_ports_filters_unfiltered.

Theorem C13_get_ports_pattern_order : forall s o fuel roots pats pats' res res',
  LookOK s (q_reg o) (q_key o) RPorts -> ~ In [] pats -> Permutation pats pats' ->
  query_ports s o fuel roots pats = WOk res ->
  query_ports s o fuel roots pats' = WOk res' -> forall e, In e res <-> In e res'.
Proof. exact ports_pattern_order. Qed.
Print Assumptions C13_get_ports_pattern_order.

Theorem C13_get_ports_fast_eq_scan : forall s o fuel roots pats,
  LookOK s (q_reg o) (q_key o) RPorts ->
  query_ports s o fuel roots pats = query_ports s (mkQ false (q_case o) (q_re o) (q_key o) (q_cb o)) fuel roots pats.
Proof. exact ports_fast_eq_scan. Qed.
Print Assumptions C13_get_ports_fast_eq_scan.

Example C13_get_ports_example : query_ports ex (opt_name true) 100 [IE 9] [s2l "*"] = WOk [3; 6].
Proof. exact ex_ports_wire. Qed.

(* ---- get_netlists: the whole property, every root ---- *)
Theorem C13_get_netlists : forall s, QWF s -> forall o fuel root pats res, ~ In [] pats ->
  query_netlists s o fuel [root] pats = WOk res ->
  NoDup res /\
  forall n, In n res <-> reach_netlists s root n /\
    (sel_match (q_case o) (q_re o) (key_of s (q_key o)) (fold_of s (q_key o)) pats n = true /\ q_cb o n = true).
Proof. exact query_netlists_spec. Qed.
Print Assumptions C13_get_netlists.

Example C13_get_netlists_example : query_netlists ex (opt_name true) 100 [IE 4] [s2l "n"] = WOk [0].
Proof. exact ex_netlists_pin. Qed.

(* ---- get_pins (no patterns): every pin the root leads to, once, the callback on top ---- *)
Theorem C13_get_pins : forall s, QWF s -> forall inside cb fuel root res,
  query_pins s cb fuel [root] inside = WOk res ->
  NoDup res /\ forall r, In r res <-> reach_pins s inside root r /\ cb r = true.
Proof. exact query_pins_spec. Qed.
Print Assumptions C13_get_pins.

Example C13_get_pins_example : query_pins ex (fun _ => true) 100 [IE 9] false = WOk [POut 10 4; POut 14 7].
Proof. exact ex_pins_wire_outside. Qed.

(* ---- get_cables: selections INSIDE, OUTSIDE, BOTH - every kind of root, recursive or not (ALL: below) ---- *)
Theorem C13_get_cables_candidates : forall s, QWF s -> forall rec x fuel root ps os,
  sel_all x = false -> cands_cables s fuel [root] rec x = WOk (ps, os) ->
  (forall e, (exists p, In p ps /\ In e (kids s RCables p)) <-> reachA_cables s x root e) /\
  (forall e, In e os <-> reachB_cables s rec x root e) /\ NoDup os.
Proof. exact cands_cables_spec. Qed.
Print Assumptions C13_get_cables_candidates.

Theorem C13_get_cables : forall s, QWF s -> forall o fuel root rec x pats res,
  sel_all x = false -> LookOK s (q_reg o) (q_key o) RCables -> ~ In [] pats ->
  query_cables s o fuel [root] rec x pats = WOk res ->
  NoDup res /\
  forall e, In e res <->
    (reachA_cables s x root e \/ reachB_cables s rec x root e) /\
    (sel_match (q_case o) (q_re o) (key_of s (q_key o)) (fold_of s (q_key o)) pats e = true /\ q_cb o e = true).
Proof. exact query_cables_spec. Qed.
Print Assumptions C13_get_cables.

(* ---- get_cables, selection ALL, every kind of root, recursive or not: the walk across hierarchy
   boundaries. Specification (Proofs/QueryEnumCablesAll.v; declarative, no loop):
     lead_defs s root d     the definitions the root stands for (their cables: first stage);
     cables_all s root c    c is the cable of a wire in reach_wire_all s root (the closure under wire_adj -
                            a wire on either side, at any level, of a pin of a searched wire - from the
                            wires at the pins the root leads to, lead_pin), or a cable of the definition
                            instantiated by an instance the root leads to (lead_insts). ---- *)
Theorem C13_get_cables_all_candidates : forall s, QWF s -> forall rec fuel root ps os,
  cands_cables s fuel [root] rec SAll = WOk (ps, os) ->
  (forall d, In d ps <-> lead_defs s root d) /\ NoDup os /\ forall c, In c os <-> cables_all s root c.
Proof. exact cands_cables_all_candidates. Qed.
Print Assumptions C13_get_cables_all_candidates.

Theorem C13_get_cables_all : forall s, QWF s -> forall o fuel root rec pats res,
  LookOK s (q_reg o) (q_key o) RCables -> ~ In [] pats ->
  query_cables s o fuel [root] rec SAll pats = WOk res ->
  NoDup res /\
  forall e, In e res <->
    ((exists d, lead_defs s root d /\ par s RCables e = Some d) \/ cables_all s root e) /\
    (sel_match (q_case o) (q_re o) (key_of s (q_key o)) (fold_of s (q_key o)) pats e = true /\ q_cb o e = true).
Proof. exact query_cables_all_spec. Qed.
Print Assumptions C13_get_cables_all.

(* ANY COLLECTION of roots, exact: for get_cables the result is the union over the roots (a mark set
   during an earlier root's walk only suppresses work already done) *)
Theorem C13_get_cables_all_roots_candidates : forall s, QWF s -> forall rec fuel roots ps os,
  cands_cables s fuel roots rec SAll = WOk (ps, os) ->
  (forall d, In d ps <-> exists it, In it roots /\ lead_defs s it d) /\ NoDup os /\
  forall c, In c os <-> exists it, In it roots /\ cables_all s it c.
Proof. exact cands_cables_all_roots_exact. Qed.
Print Assumptions C13_get_cables_all_roots_candidates.

Theorem C13_get_cables_all_roots : forall s, QWF s -> forall o fuel roots rec pats res,
  LookOK s (q_reg o) (q_key o) RCables -> ~ In [] pats ->
  query_cables s o fuel roots rec SAll pats = WOk res ->
  NoDup res /\
  forall e, In e res <->
    (exists it, In it roots /\ ((exists d, lead_defs s it d /\ par s RCables e = Some d) \/ cables_all s it e)) /\
    (sel_match (q_case o) (q_re o) (key_of s (q_key o)) (fold_of s (q_key o)) pats e = true /\ q_cb o e = true).
Proof. exact query_cables_all_roots_spec. Qed.
Print Assumptions C13_get_cables_all_roots.

(* the wires searched = the final mark set of the loop = the closure *)
Theorem C13_get_cables_all_searched_wires : forall s, QWF s -> forall rec fuel root st',
  wl (acts_cables s rec SAll) (bad_cables s SAll) fuel [root] (mkW [] []) = WOk st' ->
  forall w, In w (w_marks st') <-> reach_wire_all s root w.
Proof. exact searched_wires_all_final. Qed.
Print Assumptions C13_get_cables_all_searched_wires.

Theorem C13_reach_wire_all_closure : forall s root w,
  reach_wire_all s root w <-> exists p, lead_pin s root p /\ closure_of s [p] w.
Proof. exact reach_wire_all_closure. Qed.
Print Assumptions C13_reach_wire_all_closure.

Example C13_get_cables_all_example :
  cands_cables exa 100 [IE 21] false SBoth = WOk ([], [17; 19]) /\
  cands_cables exa 100 [IE 21] false SAll = WOk ([], [17; 19; 8]).
Proof. split; [exact exa_cables_both|exact exa_cables_all]. Qed.

(* ---- get_cables: the clauses that do not depend on the enumeration, for any collection of roots,
        every selection (INSIDE, OUTSIDE, BOTH, ALL) and recursive setting ---- *)
Theorem C13_get_cables_NoDup : forall s o fuel roots rec x pats res,
  query_cables s o fuel roots rec x pats = WOk res -> NoDup res.
Proof. exact cables_NoDup. Qed.
Print Assumptions C13_get_cables_NoDup.

Theorem C13_get_cables_filters_unfiltered : forall s o fuel roots rec x pats res ures,
  LookOK s (q_reg o) (q_key o) RCables -> ~ In [] pats ->
  query_cables s o fuel roots rec x pats = WOk res ->
  query_cables s (unfiltered o) fuel roots rec x star_pat = WOk ures ->
  forall e, In e res <-> In e ures /\ sel_match (q_case o) (q_re o) (key_of s (q_key o)) (fold_of s (q_key o)) pats e = true.
Proof. exact cables_filters_unfiltered. Qed.
Print Assumptions C13_get_cables_filters_unfiltered.

Theorem C13_get_cables_pattern_order : forall s o fuel roots rec x pats pats' res res',
  LookOK s (q_reg o) (q_key o) RCables -> ~ In [] pats -> Permutation pats pats' ->
  query_cables s o fuel roots rec x pats = WOk res ->
  query_cables s o fuel roots rec x pats' = WOk res' -> forall e, In e res <-> In e res'.
Proof. exact cables_pattern_order. Qed.
Print Assumptions C13_get_cables_pattern_order.

Theorem C13_get_cables_fast_eq_scan : forall s o fuel roots rec x pats,
  LookOK s (q_reg o) (q_key o) RCables ->
  query_cables s o fuel roots rec x pats =
  query_cables s (mkQ false (q_case o) (q_re o) (q_key o) (q_cb o)) fuel roots rec x pats.
Proof. exact cables_fast_eq_scan. Qed.
Print Assumptions C13_get_cables_fast_eq_scan.

(* ---- get_wires (no patterns): for any collection of roots, every selection and recursive setting,
        no wire is yielded twice and the callback is applied on top ---- *)
Theorem C13_get_wires_NoDup : forall s cb fuel roots rec x res,
  query_wires s cb fuel roots rec x = WOk res -> NoDup res.
Proof. exact query_wires_NoDup. Qed.
Print Assumptions C13_get_wires_NoDup.

Theorem C13_get_wires_callback : forall s cb fuel roots rec x res,
  query_wires s cb fuel roots rec x = WOk res ->
  exists all, query_wires s (fun _ => true) fuel roots rec x = WOk all /\ res = filter cb all.
Proof. exact query_wires_callback. Qed.
Print Assumptions C13_get_wires_callback.

(* selections INSIDE, OUTSIDE, BOTH, every kind of root: exactly the wires the specification names
   (selection ALL: C13_get_wires_all below) *)
Theorem C13_get_wires : forall s, QWF s -> forall rec cb fuel root x res,
  sel_all x = false -> query_wires s cb fuel [root] rec x = WOk res ->
  NoDup res /\ forall w, In w res <-> reach_wires s rec x root w /\ cb w = true.
Proof. exact query_wires_spec. Qed.
Print Assumptions C13_get_wires.

(* selection ALL, every kind of root: the walk across hierarchy boundaries is a closure.
   reach_wires_all (Proofs/QueryEnumWiresAll.v; declarative, no loop): the wires the first loop names
   for the root (all_item .. (WY w): INSIDE part) or reachable from a pin it collects (all_item .. (WP q))
   through wire_adj steps (w' on either side, at any hierarchy level, of a pin of w:
   wire_adj s w w' <-> exists q, pin_wire s q = Some w /\ pin_wires s SAll q w', C13_wire_adj_spec)
   that stay outside the first loop's wires (those are in the result anyway and are not searched). *)
Theorem C13_get_wires_all : forall s, QWF s -> forall rec cb fuel root res,
  query_wires s cb fuel [root] rec SAll = WOk res ->
  NoDup res /\ forall w, In w res <-> reach_wires_all s root w /\ cb w = true.
Proof. exact query_wires_all_spec. Qed.
Print Assumptions C13_get_wires_all.

Theorem C13_wire_adj_spec : forall s, QWF s -> forall w w',
  wire_adj s w w' <-> exists q, pin_wire s q = Some w /\ pin_wires s SAll q w'.
Proof. exact wire_adj_spec. Qed.
Print Assumptions C13_wire_adj_spec.

(* the second loop on its own, started from pins with nothing yielded yet: exactly the reflexive-
   transitive closure of wire_adj from the wires at those pins, no duplicates (no heap hypothesis) *)
Theorem C13_get_wires_all_closure : forall s fuel pins res,
  rounds s SAll fuel pins [] [] = WOk res ->
  NoDup res /\ forall w, In w res <-> closure_of s pins w.
Proof. exact rounds_all_closure. Qed.
Print Assumptions C13_get_wires_all_closure.

(* for any collection of roots: nothing outside the closure is returned *)
Theorem C13_get_wires_all_sound : forall s cb fuel roots rec l res,
  wl_run (acts_wires s rec SAll) (bad_wires s SAll) fuel roots = WOk l ->
  query_wires s cb fuel roots rec SAll = WOk res ->
  forall w, In w res -> cb w = true /\ (In w (yielded l) \/ closure_of s (searched l) w).
Proof. exact query_wires_all_sound. Qed.
Print Assumptions C13_get_wires_all_sound.

(* selection ALL for ANY COLLECTION of roots, exact: the first loop names the union of what each root
   names (all_roots_out); the second loop is the closure from the collected pins on paths outside the
   wires the first loop yielded for ANY of the roots - so the result for a collection can be smaller than
   the union of the single-root results' searches, and is stated over the collection as a whole *)
Theorem C13_get_wires_all_roots : forall s, QWF s -> forall rec cb fuel roots res,
  query_wires s cb fuel roots rec SAll = WOk res ->
  NoDup res /\ forall w, In w res <-> reach_wires_all_roots s roots w /\ cb w = true.
Proof. exact query_wires_all_roots_spec. Qed.
Print Assumptions C13_get_wires_all_roots.

Theorem C13_reach_wires_all_roots_one : forall s root w,
  reach_wires_all_roots s [root] w <-> reach_wires_all s root w.
Proof. exact reach_wires_all_roots_one. Qed.
Print Assumptions C13_reach_wires_all_roots_one.

(* under ALL the setting of recursive does not change the result (as a set) *)
Theorem C13_get_wires_all_recursive_irrelevant : forall s, QWF s -> forall cb f1 f2 rec1 rec2 root r1 r2,
  query_wires s cb f1 [root] rec1 SAll = WOk r1 -> query_wires s cb f2 [root] rec2 SAll = WOk r2 ->
  forall w, In w r1 <-> In w r2.
Proof. exact query_wires_all_rec. Qed.
Print Assumptions C13_get_wires_all_recursive_irrelevant.

Example C13_get_wires_all_example :
  query_wires exa (fun _ => true) 100 [IE 9] false SBoth = WOk [9; 20; 18] /\
  query_wires exa (fun _ => true) 100 [IE 9] false SAll = WOk [9; 20; 18; 21].
Proof. split; [exact exa_wires_both|exact exa_wires_all]. Qed.

Example C13_get_wires_example : query_wires ex (fun _ => true) 100 [IE 16] true SInside = WOk [9].
Proof. vm_compute. reflexivity. Qed.

Example C13_get_cables_example : query_cables ex (opt_name true) 100 [IE 4] false SAll [s2l "*"] = WOk [8].
Proof. vm_compute. reflexivity. Qed.

(* ---- termination: "= WOk res" is not vacuous. The loops of get_netlists, get_ports and get_pins end
        in every well-formed state; those of get_instances and get_definitions (every root, both
        selections, recursive or not - they keep no visited set for the walk) end whenever the design
        hierarchy is acyclic. ---- *)
Theorem C13_get_netlists_terminates : forall s, QWF s -> forall roots,
  exists fuel, cands_netlists s fuel roots <> WFuel.
Proof. exact netlists_terminates. Qed.
Print Assumptions C13_get_netlists_terminates.

Theorem C13_get_ports_terminates : forall s, QWF s -> forall roots,
  exists fuel, cands_ports s fuel roots <> WFuel.
Proof. exact ports_terminates. Qed.
Print Assumptions C13_get_ports_terminates.

Theorem C13_get_pins_terminates : forall s, QWF s -> forall cb roots inside,
  exists fuel, query_pins s cb fuel roots inside <> WFuel.
Proof. exact pins_terminates. Qed.
Print Assumptions C13_get_pins_terminates.

Theorem C13_get_instances_terminates : forall s, QWF s -> acyclic s -> forall rec inside roots,
  exists fuel, cands_instances s fuel roots rec inside <> WFuel.
Proof. exact instances_terminates. Qed.
Print Assumptions C13_get_instances_terminates.

Theorem C13_get_definitions_terminates : forall s, QWF s -> acyclic s -> forall rec inside roots,
  exists fuel, cands_definitions s fuel roots rec inside <> WFuel.
Proof. exact definitions_terminates. Qed.
Print Assumptions C13_get_definitions_terminates.

(* the walks that keep visited sets (get_libraries: the set of libraries drives the recursive walk from a
   library; get_cables: searched_wires; get_wires: in_yield of the second loop): the marks range over the
   allocated identifiers, every guarded append happens at most once per mark, the unguarded appends go
   down / up the acyclic hierarchy - fuel = a finite-universe measure on the unmarked identifiers, then
   Acc. Every selection (ALL included) and recursive setting, any collection of roots. *)
Theorem C13_get_libraries_terminates : forall s, QWF s -> acyclic s -> forall rec inside roots,
  exists fuel, cands_libraries s fuel roots rec inside <> WFuel.
Proof. exact libraries_terminates. Qed.
Print Assumptions C13_get_libraries_terminates.

Theorem C13_get_cables_terminates : forall s, QWF s -> acyclic s -> forall rec x roots,
  exists fuel, cands_cables s fuel roots rec x <> WFuel.
Proof. exact cables_terminates. Qed.
Print Assumptions C13_get_cables_terminates.

Theorem C13_get_wires_terminates : forall s, QWF s -> acyclic s -> forall x cb rec roots,
  exists fuel, query_wires s cb fuel roots rec x <> WFuel.
Proof. exact wires_terminates. Qed.
Print Assumptions C13_get_wires_terminates.

Example C13_termination_hypotheses_satisfiable : QWF ex /\ acyclic ex.
Proof. split; [exact ex_qwf|exact ex_acyclic]. Qed.
