(* C13 - Query filters mean what they say. Property theorems only.
   Models: Query/Glob.v, Query/Regex.v, Query/Patterns.v (spydrnet/util/patterns.py),
   Query/Filter.v (the filter stages shared by spydrnet/util/get_*.py).
   Not modelled: the enumeration of the candidates of each query function for each root kind; that
   part is tied to the property by the metamorphic oracle of harness/query_check.py. *)
From Coq Require Import List NArith Bool Permutation String.
From SV Require Import Base.Base Query.Glob Query.Regex Query.Patterns Query.Filter
  Proofs.QueryGlob Proofs.QueryRegex Proofs.QueryFilterA Proofs.QueryFilterB Proofs.QueryFilter.
Import ListNotations.
Local Open Scope string_scope.
Local Open Scope list_scope.

(* ---- wildcard mode ---------------------------------------------------------------------- *)

(* the code path  pattern.replace("[","[[]") ; fnmatch.translate ; match  is glob_match, and
   is_case=False lower-cases both sides *)
Theorem C13_code_path_is_glob : forall v p is_case,
  value_matches_glob v p is_case =
  if is_case then glob_match p (value_or_empty v) else glob_match (lower p) (lower (value_or_empty v)).
Proof. exact value_matches_glob_eq. Qed.
Print Assumptions C13_code_path_is_glob.

(* glob_match decides the declarative wildcard relation: sound and complete for all p, v *)
Theorem C13_glob_match_iff : forall p v, glob_match p v = true <-> Matches p v.
Proof. exact glob_match_iff. Qed.
Print Assumptions C13_glob_match_iff.

(* a pattern without * and ? matches exactly itself (brackets and every other character included) *)
Theorem C13_glob_literal : forall p, no_wild p -> forall v, glob_match p v = true <-> v = p.
Proof. exact glob_literal. Qed.
Print Assumptions C13_glob_literal.

Theorem C13_glob_star : forall p v,
  glob_match (STAR :: p) v = true <-> exists v1 v2, v = v1 ++ v2 /\ glob_match p v2 = true.
Proof. exact glob_star. Qed.
Print Assumptions C13_glob_star.

Theorem C13_glob_question : forall p v,
  glob_match (QUEST :: p) v = true <-> exists x v', v = x :: v' /\ glob_match p v' = true.
Proof. exact glob_question. Qed.
Print Assumptions C13_glob_question.

Theorem C13_glob_prefix : forall s, no_wild s -> forall v,
  glob_match (s ++ [STAR]) v = true <-> exists w, v = s ++ w.
Proof. exact glob_prefix. Qed.
Print Assumptions C13_glob_prefix.

(* is_case=False: the match of the lower-cased sides is the case-insensitive wildcard relation *)
Theorem C13_nocase_iff_lower : forall p v, glob_match (lower p) (lower v) = true <-> MatchesCI p v.
Proof. exact nocase_iff_lower. Qed.
Print Assumptions C13_nocase_iff_lower.

Theorem C13_nocase_literal : forall p, no_wild p -> forall v,
  glob_match (lower p) (lower v) = true <-> lower v = lower p.
Proof. exact nocase_literal. Qed.
Print Assumptions C13_nocase_literal.

(* _is_pattern_absolute *)
Theorem C13_absolute_iff : forall p is_case is_re,
  is_pattern_absolute p is_case is_re = true <-> is_case = true /\ is_re = false /\ no_wild p.
Proof. exact absolute_iff. Qed.
Print Assumptions C13_absolute_iff.

(* an absolute pattern matches by equality: what justifies answering it by a name lookup *)
Theorem C13_absolute_match_eq : forall p is_case is_re v,
  is_pattern_absolute p is_case is_re = true ->
  (value_matches_glob v p is_case = true <-> value_or_empty v = p).
Proof. exact absolute_match_eq. Qed.
Print Assumptions C13_absolute_match_eq.

Example C13_literal_hypothesis_satisfiable :
  no_wild (s2l "a[0]!-]") /\ glob_match (s2l "a[0]!-]") (s2l "a[0]!-]") = true.
Proof. exact x_no_wild. Qed.

Example C13_absolute_example :
  is_pattern_absolute (s2l "a[0]") true false = true /\ value_matches_glob (Some (s2l "a[0]")) (s2l "a[0]") true = true.
Proof. split; vm_compute; reflexivity. Qed.

(* ---- regex mode -------------------------------------------------------------------------- *)

(* the derivative matcher decides the declarative meaning of the expression (ci = IGNORECASE) *)
Theorem C13_rmatch_iff : forall ci v r, rmatch ci r v = true <-> RM ci r v.
Proof. exact rmatch_iff. Qed.
Print Assumptions C13_rmatch_iff.

Theorem C13_regex_escape_spec : forall s v, rmatch false (regex_escape s) v = true <-> v = s.
Proof. exact regex_escape_spec. Qed.
Print Assumptions C13_regex_escape_spec.

Theorem C13_regex_escape_nocase : forall s v, rmatch true (regex_escape s) v = true <-> lower v = lower s.
Proof. exact regex_escape_nocase. Qed.
Print Assumptions C13_regex_escape_nocase.

(* re.escape(s) + ".*" : the strings that start with s and continue without a newline *)
Theorem C13_regex_prefix_spec : forall s v,
  rmatch false (regex_prefix s) v = true <-> exists w, v = s ++ w /\ ~ In NL w.
Proof. exact regex_prefix_spec. Qed.
Print Assumptions C13_regex_prefix_spec.

(* the parser reads the text produced by re.escape as that expression *)
Theorem C13_parse_escape : forall s, parse_re (re_escape_str s) = Some (regex_escape s).
Proof. exact parse_escape. Qed.
Print Assumptions C13_parse_escape.

Theorem C13_parse_escape_dotstar : forall s,
  parse_re (re_escape_str s ++ [46; 42]%N) = Some (regex_prefix s).
Proof. exact parse_escape_dotstar. Qed.
Print Assumptions C13_parse_escape_dotstar.

(* ---- the filter stages --------------------------------------------------------------------- *)

(* the property on the two-stage queries (get_libraries / get_definitions / get_instances /
   get_ports / get_cables), at full strength *)
Definition C13_full : Prop := filter_full_statement.

(* refuted by the faithful model: get_instances(instance, ['a','a*']) yields the child a twice
   (witness replayed on the implementation by harness/query_check.py) *)
Theorem C13_refuted : ~ C13_full.
Proof. exact filter_full_refuted. Qed.
Print Assumptions C13_refuted.

(* what holds of C13_full: everything but "no duplicates" for the stage-B shapes of
   get_instances / get_libraries / get_definitions.
   lookups_ok: every registered lookup agrees with the linear scan and sibling values under the key
   are pairwise different (the invariant of property C10); patterns are non-empty strings. *)
Theorem C13_filter_partial :
  forall ic ir key nk bk parents others pats,
    lookups_ok key parents -> ~ In [] pats ->
    let r := run_query ic ir key nk bk parents others pats in
    (forall e, In e r <-> is_cand key nk parents others e /\ sel_match ic ir key pats e = true) /\
    (bk = BNames true \/ others = [] -> NoDup r) /\
    (forall pats', Permutation pats pats' -> forall e,
        In e r <-> In e (run_query ic ir key nk bk parents others pats')) /\
    r = run_query ic ir key nk bk (with_scan key parents) others pats.
Proof. exact filter_partial. Qed.
Print Assumptions C13_filter_partial.

Example C13_filter_hypotheses_satisfiable :
  lookups_ok x_key x_parents /\ ~ In [] [s2l "a[0]"; s2l "a*"].
Proof. exact x_lookups_ok. Qed.

(* stage A alone never yields an element twice, whatever the lookups answer *)
Theorem C13_stageA_NoDup : forall key mt ab nk parents pats found,
  NoDup (stageA key mt ab nk parents pats found).
Proof. exact stageA_NoDup. Qed.
Print Assumptions C13_stageA_NoDup.

(* get_netlists *)
Theorem C13_netlists_spec : forall ic ir key objs pats, ~ In [] pats ->
  NoDup (run_netlists ic ir key objs pats) /\
  forall e, In e (run_netlists ic ir key objs pats) <-> In e objs /\ sel_match ic ir key pats e = true.
Proof. exact run_netlists_spec. Qed.
Print Assumptions C13_netlists_spec.

Example C13_netlists_example :
  ~ In [] [s2l "n1"; s2l "N*"] /\
  run_netlists false false (fun e => match e with 0 => Some (s2l "n1") | 1 => Some (s2l "n2") | _ => None end)
               [0; 1; 0; 2] [s2l "n1"; s2l "N*"] = [0; 1].
Proof. exact x_netlists. Qed.

(* the name stage of the hierarchical queries *)
Theorem C13_hier_spec : forall ic ir hname refs in_yield pats, NoDup refs ->
  NoDup (run_hier ic ir hname refs in_yield pats) /\
  forall e, In e (run_hier ic ir hname refs in_yield pats) <->
            In e refs /\ ~ In e in_yield /\ existsb (fun p => matches_b ic ir p (hname e)) pats = true.
Proof. exact run_hier_spec. Qed.
Print Assumptions C13_hier_spec.

Example C13_hier_example :
  NoDup [0; 1; 2] /\
  run_hier true false (fun e => match e with 0 => s2l "u0" | 1 => s2l "u0/c" | _ => s2l "u1" end)
           [0; 1; 2] [2] [s2l "u0"; s2l "u*"] = [0; 1].
Proof. exact x_hier. Qed.
