(* C09 - Flatten removes all hierarchy and preserves leaf-level connectivity. Property theorems only. *)
From Coq Require Import List.
From SV Require Import Base.Base IR.State IR.NS IR.Ops Xform.Clone Xform.Xform
  Proofs.Inv1a Proofs.Inv2a Proofs.InvP Proofs.InvW Proofs.XformInv.

(* "the netlist stays well-formed": flatten is a composition of public IR calls, so whatever it
   moves, every container keeps listing exactly the elements that name it as parent, once ... *)
Theorem C09_containment_preserved : forall fuel x n,
  Inv1a (st x) -> not_stuck (flatten fuel x n) -> Inv1a (st (fst (flatten fuel x n))).
Proof. exact flatten_inv1a. Qed.
Print Assumptions C09_containment_preserved.

(* ... and every instance stays in the reference set of exactly the definition it references *)
Theorem C09_reference_sets_preserved : forall fuel x n,
  Inv2a (st x) -> not_stuck (flatten fuel x n) -> Inv2a (st (fst (flatten fuel x n))).
Proof. exact flatten_inv2a. Qed.
Print Assumptions C09_reference_sets_preserved.

(* ... in fact the whole C01/C02 invariant: pins and wires agree and every instance mirrors its
   definition after flatten *)
Theorem C09_wellformed_preserved : forall fuel x n,
  Inv (st x) -> not_stuck (flatten fuel x n) -> Inv (st (fst (flatten fuel x n))).
Proof. exact flatten_inv. Qed.
Print Assumptions C09_wellformed_preserved.

(* Full statement (one leaf per leaf path named by the joined path, endpoint partition equal):
   checked on every run by the correspondence of the flatten model with the implementation and by
   the elaboration oracle; the Coq proof of the connectivity clause is not finished. *)
Definition C09_full : Prop := forall fuel x n x' t d,
  flatten fuel x n = (x', None) -> top (st x') n = Some t -> iref (st x') t = Some d ->
  forall c, In c (kids (st x') RChildren d) ->
  exists e, iref (st x') c = Some e /\ is_leaf_def (st x') e = true.
