(* C09 - Flatten removes all hierarchy and preserves leaf-level connectivity. Property theorems only. *)
From Coq Require Import List NArith.
From SV Require Import Base.Base IR.State IR.NS IR.Ops Xform.Clone Xform.Xform
  Proofs.Inv1a Proofs.Inv2a Proofs.InvP Proofs.InvW Proofs.XformInv Proofs.CloneFull Proofs.FlatLeaf.

(* "the netlist stays well-formed": flatten is a composition of public IR calls, so whatever it
   moves, every container keeps listing exactly the elements that name it as parent, once ... *)
Theorem C09_containment_preserved : forall fuel x n,
  Inv1a (st x) -> not_stuck (flatten fuel x n) -> Inv1a (st (fst (flatten fuel x n))).
Proof. exact flatten_inv1a. Qed.
Print Assumptions C09_containment_preserved.

(* ... and every instance stays in the reference set of exactly the definition it references *)
Theorem C09_reference_sets_preserved : forall fuel x n,
  Inv2a (st x) -> not_stuck (flatten fuel x n) -> Inv2a (st (fst (flatten fuel x n))).
Proof. exact flatten_inv2a. Qed.
Print Assumptions C09_reference_sets_preserved.

(* ... in fact the whole C01/C02 invariant: pins and wires agree and every instance mirrors its
   definition after flatten *)
Theorem C09_wellformed_preserved : forall fuel x n,
  Inv (st x) -> not_stuck (flatten fuel x n) -> Inv (st (fst (flatten fuel x n))).
Proof. exact flatten_inv. Qed.
Print Assumptions C09_wellformed_preserved.

(* "no hierarchical instance remains": in every state reachable by editing calls, after a completed
   flatten every instance left in the top definition references a leaf definition - one with no child
   instances and no cables. Proofs/FlatLeaf.v: along the walk every child of the top definition is
   still queued, or references a leaf, or is scheduled for removal; containers other than the top
   definition only lose members, so a leaf stays a leaf; the scheduled ones are removed at the end. *)
Theorem C09_no_hierarchy_left : forall ops u f fuel n t topd x',
  let s := run ops init in
  top s n = Some t -> iref s t = Some topd -> flatten fuel (mkX s u f) n = (x', None) ->
  forall c, In c (kids (st x') RChildren topd) ->
  exists e, iref (st x') c = Some e /\ is_leaf_def (st x') e = true.
Proof.
  intros ops u f fuel n t topd x' s Ht Hr E c Hc.
  apply (flatten_leaves fuel (mkX s u f) n x' t topd (reachable_uf ops) Ht Hr E c Hc).
Qed.
Print Assumptions C09_no_hierarchy_left.

(* the same from any state satisfying the structural invariants *)
Theorem C09_no_hierarchy_left_from : forall fuel x n x' t topd,
  UF (st x) -> top (st x) n = Some t -> iref (st x) t = Some topd -> flatten fuel x n = (x', None) ->
  forall c, In c (kids (st x') RChildren topd) -> Leafy (st x') c.
Proof. exact flatten_leaves. Qed.
Print Assumptions C09_no_hierarchy_left_from.

(* The flatness clause as first written (no hypothesis on the start state); proved above for every
   reachable state. The remaining clauses (one leaf per leaf path named by the joined path, endpoint
   partition equal) are checked on every run by the correspondence of the flatten model with the
   implementation and by the elaboration oracle. *)
Definition C09_full : Prop := forall fuel x n x' t d,
  flatten fuel x n = (x', None) -> top (st x') n = Some t -> iref (st x') t = Some d ->
  forall c, In c (kids (st x') RChildren d) ->
  exists e, iref (st x') c = Some e /\ is_leaf_def (st x') e = true.

(* non-vacuity: a top cell with one instance "a" of a cell holding a leaf instance "i" and a cable "c";
   flatten completes, the hierarchical instance (10) is gone, the leaf (6) sits in the top definition
   under the joined name "a/i" next to the cable that came up with it *)
Example C09_sample :
  let ops := (ONew KNetlist None nil :: OCreate RLibs 0 None nil 0 None :: OCreate RDefs 1 (Some (76%N :: nil)) nil 0 None ::
              OCreate RPorts 2 (Some (112%N :: nil)) nil 1 None :: OCreate RDefs 1 (Some (77%N :: nil)) nil 0 None ::
              OCreate RChildren 5 (Some (105%N :: nil)) nil 0 (Some 2) :: OCreate RCables 5 (Some (99%N :: nil)) nil 1 None ::
              OConnect 8 (POut 6 4) None :: OCreate RDefs 1 (Some (84%N :: nil)) nil 0 None ::
              OCreate RChildren 9 (Some (97%N :: nil)) nil 0 (Some 5) :: OSetTop 0 (TopDef 9) :: nil) in
  let s := run ops init in
  let r := flatten 50 (mkX s 0 0) 0 in
  let s' := st (fst r) in
  snd r = None /\ top s 0 = Some 11 /\ iref s 11 = Some 9 /\ kids s RChildren 9 = (10 :: nil) /\
  kids s' RChildren 9 = (6 :: nil) /\ iref s' 6 = Some 2 /\ is_leaf_def s' 2 = true /\
  get_str s' 6 str_NAME = Some (97%N :: 47%N :: 105%N :: nil) /\ kids s' RCables 9 = (7 :: nil).
Proof. vm_compute. repeat split. Qed.
