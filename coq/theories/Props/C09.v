(* C09 - Flatten removes all hierarchy and preserves leaf-level connectivity. Property theorems only. *)
From Coq Require Import List NArith String.
From Coq Require Import Relations.
From SV Require Import Base.Base IR.State IR.NS IR.Ops Xform.Clone Xform.Strs Xform.Xform Hier.Paths Hier.Conn
  Proofs.Inv1a Proofs.Inv2a Proofs.InvP Proofs.InvW Proofs.XformInv Proofs.CloneFull Proofs.FlatLeaf
  Proofs.FlatEff Proofs.FlatPaths Proofs.FlatWalk Proofs.FlatNames Proofs.FlatCables
  Proofs.FlatConnRel Proofs.FlatConnPin Proofs.FlatConn Proofs.FlatConnOcc.

(* "the netlist stays well-formed": flatten is a composition of public IR calls, so whatever it
   moves, every container keeps listing exactly the elements that name it as parent, once ... *)
Theorem C09_containment_preserved : forall fuel x n,
  Inv1a (st x) -> not_stuck (flatten fuel x n) -> Inv1a (st (fst (flatten fuel x n))).
Proof. exact flatten_inv1a. Qed.
Print Assumptions C09_containment_preserved.

(* ... and every instance stays in the reference set of exactly the definition it references *)
Theorem C09_reference_sets_preserved : forall fuel x n,
  Inv2a (st x) -> not_stuck (flatten fuel x n) -> Inv2a (st (fst (flatten fuel x n))).
Proof. exact flatten_inv2a. Qed.
Print Assumptions C09_reference_sets_preserved.

(* ... in fact the whole C01/C02 invariant: pins and wires agree and every instance mirrors its
   definition after flatten *)
Theorem C09_wellformed_preserved : forall fuel x n,
  Inv (st x) -> not_stuck (flatten fuel x n) -> Inv (st (fst (flatten fuel x n))).
Proof. exact flatten_inv. Qed.
Print Assumptions C09_wellformed_preserved.

(* "no hierarchical instance remains": in every state reachable by editing calls, after a completed
   flatten every instance left in the top definition references a leaf definition - one with no child
   instances and no cables. Proofs/FlatLeaf.v: along the walk every child of the top definition is
   still queued, or references a leaf, or is scheduled for removal; containers other than the top
   definition only lose members, so a leaf stays a leaf; the scheduled ones are removed at the end. *)
Theorem C09_no_hierarchy_left : forall ops u f fuel n t topd x',
  let s := run ops init in
  top s n = Some t -> iref s t = Some topd -> flatten fuel (mkX s u f) n = (x', None) ->
  forall c, In c (kids (st x') RChildren topd) ->
  exists e, iref (st x') c = Some e /\ is_leaf_def (st x') e = true.
Proof.
  intros ops u f fuel n t topd x' s Ht Hr E c Hc.
  apply (flatten_leaves fuel (mkX s u f) n x' t topd (reachable_uf ops) Ht Hr E c Hc).
Qed.
Print Assumptions C09_no_hierarchy_left.

(* the same from any state satisfying the structural invariants *)
Theorem C09_no_hierarchy_left_from : forall fuel x n x' t topd,
  UF (st x) -> top (st x) n = Some t -> iref (st x) t = Some topd -> flatten fuel x n = (x', None) ->
  forall c, In c (kids (st x') RChildren topd) -> Leafy (st x') c.
Proof. exact flatten_leaves. Qed.
Print Assumptions C09_no_hierarchy_left_from.

(* The flatness clause as first written (no hypothesis on the start state); proved above for every
   reachable state. The remaining clauses (one leaf per leaf path, names, cables, endpoint partition)
   are proved further down for uniquified designs (C09_leaves_exact ... C09_connectivity_holds) and are
   also checked on every run by the correspondence of the flatten model with the implementation and by
   the elaboration oracle. *)
Definition C09_full : Prop := forall fuel x n x' t d,
  flatten fuel x n = (x', None) -> top (st x') n = Some t -> iref (st x') t = Some d ->
  forall c, In c (kids (st x') RChildren d) ->
  exists e, iref (st x') c = Some e /\ is_leaf_def (st x') e = true.

(* non-vacuity: a top cell with one instance "a" of a cell holding a leaf instance "i" and a cable "c";
   flatten completes, the hierarchical instance (10) is gone, the leaf (6) sits in the top definition
   under the joined name "a/i" next to the cable that came up with it *)
Example C09_sample :
  let ops := (ONew KNetlist None nil :: OCreate RLibs 0 None nil 0 None :: OCreate RDefs 1 (Some (76%N :: nil)) nil 0 None ::
              OCreate RPorts 2 (Some (112%N :: nil)) nil 1 None :: OCreate RDefs 1 (Some (77%N :: nil)) nil 0 None ::
              OCreate RChildren 5 (Some (105%N :: nil)) nil 0 (Some 2) :: OCreate RCables 5 (Some (99%N :: nil)) nil 1 None ::
              OConnect 8 (POut 6 4) None :: OCreate RDefs 1 (Some (84%N :: nil)) nil 0 None ::
              OCreate RChildren 9 (Some (97%N :: nil)) nil 0 (Some 5) :: OSetTop 0 (TopDef 9) :: nil) in
  let s := run ops init in
  let r := flatten 50 (mkX s 0 0) 0 in
  let s' := st (fst r) in
  snd r = None /\ top s 0 = Some 11 /\ iref s 11 = Some 9 /\ kids s RChildren 9 = (10 :: nil) /\
  kids s' RChildren 9 = (6 :: nil) /\ iref s' 6 = Some 2 /\ is_leaf_def s' 2 = true /\
  get_str s' 6 str_NAME = Some (97%N :: 47%N :: 105%N :: nil) /\ kids s' RCables 9 = (7 :: nil).
Proof. vm_compute. repeat split. Qed.


(* ================================================================================================
   Exactly one leaf instance per leaf path, named by the joined path; cables; data.
   Hypothesis [Uniquified s t] (Proofs/FlatPaths.v): every instance strictly below the top instance t
   passes uniquify's own test (its definition has exactly one reference, or is a leaf cell), and the top
   instance does not occur below itself (true in every acyclic design). [uniquified_b] decides it.
   Paths are lists of instances, LEAF FIRST, top instance last ([is_rpath] of the hier engine).
   [UF s] is the structural invariant of every state reachable by editing calls, clone, uniquify, flatten
   ([reachable_uf], [xrun_uf]).
   ================================================================================================ *)

(* in a uniquified design an instance has exactly one path from the top instance *)
Theorem C09_one_path_per_instance : forall s t c p q,
  UF s -> Uniquified s t -> is_rpath s t (c :: p) -> is_rpath s t (c :: q) -> p = q.
Proof. intros s t c p q U Hu. apply (rpath_unique s t (inv_a _ (proj1 U)) (inv_r _ (proj1 U)) Hu). Qed.
Print Assumptions C09_one_path_per_instance.

Theorem C09_uniquified_decidable : forall s t, Inv1a s -> uniquified_b s t = true -> Uniquified s t.
Proof. exact uniquified_b_sound. Qed.
Print Assumptions C09_uniquified_decidable.

Theorem C09_acyclic_top_not_below_itself : forall s t, acyclic s -> ~ Below s t t.
Proof. exact acyclic_not_below. Qed.
Print Assumptions C09_acyclic_top_not_below_itself.

(* LEAVES. After a completed flatten of a uniquified design the children of the top definition are
   exactly - as a duplicate-free list - the leaf instances that were reachable below the top instance
   before (the same objects: flatten moves instances, it does not copy them; references unchanged).
   With C09_one_path_per_instance: one child per leaf path. *)
Theorem C09_leaves_exact : forall fuel x n x' t topd,
  UF (st x) -> Uniquified (st x) t -> top (st x) n = Some t -> iref (st x) t = Some topd ->
  flatten fuel x n = (x', None) ->
  (forall c, In c (kids (st x') RChildren topd) <-> Below (st x) t c /\ Leafy (st x) c) /\
  NoDup (kids (st x') RChildren topd) /\ iref (st x') = iref (st x).
Proof. exact flatten_children. Qed.
Print Assumptions C09_leaves_exact.

(* the same from the empty store through any editing history *)
Theorem C09_leaves_exact_reachable : forall ops u f fuel n t topd x',
  let s := run ops init in
  Uniquified s t -> top s n = Some t -> iref s t = Some topd -> flatten fuel (mkX s u f) n = (x', None) ->
  forall c, In c (kids (st x') RChildren topd) <->
            (exists y p, is_rpath s t (c :: y :: p)) /\ (exists d, iref s c = Some d /\ is_leaf_def s d = true).
Proof.
  intros ops u f fuel n t topd x' s Hu Ht Hr E.
  apply (proj1 (flatten_children fuel (mkX s u f) n x' t topd (reachable_uf ops) Hu Ht Hr E)).
Qed.
Print Assumptions C09_leaves_exact_reachable.

(* NAMES. The name after flatten of every instance below the top (path c :: y :: p, leaf first) is the
   value the code computes, [fname]: a child of the top definition keeps its name (or stays unnamed);
   anything further down is called  prefix + "/" + own name,  the prefix being the flat name of the
   enclosing instance ([pname]); a missing name counts as the empty string in both places. *)
Theorem C09_name_as_computed : forall fuel x n x' t topd c y p,
  UF (st x) -> Uniquified (st x) t -> top (st x) n = Some t -> iref (st x) t = Some topd ->
  flatten fuel x n = (x', None) ->
  is_rpath (st x) t (c :: y :: p) -> get_str (st x') c str_NAME = fname (st x) (c :: y :: p).
Proof. intros fuel x n x' t topd c y p U Hu Ht Hr E. apply (flatten_name_code fuel x n x' t topd U Hu Ht Hr E). Qed.
Print Assumptions C09_name_as_computed.

(* ... which is the slash-joined list of the names along the path, top-most first, whatever those names
   are - the empty string included ([onames] = those names, None if one is missing) *)
Theorem C09_name_is_joined_path : forall fuel x n x' t topd c y p l,
  UF (st x) -> Uniquified (st x) t -> top (st x) n = Some t -> iref (st x) t = Some topd ->
  flatten fuel x n = (x', None) ->
  is_rpath (st x) t (c :: y :: p) -> onames (st x) (c :: y :: p) = Some l ->
  get_str (st x') c str_NAME = Some (join_slash l).
Proof. intros fuel x n x' t topd c y p l U Hu Ht Hr E. apply (flatten_name_joined fuel x n x' t topd U Hu Ht Hr E). Qed.
Print Assumptions C09_name_is_joined_path.

(* unnamed instances, as the code treats them: a child of the top definition without a name stays
   without one; anywhere else a missing name on the path counts as the empty string ([enames] = the
   names along the path read that way), so every instance further down gets a flat name and the call
   does not stop over a missing name *)
Theorem C09_unnamed_top_child_stays : forall fuel x n x' t topd c,
  UF (st x) -> Uniquified (st x) t -> top (st x) n = Some t -> iref (st x) t = Some topd ->
  flatten fuel x n = (x', None) ->
  is_rpath (st x) t (c :: t :: nil) -> get_str (st x') c str_NAME = get_str (st x) c str_NAME.
Proof. intros fuel x n x' t topd c U Hu Ht Hr E. apply (flatten_top_child_name fuel x n x' t topd U Hu Ht Hr E). Qed.
Print Assumptions C09_unnamed_top_child_stays.

Theorem C09_missing_name_counts_as_empty : forall fuel x n x' t topd c y z p,
  UF (st x) -> Uniquified (st x) t -> top (st x) n = Some t -> iref (st x) t = Some topd ->
  flatten fuel x n = (x', None) ->
  is_rpath (st x) t (c :: y :: z :: p) ->
  get_str (st x') c str_NAME = Some (join_slash (enames (st x) (c :: y :: z :: p))).
Proof. intros fuel x n x' t topd c y z p U Hu Ht Hr E. apply (flatten_name_missing_as_empty fuel x n x' t topd U Hu Ht Hr E). Qed.
Print Assumptions C09_missing_name_counts_as_empty.

(* data: on every object every entry other than the name, EDIF.identifier and the namespace tag '.NS'
   (re-set by add_child/add_cable to the tag of the top definition) is unchanged *)
Theorem C09_data_unchanged : forall fuel x n x' t topd e k,
  UF (st x) -> Uniquified (st x) t -> top (st x) n = Some t -> iref (st x) t = Some topd ->
  flatten fuel x n = (x', None) ->
  k <> str_NAME -> k <> str_IDENT -> k <> str_NS -> sassoc k (data (st x') e) = sassoc k (data (st x) e).
Proof. intros fuel x n x' t topd e k U Hu Ht Hr E. apply (flatten_data fuel x n x' t topd U Hu Ht Hr E). Qed.
Print Assumptions C09_data_unchanged.

(* ... and objects that are neither instances below the top nor cables that came up keep everything *)
Theorem C09_untouched_objects : forall fuel x n x' t topd e,
  UF (st x) -> Uniquified (st x) t -> top (st x) n = Some t -> iref (st x) t = Some topd ->
  flatten fuel x n = (x', None) ->
  ~ Below (st x) t e -> ~ MovedCable (st x) t e -> data (st x') e = data (st x) e.
Proof. intros fuel x n x' t topd e U Hu Ht Hr E. apply (flatten_untouched_data fuel x n x' t topd U Hu Ht Hr E). Qed.
Print Assumptions C09_untouched_objects.

(* CABLES. [MovedCable s t cb]: cb is a cable of the definition of a non-leaf instance below the top.
   Those cables end up in the top definition (same objects), all others stay where they are ... *)
Theorem C09_cables_of_top : forall fuel x n x' t topd cb,
  UF (st x) -> Uniquified (st x) t -> top (st x) n = Some t -> iref (st x) t = Some topd ->
  flatten fuel x n = (x', None) ->
  (In cb (kids (st x') RCables topd) <-> par (st x) RCables cb = Some topd \/ MovedCable (st x) t cb).
Proof. intros fuel x n x' t topd cb U Hu Ht Hr E. apply (flatten_top_cables fuel x n x' t topd U Hu Ht Hr E). Qed.
Print Assumptions C09_cables_of_top.

Theorem C09_cables_elsewhere : forall fuel x n x' t topd d cb,
  UF (st x) -> Uniquified (st x) t -> top (st x) n = Some t -> iref (st x) t = Some topd ->
  flatten fuel x n = (x', None) -> d <> topd ->
  (In cb (kids (st x') RCables d) <-> In cb (kids (st x) RCables d) /\ ~ MovedCable (st x) t cb).
Proof. intros fuel x n x' t topd d cb U Hu Ht Hr E. apply (flatten_other_cables fuel x n x' t topd U Hu Ht Hr E). Qed.
Print Assumptions C09_cables_elsewhere.

(* ... a definition not instantiated by any instance below the top keeps its cables ... *)
Theorem C09_cables_stay : forall fuel x n x' t topd d,
  UF (st x) -> Uniquified (st x) t -> top (st x) n = Some t -> iref (st x) t = Some topd ->
  flatten fuel x n = (x', None) -> d <> topd -> (forall y, Below (st x) t y -> iref (st x) y <> Some d) ->
  forall cb, In cb (kids (st x') RCables d) <-> In cb (kids (st x) RCables d).
Proof. intros fuel x n x' t topd d U Hu Ht Hr E. apply (flatten_cables_stay fuel x n x' t topd U Hu Ht Hr E). Qed.
Print Assumptions C09_cables_stay.

(* ... wires keep their cable, pins their port, ports their definition (lists in order, back pointers) ... *)
Theorem C09_wires_keep_their_cable : forall fuel x n x' t topd r e,
  UF (st x) -> Uniquified (st x) t -> top (st x) n = Some t -> iref (st x) t = Some topd ->
  flatten fuel x n = (x', None) -> r <> RChildren -> r <> RCables ->
  par (st x') r e = par (st x) r e /\ kids (st x') r e = kids (st x) r e.
Proof. intros fuel x n x' t topd r e U Hu Ht Hr E. apply (flatten_wires_ports fuel x n x' t topd U Hu Ht Hr E). Qed.
Print Assumptions C09_wires_keep_their_cable.

(* ... and a cable that came up is renamed by the flat name of its instance, the same way *)
Theorem C09_cable_names : forall fuel x n x' t topd y z p d cb,
  UF (st x) -> Uniquified (st x) t -> top (st x) n = Some t -> iref (st x) t = Some topd ->
  flatten fuel x n = (x', None) ->
  is_rpath (st x) t (y :: z :: p) -> iref (st x) y = Some d -> is_leaf_def (st x) d = false ->
  par (st x) RCables cb = Some d ->
  get_str (st x') cb str_NAME = Some (oe (fname (st x) (y :: z :: p)) ++ str_slash ++ oe (get_str (st x) cb str_NAME)).
Proof. intros fuel x n x' t topd y z p d cb U Hu Ht Hr E. apply (flatten_cable_name fuel x n x' t topd U Hu Ht Hr E). Qed.
Print Assumptions C09_cable_names.

Theorem C09_cable_name_is_joined_path : forall fuel x n x' t topd y z p d cb l nm,
  UF (st x) -> Uniquified (st x) t -> top (st x) n = Some t -> iref (st x) t = Some topd ->
  flatten fuel x n = (x', None) ->
  is_rpath (st x) t (y :: z :: p) -> iref (st x) y = Some d -> is_leaf_def (st x) d = false ->
  par (st x) RCables cb = Some d -> onames (st x) (y :: z :: p) = Some l -> get_str (st x) cb str_NAME = Some nm ->
  get_str (st x') cb str_NAME = Some (join_slash (l ++ nm :: nil)).
Proof. intros fuel x n x' t topd y z p d cb l nm U Hu Ht Hr E. apply (flatten_cable_name_joined fuel x n x' t topd U Hu Ht Hr E). Qed.
Print Assumptions C09_cable_name_is_joined_path.

(* a 3-level design with two leaves under different branches:
     T = { a : M1, b : M2 }   M1 = { u : L, cable c1 }   M2 = { m : M3 }   M3 = { v : L, cable c3 }
   it is uniquified, flatten completes, the top definition (15) then holds exactly the leaves u (12) and
   v (6) named "a/u" and "b/m/v", and the cables c1 (13), c3 (7) named "a/c1", "b/m/c3" with their wires *)
Definition c09_nm (s : string) : option str := Some (s2l s).
Definition c09_ops3 : list op :=
  (ONew KNetlist None nil :: OCreate RLibs 0 None nil 0 None ::
   OCreate RDefs 1 (c09_nm "L") nil 0 None :: OCreate RPorts 2 (c09_nm "p") nil 1 None ::
   OCreate RDefs 1 (c09_nm "M3") nil 0 None :: OCreate RChildren 5 (c09_nm "v") nil 0 (Some 2) ::
   OCreate RCables 5 (c09_nm "c3") nil 1 None :: OConnect 8 (POut 6 4) None ::
   OCreate RDefs 1 (c09_nm "M2") nil 0 None :: OCreate RChildren 9 (c09_nm "m") nil 0 (Some 5) ::
   OCreate RDefs 1 (c09_nm "M1") nil 0 None :: OCreate RChildren 11 (c09_nm "u") nil 0 (Some 2) ::
   OCreate RCables 11 (c09_nm "c1") nil 1 None :: OConnect 14 (POut 12 4) None ::
   OCreate RDefs 1 (c09_nm "T") nil 0 None :: OCreate RChildren 15 (c09_nm "a") nil 0 (Some 11) ::
   OCreate RChildren 15 (c09_nm "b") nil 0 (Some 9) :: OSetTop 0 (TopDef 15) ::
   (* a net through the boundary of a: M1 gets a port mp (19, pin 20) on its wire 14; T gets a port tp (21, pin 22)
      and a cable tc (23, wire 24) that joins tp with a.mp *)
   OCreate RPorts 11 (c09_nm "mp") nil 1 None :: OConnect 14 (PIn 20) None ::
   OCreate RPorts 15 (c09_nm "tp") nil 1 None :: OCreate RCables 15 (c09_nm "tc") nil 1 None ::
   OConnect 24 (PIn 22) None :: OConnect 24 (POut 16 20) None :: nil)%string.

Example C09_three_levels :
  let s := run c09_ops3 init in
  let r := flatten 50 (mkX s 0 0) 0 in
  let s' := st (fst r) in
  top s 0 = Some 18 /\ iref s 18 = Some 15 /\ uniquified_b s 18 = true /\ snd r = None /\
  kids s RChildren 15 = (16 :: 17 :: nil) /\
  kids s' RChildren 15 = (12 :: 6 :: nil) /\ kids s' RCables 15 = (23 :: 13 :: 7 :: nil) /\
  get_str s' 12 str_NAME = c09_nm "a/u" /\ get_str s' 6 str_NAME = c09_nm "b/m/v" /\
  get_str s' 13 str_NAME = c09_nm "a/c1" /\ get_str s' 7 str_NAME = c09_nm "b/m/c3" /\
  fname s (6 :: 10 :: 17 :: 18 :: nil) = c09_nm "b/m/v" /\
  onames s (6 :: 10 :: 17 :: 18 :: nil) = Some (s2l "b" :: s2l "m" :: s2l "v" :: nil) /\
  par s' RWires 8 = Some 7 /\ par s' RWires 14 = Some 13.
Proof. vm_compute. repeat split. Qed.

(* the hypotheses of the theorems above hold of that design, so they apply to it *)
Example C09_three_levels_hypotheses :
  let s := run c09_ops3 init in
  UF s /\ Uniquified s 18 /\ is_rpath s 18 (6 :: 10 :: 17 :: 18 :: nil) /\ is_rpath s 18 (12 :: 16 :: 18 :: nil).
Proof.
  cbv zeta. split; [apply reachable_uf|]. split.
  - apply uniquified_b_sound; [apply (inv_a _ (proj1 (reachable_uf c09_ops3)))|vm_compute; reflexivity].
  - split; repeat (apply rp_child; [|vm_compute; tauto]); apply rp_top.
Qed.

(* ================================================================================================
   CONNECTIVITY.
   [dissolve pw inst i] (Proofs/FlatConnRel.v): what _redo_connections does for the inner pin i of
   instance inst, on the pin -> wire map: both pins of the boundary come off their wires and, when both
   were wired, every pin of the inner wire goes to the outer wire.
   [E D pw p q]: p and q are both wired and their wires are tied by boundary crossings of instances in D.
   [HP s t p]: p is a pin of a boundary that flatten dissolves (outer pin of a hierarchical instance below
   the top, port pin of its definition). [Endpoint]: pin of a leaf instance below the top, or pin of a port
   of the top definition. [conn], [hwire_occ], [WFc]: the hier engine's connectivity relation on wire
   occurrences and its well-formedness (pins and wires point at each other, a wire touches only pins of
   its own definition's ports and children). [Cabled]: a wire that holds a pin belongs to a cable.
   ================================================================================================ *)

(* the exact effect of _redo_connections for one pin on the pin -> wire map, in every state satisfying Inv *)
Theorem C09_redo_pin_exact : forall x inst i x',
  Inv (st x) -> redo_pin x inst i = (x', None) ->
  forall p, pin_wire (st x') p = dissolve (pin_wire (st x)) inst i p.
Proof. exact redo_pin_pw. Qed.
Print Assumptions C09_redo_pin_exact.

(* one boundary: dissolving it keeps the partition of all other pins (pass-through wires tied to several
   ports, unconnected sides and inner = outer wire included) *)
Theorem C09_one_boundary_keeps_partition : forall (D : id -> Prop) inst i pw,
  D inst -> (forall n, D n -> n <> inst -> pw (POut n i) = None) ->
  forall p q, p <> POut inst i -> p <> PIn i -> q <> POut inst i -> q <> PIn i ->
    (E D (dissolve pw inst i) p q <-> E D pw p q).
Proof. exact dissolve_keeps. Qed.
Print Assumptions C09_one_boundary_keeps_partition.

(* lifted along the walk: after a completed flatten of a uniquified design the partition of all pins
   outside the dissolved boundaries is what it was; the dissolved outer pins are off; nothing unwired
   got wired *)
Theorem C09_partition_preserved : forall fuel x n x' t topd,
  UF (st x) -> Uniquified (st x) t -> top (st x) n = Some t -> iref (st x) t = Some topd ->
  flatten fuel x n = (x', None) ->
  (forall p q, ~ HP (st x) t p -> ~ HP (st x) t q ->
     (E (Below (st x) t) (pin_wire (st x')) p q <-> E (Below (st x) t) (pin_wire (st x)) p q)) /\
  (forall c j, Below (st x) t c -> hierb (st x) c = true -> pin_wire (st x') (POut c j) = None) /\
  (forall p, pin_wire (st x) p = None -> pin_wire (st x') p = None).
Proof. exact flatten_conn. Qed.
Print Assumptions C09_partition_preserved.

(* with black-box leaf cells, "connected" afterwards is "on the same wire" *)
Theorem C09_same_wire_iff_connected : forall fuel x n x' t topd,
  UF (st x) -> Uniquified (st x) t -> top (st x) n = Some t -> iref (st x) t = Some topd ->
  flatten fuel x n = (x', None) -> LeafPinsFree (st x) t ->
  forall p q, ~ HP (st x) t p -> ~ HP (st x) t q ->
    ((exists w, pin_wire (st x') p = Some w /\ pin_wire (st x') q = Some w) <-> E (Below (st x) t) (pin_wire (st x)) p q).
Proof. exact flatten_conn_same_wire. Qed.
Print Assumptions C09_same_wire_iff_connected.

(* in a uniquified design the wire partition IS the hier engine's connectivity of wire occurrences *)
Theorem C09_wire_partition_is_conn : forall s t h h' u v,
  UF s -> Uniquified s t -> WFc s -> Cabled s ->
  occ_of s t h u -> occ_of s t h' v -> (conn s t h h' <-> wconn (Below s t) (pin_wire s) u v).
Proof. intros s t h h' u v U Hu Hc Hcab. apply (conn_iff_wconn s t U Hu Hc Hcab). Qed.
Print Assumptions C09_wire_partition_is_conn.

(* the connectivity clause at full strength: two endpoints are on the same wire of the flat netlist exactly
   when the wires they were on were connected through the hierarchy before *)
Definition C09_connectivity_full : Prop := forall fuel x n x' t topd p q u v h h',
  UF (st x) -> Uniquified (st x) t -> top (st x) n = Some t -> iref (st x) t = Some topd ->
  WFc (st x) -> Cabled (st x) -> flatten fuel x n = (x', None) ->
  Endpoint (st x) t topd p -> Endpoint (st x) t topd q ->
  pin_wire (st x) p = Some u -> pin_wire (st x) q = Some v -> occ_of (st x) t h u -> occ_of (st x) t h' v ->
  ((exists w, pin_wire (st x') p = Some w /\ pin_wire (st x') q = Some w) <-> conn (st x) t h h').

Theorem C09_connectivity_holds : C09_connectivity_full.
Proof.
  intros fuel x n x' t topd p q u v h h' U Hu Htop Ht Hc Hcab E0.
  apply (flatten_connectivity fuel x n x' t topd U Hu Htop Ht Hc Hcab E0).
Qed.
Print Assumptions C09_connectivity_holds.

(* the quantifiers are not empty: a wired endpoint's wire has an occurrence; endpoints stay wired / unwired *)
Theorem C09_endpoint_wire_occurs : forall x t topd p u,
  UF (st x) -> iref (st x) t = Some topd -> WFc (st x) -> Cabled (st x) ->
  Endpoint (st x) t topd p -> pin_wire (st x) p = Some u -> exists h, occ_of (st x) t h u.
Proof. intros x t topd p u U Ht Hc Hcab. apply (endpoint_occ x t topd U Ht Hc Hcab). Qed.
Print Assumptions C09_endpoint_wire_occurs.

Theorem C09_endpoints_stay_wired : forall fuel x n x' t topd p u,
  UF (st x) -> Uniquified (st x) t -> top (st x) n = Some t -> iref (st x) t = Some topd ->
  WFc (st x) -> Cabled (st x) -> flatten fuel x n = (x', None) ->
  Endpoint (st x) t topd p -> pin_wire (st x) p = Some u -> exists w, pin_wire (st x') p = Some w.
Proof. intros fuel x n x' t topd p u U Hu Htop Ht Hc Hcab E0. apply (flatten_wired_stays fuel x n x' t topd U Hu Htop Ht Hc Hcab E0). Qed.
Print Assumptions C09_endpoints_stay_wired.

Theorem C09_unwired_stay_unwired : forall fuel x n x' t topd p,
  UF (st x) -> Uniquified (st x) t -> top (st x) n = Some t -> iref (st x) t = Some topd ->
  flatten fuel x n = (x', None) -> pin_wire (st x) p = None -> pin_wire (st x') p = None.
Proof. intros fuel x n x' t topd p U Hu Htop Ht E0. apply (flatten_unwired_stays fuel x n x' t topd U Hu Htop Ht E0). Qed.
Print Assumptions C09_unwired_stay_unwired.

(* the hypotheses on wires are decidable *)
Theorem C09_wire_hypotheses_decidable : forall s,
  UF s -> (forallb (wfc_wire_b s) (all_ids s) = true -> WFc s) /\ (cabled_b s = true -> Cabled s).
Proof. intros s U. split; [apply wfc_b_sound; exact U|apply cabled_b_sound; exact U]. Qed.
Print Assumptions C09_wire_hypotheses_decidable.

(* on the design of C09_three_levels: the pin p of leaf u (instance 12, pin 4) and the pin of the top port tp
   (22) end up on the same wire (24); the hypotheses of C09_connectivity_holds hold, so the theorem says the
   occurrences of their wires - 14 in cable c1 inside a, 24 in cable tc of the top - were connected *)
Example C09_three_levels_net :
  let s := run c09_ops3 init in
  let s' := st (fst (flatten 50 (mkX s 0 0) 0)) in
  wpins s 24 = (PIn 22 :: POut 16 20 :: nil) /\ wpins s 14 = (POut 12 4 :: PIn 20 :: nil) /\
  pin_wire s' (POut 12 4) = Some 24 /\ pin_wire s' (PIn 22) = Some 24 /\
  wpins s' 24 = (PIn 22 :: POut 12 4 :: nil) /\ wpins s' 14 = nil /\
  forallb (wfc_wire_b s) (all_ids s) = true /\ cabled_b s = true.
Proof. vm_compute. repeat split. Qed.

Definition c09_x3 : xstate := mkX (run c09_ops3 init) 0 0.
Lemma c09_uf_mk ops u f : UF (st (mkX (run ops init) u f)).
Proof. apply reachable_uf. Qed.

Example C09_three_levels_connected :
  conn (st c09_x3) 18 (14 :: 13 :: 16 :: 18 :: nil) (24 :: 23 :: 18 :: nil).
Proof.
  set (x := c09_x3).
  assert (U : UF (st x)) by exact (c09_uf_mk c09_ops3 0 0).
  assert (Hu : Uniquified (st x) 18) by (apply uniquified_b_sound; [apply (inv_a _ (proj1 U))|vm_compute; reflexivity]).
  assert (Hc : WFc (st x)) by (apply wfc_b_sound; [exact U|vm_compute; reflexivity]).
  assert (Hcab : Cabled (st x)) by (apply cabled_b_sound; [exact U|vm_compute; reflexivity]).
  assert (Htop : top (st x) 0 = Some 18) by (vm_compute; reflexivity).
  assert (Ht : iref (st x) 18 = Some 15) by (vm_compute; reflexivity).
  assert (Ho : snd (flatten 50 x 0) = None) by (vm_compute; reflexivity).
  assert (Hsame : exists w, pin_wire (st (fst (flatten 50 x 0))) (POut 12 4) = Some w /\
                            pin_wire (st (fst (flatten 50 x 0))) (PIn 22) = Some w)
    by (exists 24; vm_compute; split; reflexivity).
  destruct (flatten 50 x 0) as [x' o] eqn:E3. cbn [fst snd] in Ho, Hsame. subst o.
  assert (C1 : child (st x) 16 18) by (vm_compute; tauto).
  assert (C2 : child (st x) 12 16) by (vm_compute; tauto).
  assert (P1 : is_rpath (st x) 18 (16 :: 18 :: nil)) by (apply rp_child; [apply rp_top|exact C1]).
  assert (P2 : is_rpath (st x) 18 (12 :: 16 :: 18 :: nil)) by (apply rp_child; [exact P1|exact C2]).
  assert (Hl : hierb (st x) 12 = false) by (vm_compute; reflexivity).
  assert (Ep : Endpoint (st x) 18 15 (POut 12 4)).
  { left. exists 12, 4. split; [reflexivity|]. split; [exists 16, (18 :: nil); exact P2|exact Hl]. }
  assert (Eq : Endpoint (st x) 18 15 (PIn 22)).
  { right. exists 22, 21. split; [reflexivity|]. split; vm_compute; reflexivity. }
  assert (Wp : pin_wire (st x) (POut 12 4) = Some 14) by (vm_compute; reflexivity).
  assert (Wq : pin_wire (st x) (PIn 22) = Some 24) by (vm_compute; reflexivity).
  assert (O1 : occ_of (st x) 18 (14 :: 13 :: 16 :: 18 :: nil) 14).
  { split; [|reflexivity]. exists 14, 13, 16, (18 :: nil). split; [reflexivity|]. split; [exact P1|]. split; vm_compute; tauto. }
  assert (O2 : occ_of (st x) 18 (24 :: 23 :: 18 :: nil) 24).
  { split; [|reflexivity]. exists 24, 23, 18, nil. split; [reflexivity|]. split; [apply rp_top|]. split; vm_compute; tauto. }
  exact (proj1 (C09_connectivity_holds 50 x 0 x' 18 15 (POut 12 4) (PIn 22) 14 24 _ _ U Hu Htop Ht Hc Hcab E3 Ep Eq Wp Wq O1 O2) Hsame).
Qed.

(* The clause "named by the slash-joined instance names along that path" read literally: for every path
   whose instances all have names, from the empty store through any editing history. flatten hands down
   None for "no enclosing instance" and the hierarchical name otherwise, so an instance called "" is a
   path component like any other ("/v" below it). *)
Definition C09_names_literal : Prop := forall ops u f fuel n t topd x' c y p l,
  let s := run ops init in
  Uniquified s t -> top s n = Some t -> iref s t = Some topd -> flatten fuel (mkX s u f) n = (x', None) ->
  is_rpath s t (c :: y :: p) -> onames s (c :: y :: p) = Some l ->
  get_str (st x') c str_NAME = Some (join_slash l).

Theorem C09_names_literal_holds : C09_names_literal.
Proof.
  intros ops u f fuel n t topd x' c y p l s Hu Ht Hr E Hp Hl.
  apply (flatten_name_joined fuel (mkX s u f) n x' t topd (reachable_uf ops) Hu Ht Hr E c y p l Hp Hl).
Qed.
Print Assumptions C09_names_literal_holds.

(* T = { "" : M }, M = { v : L }: the leaf comes up as "/v" *)
Definition c09_ops_empty : list op :=
  (ONew KNetlist None nil :: OCreate RLibs 0 None nil 0 None ::
   OCreate RDefs 1 (c09_nm "L") nil 0 None ::
   OCreate RDefs 1 (c09_nm "M") nil 0 None :: OCreate RChildren 3 (c09_nm "v") nil 0 (Some 2) ::
   OCreate RDefs 1 (c09_nm "T") nil 0 None :: OCreate RChildren 5 (c09_nm "") nil 0 (Some 3) ::
   OSetTop 0 (TopDef 5) :: nil)%string.

Example C09_empty_name_is_a_path_component :
  let s := run c09_ops_empty init in
  let r := flatten 50 (mkX s 0 0) 0 in
  let s' := st (fst r) in
  top s 0 = Some 7 /\ iref s 7 = Some 5 /\ uniquified_b s 7 = true /\ snd r = None /\
  onames s (4 :: 6 :: 7 :: nil) = Some (s2l "" :: s2l "v" :: nil)%string /\
  kids s' RChildren 5 = (4 :: nil) /\ get_str s' 4 str_NAME = c09_nm "/v".
Proof. vm_compute. repeat split. Qed.

(* T = { "" : M, v : L }, M = { v : L, cable c }: the two leaf paths get the two names "v" and "/v", the
   call completes (it used to stop half-way on the clash of "v" with "v") *)
Definition c09_ops_empty_sibling : list op :=
  (ONew KNetlist None nil :: OCreate RLibs 0 None nil 0 None ::
   OCreate RDefs 1 (c09_nm "L") nil 0 None ::
   OCreate RDefs 1 (c09_nm "M") nil 0 None :: OCreate RChildren 3 (c09_nm "v") nil 0 (Some 2) ::
   OCreate RCables 3 (c09_nm "c") nil 1 None ::
   OCreate RDefs 1 (c09_nm "T") nil 0 None :: OCreate RChildren 7 (c09_nm "") nil 0 (Some 3) ::
   OCreate RChildren 7 (c09_nm "v") nil 0 (Some 2) ::
   OSetTop 0 (TopDef 7) :: nil)%string.

Example C09_empty_name_no_clash :
  let s := run c09_ops_empty_sibling init in
  let r := flatten 50 (mkX s 0 0) 0 in
  let s' := st (fst r) in
  top s 0 = Some 10 /\ iref s 10 = Some 7 /\ uniquified_b s 10 = true /\ snd r = None /\
  kids s RChildren 7 = (8 :: 9 :: nil) /\ kids s' RChildren 7 = (9 :: 4 :: nil) /\
  get_str s' 9 str_NAME = c09_nm "v" /\ get_str s' 4 str_NAME = c09_nm "/v" /\
  kids s' RCables 7 = (5 :: nil) /\ get_str s' 5 str_NAME = c09_nm "/c".
Proof. vm_compute. repeat split. Qed.

(* the same design with the hierarchical instance left WITHOUT a name: the missing name counts as the
   empty string, the call completes with the same flat names (it used to raise TypeError after the
   cable had been taken out of M) *)
Definition c09_ops_unnamed : list op :=
  (ONew KNetlist None nil :: OCreate RLibs 0 None nil 0 None ::
   OCreate RDefs 1 (c09_nm "L") nil 0 None ::
   OCreate RDefs 1 (c09_nm "M") nil 0 None :: OCreate RChildren 3 (c09_nm "v") nil 0 (Some 2) ::
   OCreate RCables 3 (c09_nm "c") nil 1 None ::
   OCreate RDefs 1 (c09_nm "T") nil 0 None :: OCreate RChildren 7 None nil 0 (Some 3) ::
   OCreate RChildren 7 (c09_nm "v") nil 0 (Some 2) ::
   OSetTop 0 (TopDef 7) :: nil)%string.

Example C09_unnamed_hierarchical_instance :
  let s := run c09_ops_unnamed init in
  let r := flatten 50 (mkX s 0 0) 0 in
  let s' := st (fst r) in
  top s 0 = Some 10 /\ iref s 10 = Some 7 /\ uniquified_b s 10 = true /\ snd r = None /\
  get_str s 8 str_NAME = None /\ onames s (4 :: 8 :: 10 :: nil) = None /\
  enames s (4 :: 8 :: 10 :: nil) = (s2l "" :: s2l "v" :: nil)%string /\
  kids s' RChildren 7 = (9 :: 4 :: nil) /\
  get_str s' 9 str_NAME = c09_nm "v" /\ get_str s' 4 str_NAME = c09_nm "/v" /\
  kids s' RCables 7 = (5 :: nil) /\ get_str s' 5 str_NAME = c09_nm "/c".
Proof. vm_compute. repeat split. Qed.
