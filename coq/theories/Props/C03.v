(* C03 - EDIF write-then-read returns the same netlist.
   Property theorems only; each is closed by [exact] of a lemma proved under Proofs/Edif*.v.

   What is proved: the five mechanisms the round trip rests on (each unbounded), the ONE-CABLE
   pipeline (writer's per-bit nets of any bus, in any order, through the reader's name splitting and
   multibit merge give the cable back), the ONE-CELL net pipeline (all cables of a cell, written in
   order, read back by the reader's net loop with its lookups and fallbacks), and two refutations of the round trip for inputs inside the
   property's quantifier (bus whose identifier starts with "&_"; scalar net named like a bit).
   What is NOT proved: the whole-file statement [C03_full] (libraries, cells, ports, instances,
   reference resolution, rename bookkeeping, identifier assignment). It is evaluated on the
   implementation by harness/edif_check.py (test evidence, not proof). *)
From Coq Require Import List NArith Bool Permutation.
From SV Require Import Base.Base Fmt.EdifTopo Fmt.EdifLex Fmt.EdifName Fmt.EdifCable Fmt.EdifBus Fmt.EdifNets
  Proofs.EdifTopoProofs Proofs.EdifLexProofs Proofs.EdifNameProofs Proofs.EdifCableProofs Proofs.EdifBusProofs
  Proofs.EdifNetsProofs.
Import ListNotations.

(* (a) _topological_sort: on acyclic, closed input the fuel suffices, the output is a permutation
   of the input and every dependency precedes its user - for ANY iteration order of the
   dependency sets ([deps] is an arbitrary function to lists) *)
Theorem C03_toposort_perm_sorted : forall deps objs,
  NoDup objs -> closed_in deps objs -> ranked deps ->
  exists out, topological_sort deps objs = Some out /\ Permutation objs out /\
    forall o d, In o out -> In d (deps o) -> precedes d o out.
Proof. exact toposort_perm_sorted. Qed.
Print Assumptions C03_toposort_perm_sorted.

(* whenever the loop terminates (any fuel) the result is sorted and duplicate-free *)
Theorem C03_toposort_sorted_if_terminates : forall fuel deps objs out,
  irreflexive deps -> topo_outer fuel deps objs [] = Some out ->
  (NoDup out /\ forall o d, In o out -> In d (deps o) -> precedes d o out).
Proof. exact toposort_sorted_fuel. Qed.
Print Assumptions C03_toposort_sorted_if_terminates.

(* already sorted input comes back unchanged (used by C16: a second write changes nothing) *)
Theorem C03_toposort_fixpoint : forall deps objs,
  NoDup objs ->
  (forall l1 o l2 d, objs = l1 ++ o :: l2 -> In d (deps o) -> In d l1) ->
  topological_sort deps objs = Some objs.
Proof. exact toposort_fixpoint. Qed.
Print Assumptions C03_toposort_fixpoint.

Example C03_toposort_example : ltac:(let t := type of toposort_example in exact t).
Proof. exact toposort_example. Qed.
(* the source loop has no measure: on a dependency cycle the model runs out of fuel (the real
   compose never returns) *)
Example C03_toposort_cycle_diverges : ltac:(let t := type of toposort_cycle_diverges in exact t).
Proof. exact toposort_cycle_diverges. Qed.

(* (b) bit names: str(int) / int(str) are inverse and the reader's splitting undoes the writer's
   "<ident>_<i>_" / "<name>[<i>]" for every i : N, every identifier (also "&" / "&_...": repaired
   K4), every name that does not start with a backslash *)
Theorem C03_dec_inverse : forall n : N, int_of (dec n) = n.
Proof. exact int_of_dec. Qed.
Print Assumptions C03_dec_inverse.

Theorem C03_bitname_inverse : forall (ident name : str) (i : N),
  (match name with c :: _ => c <> c_bsl | [] => True end) ->
  net_bit (bit_ident ident i) (bit_name name i) = Some (Some i, name, ident).
Proof. exact bitname_inverse. Qed.
Print Assumptions C03_bitname_inverse.

(* the exact side conditions of the code (complete characterisations) *)
Theorem C03_bitname_bracket_exact : forall (name : str) (i : N),
  sep_bracket (bit_name name i) =
  if negb (N.eqb (hd c_lbr name) c_bsl) || Nat.eqb (length (split_on c_space name)) 2
  then Some (Some i, name) else Some (None, bit_name name i).
Proof. exact bitname_bracket_full. Qed.
Print Assumptions C03_bitname_bracket_exact.

Theorem C03_bitname_underscore_exact : forall (ident : str) (i : N),
  sep_underscore (bit_ident ident i) = (Some i, ident).
Proof. exact bitname_underscore_full. Qed.
Print Assumptions C03_bitname_underscore_exact.

Example C03_bitname_examples : ltac:(let t := type of bitname_examples in exact t).
Proof. exact bitname_examples. Qed.

(* (c) multibit_add_cable folded over ANY duplicate-free sequence of bits (any permutation of any
   subset of a bus): one array cable, lower = min, width = max-min+1, bit i at position i-lower,
   gaps empty *)
Theorem C03_multibit_assemble : forall P (bits : list (N * list P)) c,
  NoDup (idxs bits) -> assemble bits = Some c ->
     c_lower c = min_idx (idxs bits)
  /\ N.of_nat (length (c_wires c)) = (max_idx (idxs bits) - min_idx (idxs bits) + 1)%N
  /\ c_array c = true
  /\ forall i, wire_of c i = lookup i bits.
Proof. exact multibit_assemble. Qed.
Print Assumptions C03_multibit_assemble.

Theorem C03_multibit_order_irrelevant : forall P (bits bits' : list (N * list P)) c c',
  NoDup (idxs bits) -> Permutation bits bits' ->
  assemble bits = Some c -> assemble bits' = Some c' -> c = c'.
Proof. exact multibit_order_irrelevant. Qed.
Print Assumptions C03_multibit_order_irrelevant.

Example C03_multibit_example : ltac:(let t := type of multibit_example in exact t).
Proof. exact multibit_example. Qed.

(* (d) (member p x): the index the writer computes and the reader's port.pins[x] are inverse, for
   every pin of every array port; lower_index and is_downto do not enter *)
Theorem C03_member_inverse : forall haswire pt k p,
  NoDup (p_pins pt) -> member_read (p_pins pt) k = Some p -> haswire p = true ->
     member_inner haswire (p_pins pt) p = Some k
  /\ member_outer (p_pins pt) p = [k]
  /\ forall lo dt,
       let pt' := mkport (p_pins pt) lo dt in
       member_inner haswire (p_pins pt') p = Some k /\ member_outer (p_pins pt') p = [k] /\
       member_read (p_pins pt') k = Some p.
Proof. exact member_inverse. Qed.
Print Assumptions C03_member_inverse.

Theorem C03_member_written_index_reads_back : forall haswire pins p,
  In p pins -> haswire p = true -> NoDup pins ->
  exists k, member_inner haswire pins p = Some k /\ member_read pins k = Some p.
Proof. exact member_inverse_inner. Qed.
Print Assumptions C03_member_written_index_reads_back.

(* (e) printer / tokenizer / reader: every document whose atoms are free of white space,
   parentheses and double quotes and whose strings are free of double quotes, \n, \r *)
Theorem C03_lex_print : forall x, sexp_ok x = true -> read (tokenize (print x)) = Some x.
Proof. exact lex_print. Qed.
Print Assumptions C03_lex_print.

Example C03_lex_print_example : ltac:(let t := type of lex_print_example in exact t).
Proof. exact lex_print_example. Qed.
Example C03_lex_print_needs_no_quote : ltac:(let t := type of lex_print_needs_no_quote in exact t).
Proof. exact lex_print_needs_no_quote. Qed.

(* (b)+(c) composed: ONE CABLE through the writer and back through the reader, the nets in any
   file order *)
Theorem C03_cable_roundtrip : forall P ident name (c : cab P) nets,
  name_ok name -> c_wires c <> [] -> is_bus c ->
  Permutation nets (emit_cable ident name c) ->
  read_cable nets = Some (name, ident, mkcab (c_lower c) true (c_wires c)).
Proof. exact bus_roundtrip_any_order. Qed.
Print Assumptions C03_cable_roundtrip.

Theorem C03_scalar_roundtrip : forall P ident name (w : list P),
  name <> [] -> last name 0%N <> c_rbr -> last name 0%N <> c_lbr ->
  read_cable (emit_cable ident name (mkcab 0%N false [w])) =
  Some (name, ident, mkcab 0%N false [w]).
Proof. exact scalar_roundtrip_plain. Qed.
Print Assumptions C03_scalar_roundtrip.

Example C03_cable_roundtrip_example : ltac:(let t := type of bus_roundtrip_example in exact t).
Proof. exact bus_roundtrip_example. Qed.

(* ALL CABLES OF ONE CELL through the writer (in order, each bus bit by bit) and back through the
   reader's net loop (lookup by name, then by identifier, merge or add, ValueError fallback): same
   cables, same order, names, identifiers, lower indices and per-bit pins; buses flagged as arrays.
   [wf_cell]: names pairwise different, identifiers pairwise different case-insensitively, every
   bus has an identifier that is not "&"/"&_..." and a name not starting with a backslash, every
   scalar net has lower 0 and is not named like a bit. (Names with * or ? are outside the model.) *)
Theorem C03_cell_nets_roundtrip : forall P (cabs : list (entry P)), wf_cell cabs ->
  read_nets [] (emit_nets cabs) = Some (map norm_entry cabs).
Proof. exact cell_nets_roundtrip. Qed.
Print Assumptions C03_cell_nets_roundtrip.

Example C03_cell_nets_example : ltac:(let t := type of cell_nets_example in exact t).
Proof. exact cell_nets_example. Qed.
(* outside wf_cell the round trip fails: *)
Example C03_cell_nets_collision_bitlike : ltac:(let t := type of cell_nets_collision_bitlike in exact t).
Proof. exact cell_nets_collision_bitlike. Qed.
Example C03_cell_nets_collision_ident : ltac:(let t := type of cell_nets_collision_ident in exact t).
Proof. exact cell_nets_collision_ident. Qed.

(* REPAIRED (K4; corpus/edif/c03-amp-underscore-bus.json is a regression case): a bus whose identifier is
   "&" or starts with "&_" (EdififyNames gives such an identifier to every name starting with a character
   that is neither a letter nor a digit) is read back as one cable - [C03_cable_roundtrip] no longer
   excludes these identifiers; the former witness: *)
Example C03_amp_bus_read_back : ltac:(let t := type of bus_amp_ident_read in exact t).
Proof. exact bus_amp_ident_read. Qed.
(* REFUTATION inside the property's quantifier (replayed on the implementation by the check:
   corpus/edif/c03-bitlike-scalar.json): *)
(* a SCALAR net named "x[1]" with identifier "x_1_" comes back as array cable "x", lower 1 *)
Example C03_refuted_bitlike_scalar : ltac:(let t := type of scalar_bitlike_lost in exact t).
Proof. exact scalar_bitlike_lost. Qed.

(* The statement at full strength, over a whole-file model that does not exist yet: [nv] a pure
   netlist value, [edifify] the writer's pre-pass, [emit] its document, [elab] the reader from
   document to netlist value. NOT PROVED (and, by the refutation above, false for the code
   as it is unless [expressible] also excludes those names). *)
Record edif_pipeline := {
  nv : Type;
  expressible : nv -> Prop;
  same_struct : nv -> nv -> Prop;
  edifify : nv -> nv;
  emit : nv -> sexp;
  elab : sexp -> option nv }.

Definition C03_full (M : edif_pipeline) : Prop :=
  forall n : nv M, expressible M n ->
    exists d n', read (tokenize (print (emit M (edifify M n)))) = Some d /\
                 elab M d = Some n' /\ same_struct M n n'.
