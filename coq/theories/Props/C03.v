(* C03 - EDIF write-then-read returns the same netlist.
   Property theorems only; each is closed by [exact] of a lemma proved under Proofs/Edif*.v.

   What is proved: the five mechanisms the round trip rests on (each unbounded), the ONE-CABLE
   pipeline (writer's per-bit nets of any bus, in any order, through the reader's name splitting and
   multibit merge give the cable back), the ONE-CELL net pipeline (all cables of a cell, written in
   order, read back by the reader's net loop with its lookups and fallbacks), and two refutations of the round trip for inputs inside the
   property's quantifier (bus whose identifier starts with "&_"; scalar net named like a bit).
   What is NOT proved: the whole-file statement [C03_full] (libraries, cells, ports, instances,
   reference resolution, rename bookkeeping, identifier assignment). It is evaluated on the
   implementation by harness/edif_check.py (test evidence, not proof). *)
From Coq Require Import List NArith Bool Permutation.
From SV Require Import Base.Base Fmt.EdifTopo Fmt.EdifLex Fmt.EdifName Fmt.EdifCable Fmt.EdifBus Fmt.EdifNets
  Proofs.EdifTopoProofs Proofs.EdifLexProofs Proofs.EdifNameProofs Proofs.EdifCableProofs Proofs.EdifBusProofs
  Proofs.EdifNetsProofs.
Import ListNotations.

(* (a) _topological_sort: on acyclic, closed input the fuel suffices, the output is a permutation
   of the input and every dependency precedes its user - for ANY iteration order of the
   dependency sets ([deps] is an arbitrary function to lists) *)
Theorem C03_toposort_perm_sorted : forall deps objs,
  NoDup objs -> closed_in deps objs -> ranked deps ->
  exists out, topological_sort deps objs = Some out /\ Permutation objs out /\
    forall o d, In o out -> In d (deps o) -> precedes d o out.
Proof. exact toposort_perm_sorted. Qed.
Print Assumptions C03_toposort_perm_sorted.

(* whenever the loop terminates (any fuel) the result is sorted and duplicate-free *)
Theorem C03_toposort_sorted_if_terminates : forall fuel deps objs out,
  irreflexive deps -> topo_outer fuel deps objs [] = Some out ->
  (NoDup out /\ forall o d, In o out -> In d (deps o) -> precedes d o out).
Proof. exact toposort_sorted_fuel. Qed.
Print Assumptions C03_toposort_sorted_if_terminates.

(* already sorted input comes back unchanged (used by C16: a second write changes nothing) *)
Theorem C03_toposort_fixpoint : forall deps objs,
  NoDup objs ->
  (forall l1 o l2 d, objs = l1 ++ o :: l2 -> In d (deps o) -> In d l1) ->
  topological_sort deps objs = Some objs.
Proof. exact toposort_fixpoint. Qed.
Print Assumptions C03_toposort_fixpoint.

Example C03_toposort_example : ltac:(let t := type of toposort_example in exact t).
Proof. exact toposort_example. Qed.
(* the source loop has no measure: on a dependency cycle the model runs out of fuel (the real
   compose never returns) *)
Example C03_toposort_cycle_diverges : ltac:(let t := type of toposort_cycle_diverges in exact t).
Proof. exact toposort_cycle_diverges. Qed.

(* (b) bit names: str(int) / int(str) are inverse and the reader's splitting undoes the writer's
   "<ident>_<i>_" / "<name>[<i>]" for every i : N, every identifier (also "&" / "&_...": repaired
   K4), every name (also names starting with a backslash: repaired K9) *)
Theorem C03_dec_inverse : forall n : N, int_of (dec n) = n.
Proof. exact int_of_dec. Qed.
Print Assumptions C03_dec_inverse.

Theorem C03_bitname_inverse : forall (ident name : str) (i : N),
  net_bit (bit_ident ident i) (bit_name name i) = Some (Some i, name, ident).
Proof. exact bitname_inverse. Qed.
Print Assumptions C03_bitname_inverse.

(* the exact side conditions of the code (complete characterisations) *)
Theorem C03_bitname_bracket_exact : forall (name : str) (i : N),
  sep_bracket (bit_name name i) = Some (Some i, name).
Proof. exact bitname_bracket_full. Qed.
Print Assumptions C03_bitname_bracket_exact.

Theorem C03_bitname_underscore_exact : forall (ident : str) (i : N),
  sep_underscore (bit_ident ident i) = (Some i, ident).
Proof. exact bitname_underscore_full. Qed.
Print Assumptions C03_bitname_underscore_exact.

Example C03_bitname_examples : ltac:(let t := type of bitname_examples in exact t).
Proof. exact bitname_examples. Qed.

(* (c) multibit_add_cable folded over ANY duplicate-free sequence of bits (any permutation of any
   subset of a bus): one array cable, lower = min, width = max-min+1, bit i at position i-lower,
   gaps empty *)
Theorem C03_multibit_assemble : forall P (bits : list (N * list P)) c,
  NoDup (idxs bits) -> assemble bits = Some c ->
     c_lower c = min_idx (idxs bits)
  /\ N.of_nat (length (c_wires c)) = (max_idx (idxs bits) - min_idx (idxs bits) + 1)%N
  /\ c_array c = true
  /\ forall i, wire_of c i = lookup i bits.
Proof. exact multibit_assemble. Qed.
Print Assumptions C03_multibit_assemble.

Theorem C03_multibit_order_irrelevant : forall P (bits bits' : list (N * list P)) c c',
  NoDup (idxs bits) -> Permutation bits bits' ->
  assemble bits = Some c -> assemble bits' = Some c' -> c = c'.
Proof. exact multibit_order_irrelevant. Qed.
Print Assumptions C03_multibit_order_irrelevant.

Example C03_multibit_example : ltac:(let t := type of multibit_example in exact t).
Proof. exact multibit_example. Qed.

(* (d) (member p x): the index the writer computes and the reader's port.pins[x] are inverse, for
   every pin of every array port; lower_index and is_downto do not enter *)
Theorem C03_member_inverse : forall haswire pt k p,
  NoDup (p_pins pt) -> member_read (p_pins pt) k = Some p -> haswire p = true ->
     member_inner haswire (p_pins pt) p = Some k
  /\ member_outer (p_pins pt) p = [k]
  /\ forall lo dt,
       let pt' := mkport (p_pins pt) lo dt in
       member_inner haswire (p_pins pt') p = Some k /\ member_outer (p_pins pt') p = [k] /\
       member_read (p_pins pt') k = Some p.
Proof. exact member_inverse. Qed.
Print Assumptions C03_member_inverse.

Theorem C03_member_written_index_reads_back : forall haswire pins p,
  In p pins -> haswire p = true -> NoDup pins ->
  exists k, member_inner haswire pins p = Some k /\ member_read pins k = Some p.
Proof. exact member_inverse_inner. Qed.
Print Assumptions C03_member_written_index_reads_back.

(* (e) printer / tokenizer / reader: every document whose atoms are free of white space,
   parentheses and double quotes and whose strings are free of double quotes, \n, \r *)
Theorem C03_lex_print : forall x, sexp_ok x = true -> read (tokenize (print x)) = Some x.
Proof. exact lex_print. Qed.
Print Assumptions C03_lex_print.

Example C03_lex_print_example : ltac:(let t := type of lex_print_example in exact t).
Proof. exact lex_print_example. Qed.
Example C03_lex_print_needs_no_quote : ltac:(let t := type of lex_print_needs_no_quote in exact t).
Proof. exact lex_print_needs_no_quote. Qed.

(* (b)+(c) composed: ONE CABLE through the writer and back through the reader, the nets in any
   file order *)
Theorem C03_cable_roundtrip : forall P ident name (c : cab P) nets,
  c_wires c <> [] -> is_bus c ->
  Permutation nets (emit_cable ident name c) ->
  read_cable nets = Some (name, ident, mkcab (c_lower c) true (c_wires c)).
Proof. exact bus_roundtrip_any_order. Qed.
Print Assumptions C03_cable_roundtrip.

Theorem C03_scalar_roundtrip : forall P ident name (w : list P),
  name <> [] -> last name 0%N <> c_rbr -> last name 0%N <> c_lbr ->
  read_cable (emit_cable ident name (mkcab 0%N false [w])) =
  Some (name, ident, mkcab 0%N false [w]).
Proof. exact scalar_roundtrip_plain. Qed.
Print Assumptions C03_scalar_roundtrip.

Example C03_cable_roundtrip_example : ltac:(let t := type of bus_roundtrip_example in exact t).
Proof. exact bus_roundtrip_example. Qed.

(* ALL CABLES OF ONE CELL through the writer (in order, each bus bit by bit) and back through the
   reader's net loop (lookup by name, then by identifier, merge or add, ValueError fallback): same
   cables, same order, names, identifiers, lower indices and per-bit pins; buses flagged as arrays.
   [wf_cell]: names pairwise different, identifiers pairwise different case-insensitively, every
   bus has at least one wire (any identifier, any name: K4 and K9 repaired), every
   scalar net has lower 0 and is not named like a bit. (Names with * or ? are ordinary names: K7.) *)
Theorem C03_cell_nets_roundtrip : forall P (cabs : list (entry P)), wf_cell cabs ->
  read_nets [] (emit_nets cabs) = Some (map norm_entry cabs).
Proof. exact cell_nets_roundtrip. Qed.
Print Assumptions C03_cell_nets_roundtrip.

Example C03_cell_nets_example : ltac:(let t := type of cell_nets_example in exact t).
Proof. exact cell_nets_example. Qed.
(* outside wf_cell the round trip fails: *)
Example C03_cell_nets_collision_bitlike : ltac:(let t := type of cell_nets_collision_bitlike in exact t).
Proof. exact cell_nets_collision_bitlike. Qed.
Example C03_cell_nets_collision_ident : ltac:(let t := type of cell_nets_collision_ident in exact t).
Proof. exact cell_nets_collision_ident. Qed.

(* REPAIRED (K4; corpus/edif/c03-amp-underscore-bus.json is a regression case): a bus whose identifier is
   "&" or starts with "&_" (EdififyNames gives such an identifier to every name starting with a character
   that is neither a letter nor a digit) is read back as one cable - [C03_cable_roundtrip] no longer
   excludes these identifiers; the former witness: *)
Example C03_amp_bus_read_back : ltac:(let t := type of bus_amp_ident_read in exact t).
Proof. exact bus_amp_ident_read. Qed.
(* REFUTATION inside the property's quantifier (replayed on the implementation by the check:
   corpus/edif/c03-bitlike-scalar.json): *)
(* a SCALAR net named "x[1]" with identifier "x_1_" comes back as array cable "x", lower 1 *)
Example C03_refuted_bitlike_scalar : ltac:(let t := type of scalar_bitlike_lost in exact t).
Proof. exact scalar_bitlike_lost. Qed.

(* The statement at full strength, over a whole-file model that does not exist yet: [nv] a pure
   netlist value, [edifify] the writer's pre-pass, [emit] its document, [elab] the reader from
   document to netlist value. NOT PROVED (and, by the refutation above, false for the code
   as it is unless [expressible] also excludes those names). *)
Record edif_pipeline := {
  nv : Type;
  expressible : nv -> Prop;
  same_struct : nv -> nv -> Prop;
  edifify : nv -> nv;
  emit : nv -> sexp;
  elab : sexp -> option nv }.

Definition C03_full (M : edif_pipeline) : Prop :=
  forall n : nv M, expressible M n ->
    exists d n', read (tokenize (print (emit M (edifify M n)))) = Some d /\
                 elab M d = Some n' /\ same_struct M n n'.

(* ------------------------------------------------------------------------------------------ *)
(* THE WHOLE-FILE WRITER (Fmt/EdifEmit.emit_file : timestamp -> program metadata -> float properties -> nvfile -> document,
   construct by construct after ComposeEdif; tied to the real composer on every run by
   harness/edif_emit.py: the file the composer wrote == emit_file of the value of the netlist)
   composed with the whole-file READER (Fmt/EdifFile.elab_file, Props/C05.v). *)
From Coq Require Import String.
From SV Require Import Fmt.EdifFile Fmt.EdifEmit Proofs.EdifEmitProofs.

(* the VERIFIED CHECKER, evaluated by the extracted model on every generated and bundled netlist of
   every run: when it says yes, the document written for the value n is its own text and the
   reader gives back [norm_file n] - the same libraries, cells, ports (direction, width, array-ness),
   instances (references, properties), cables with the same pins wire by wire, the same top
   instance, all names and identifiers; only the view is now called "netlist" and every bus carries
   the array flag (Fmt/EdifNets.norm_entry) *)
Theorem C03_emit_roundtrip_checked : forall ts prog fl n, rt_check ts prog fl n = true ->
  exists d, emit_file ts prog fl n = EmOk d /\ sexp_ok d = true /\ elab_file d = Ok (norm_file n).
Proof. exact rt_check_sound. Qed.
Print Assumptions C03_emit_roundtrip_checked.

(* ... from CHARACTERS: the text printed for the document, tokenized by the tokenizer model and read *)
Theorem C03_emit_roundtrip_text_checked : forall ts prog fl n, rt_check ts prog fl n = true ->
  exists t, emit_text ts prog fl n = EmOk t /\ elab_text t = Ok (norm_file n).
Proof. exact rt_check_text. Qed.
Print Assumptions C03_emit_roundtrip_text_checked.

(* the equality the checker computes is Leibniz equality of netlist values *)
Theorem C03_value_equality_decided : forall a b : nvfile, file_eqb a b = true -> a = b.
Proof. exact file_eqb_eq. Qed.
Print Assumptions C03_value_equality_decided.

(* the timestamp is a parameter of the document only: it never decides whether a file is written *)
Theorem C03_emit_timestamp_irrelevant : forall ts ts' prog fl n d, emit_file ts prog fl n = EmOk d ->
  Forall (fun a => atom_ok a = true) ts' -> List.length ts' = List.length ts ->
  exists d', emit_file ts' prog fl n = EmOk d'.
Proof. exact emit_timestamp_only. Qed.
Print Assumptions C03_emit_timestamp_irrelevant.

(* a two-library netlist with renamed elements, an array port, properties of the three value
   forms, a bus with lower index 2: it is writable, passes the checker, and this is its text *)
Example C03_emit_roundtrip_example : ltac:(let t := type of emit_roundtrip_example in exact t).
Proof. exact emit_roundtrip_example. Qed.
(* a float property (parameter [fl] of the writer model) is written as (number (e 25 -10)) *)
Example C03_emit_float_example : ltac:(let t := type of emit_float_example in exact t).
Proof. exact emit_float_example. Qed.
(* the "&_" bus of the former C03_refuted_amp_bus as a whole file: writable, and the checker says yes (after the
   reader repair 9b86b49) *)
Example C03_emit_roundtrip_amp_bus_holds : ltac:(let t := type of emit_roundtrip_amp_bus_holds in exact t).
Proof. exact emit_roundtrip_amp_bus_holds. Qed.

(* PER-CONSTRUCT inverse lemmas (writer model then reader model), steps of the general statement: *)
From SV Require Import Proofs.EdifEmitLemmas.
(* _escape_string_ is undone by the reader's %..% decoding, for EVERY string *)
Theorem C03_unescape_escape : forall s, unescape_value (escape_string s) = Ok s.
Proof. exact unescape_escape. Qed.
Print Assumptions C03_unescape_escape.
(* _output_name_of_object_ / parse_nameDef: identifier and original name come back *)
Theorem C03_name_roundtrip : forall ident name x,
  ident_tok_ok ident = true -> text_ok name = true -> name_sexp ident name = EmOk x ->
  exists n, parse_namedef x = Ok n /\ nm_ident n = ident /\ nm_name n = name.
Proof. exact name_roundtrip. Qed.
Print Assumptions C03_name_roundtrip.
(* str(int) / int(): every integer *)
Theorem C03_int_roundtrip : forall z, int_tok (dec_z z) = Some z.
Proof. exact int_roundtrip. Qed.
Print Assumptions C03_int_roundtrip.
(* a whole (property ..) construct with an integer, string or boolean value *)
Theorem C03_property_roundtrip : forall p x, propid_w (pr_ident p) = true -> prop_w p = true ->
  prop_sexp p = EmOk x -> exists args, x = SList (KW "property" :: args) /\ parse_property args = Ok p.
Proof. exact prop_roundtrip. Qed.
Print Assumptions C03_property_roundtrip.
(* the direction construct *)
Theorem C03_direction_roundtrip : forall d l, dir_sexp d = EmOk l ->
  loop port_step false (false, 0%N) l = Ok (negb (N.eqb d 0), d).
Proof. exact dir_roundtrip. Qed.
Print Assumptions C03_direction_roundtrip.

(* a whole (port ..) construct, scalar or array, renamed or not, any direction: parse_port gives the
   port back when no earlier sibling has its identifier or name *)
Theorem C03_port_roundtrip : forall ports p x, port_w p = true -> port_sexp p = EmOk x ->
  ident_taken (po_ident p) (map po_ident ports) = false ->
  name_taken (po_name p) (map po_name ports) = false ->
  exists args, x = SList (KW "port" :: args) /\ parse_port ports args = Ok p.
Proof. exact port_roundtrip. Qed.
Print Assumptions C03_port_roundtrip.
(* the name of an element (library, cell, port, instance, net, design): legal identifier and name back *)
Theorem C03_elemname_roundtrip : forall ident name x, ident_w ident = true -> text_ok name = true ->
  name_sexp ident name = EmOk x ->
  exists n, parse_elemname x = Ok n /\ nm_ident n = ident /\ nm_name n = name.
Proof. exact elemname_roundtrip. Qed.
Print Assumptions C03_elemname_roundtrip.

(* the whole (interface ..) of a cell: all ports come back, in order *)
Theorem C03_interface_roundtrip : forall ps xs, emap port_sexp ps = EmOk xs -> forallb port_w ps = true ->
  uniq_ci (map po_ident ps) = true -> uniq_x (map po_name ps) = true ->
  parse_interface (SList (KW "interface" :: xs)) = Ok ps.
Proof. exact interface_roundtrip. Qed.
Print Assumptions C03_interface_roundtrip.
(* a whole (instance ..) construct with its reference and properties, in a reader context [cx] in
   which the referenced cell is declared (library l resolved to l itself, cell c found under its
   exact identifier, view "netlist"): the instance comes back with the ports of that cell *)
Theorem C03_instance_roundtrip : forall cx insts lib cell i x l c cs C,
  inst_sexp [] lib cell i = EmOk x -> in_ref i = Some (l, c) ->
  elem_w (in_ident i) (in_name i) = true -> forallb prop_w (in_props i) = true ->
  ident_w l = true -> ident_w c = true ->
  resolve_lib cx (Some l) = Ok (l, cs) -> find_cell c cs = Some C -> ce_ident C = c ->
  ce_view C = Some (K "netlist") ->
  ident_taken (in_ident i) (map (fun ip : einst => in_ident (fst ip)) insts) = false ->
  name_taken (in_name i) (map (fun ip : einst => in_name (fst ip)) insts) = false ->
  exists args, x = SList (KW "instance" :: args) /\ parse_instance cx insts args = Ok (i, ce_ports C).
Proof. exact inst_roundtrip. Qed.
Print Assumptions C03_instance_roundtrip.

(* NETS and ONE CELL (Proofs/EdifEmitNets.v). [rp x] = the ports the reader holds for instance x. *)
From SV Require Import Fmt.EdifFileSpec Proofs.EdifNetsProofs Proofs.EdifEmitNets.
(* one (portref ..), with (member p k) for array ports and (instanceref i): the same pin comes back *)
Theorem C03_pin_roundtrip : forall libs c cx rp p x,
  cx_ports cx = ce_ports c -> pin_good libs c rp p -> pin_sexp libs c p = EmOk x ->
  exists args, x = SList (KW "portref" :: args) /\ parse_portref cx (einsts rp (ce_insts c)) args = Ok p.
Proof. exact pin_roundtrip. Qed.
Print Assumptions C03_pin_roundtrip.
(* all nets of a cell through the reader's contents loop: exactly Fmt/EdifNets.read_nets of the
   written nets (so C03_cell_nets_roundtrip applies) *)
Theorem C03_nets_loop_is_read_nets : forall libs c cx rp nets cabs0 xs cabsF,
  cx_ports cx = ce_ports c ->
  emap (net_sexp libs c) nets = EmOk xs -> Forall (net_good libs c rp) nets ->
  Proofs.EdifFileNets.sinv cabs0 -> read_nets cabs0 nets = Some cabsF ->
  NoDup (Proofs.EdifFileNets.spins cabs0 ++ flat_map snd nets) ->
  loop (contents_step cx) false (mkcst (einsts rp (ce_insts c)) cabs0) xs =
  Ok (mkcst (einsts rp (ce_insts c)) cabsF).
Proof. exact nets_loop. Qed.
Print Assumptions C03_nets_loop_is_read_nets.
(* ONE CELL: name, interface, instances, nets; read in a reader state (libraries [rlibs] read, cells
   [rcells] of this library read so far) in which every instance reference resolves ([inst_good])
   and every pin names a declared port below its width ([net_good]): parse_cell gives norm_cell c *)
Theorem C03_emit_roundtrip_cell : forall rlibs libs lib rcells c x rp,
  cell_sexp [] libs lib c = EmOk x ->
  elem_w (ce_ident c) (ce_name c) = true ->
  forallb port_w (ce_ports c) = true ->
  uniq_ci (map po_ident (ce_ports c)) = true -> uniq_x (map po_name (ce_ports c)) = true ->
  Forall (inst_good (mkctx rlibs lib rcells (ce_ident c) (K "netlist") (ce_ports c)) rp) (ce_insts c) ->
  uniq_ci (map in_ident (ce_insts c)) = true -> uniq_x (map in_name (ce_insts c)) = true ->
  wf_cell (ce_cabs c) -> Forall (net_good libs c rp) (emit_nets (ce_cabs c)) -> NoDup (pins_of (ce_cabs c)) ->
  ident_taken (ce_ident c) (map ce_ident rcells) = false ->
  name_taken (ce_name c) (map ce_name rcells) = false ->
  exists args, x = SList (KW "Cell" :: args) /\ parse_cell rlibs lib rcells args = Ok (norm_cell c).
Proof. exact cell_roundtrip. Qed.
Print Assumptions C03_emit_roundtrip_cell.

(* FROM THE BOOLEAN CLASS (Proofs/EdifEmitCell.v): position of a cell in the file
   libs = prev ++ Lc :: after, li_cells Lc = done ++ rest ([env]); the reader has then read
   map norm_lib prev and map norm_cell done *)
From SV Require Import Proofs.EdifEmitCell.
Theorem C03_emit_roundtrip_cell_writable : forall libs prev lib done c x,
  env libs prev lib done -> cell_w prev lib done c = true ->
  ident_taken (ce_ident c) (map ce_ident done) = false -> name_taken (ce_name c) (map ce_name done) = false ->
  cell_sexp [] libs lib c = EmOk x ->
  exists args, x = SList (KW "Cell" :: args) /\
    parse_cell (map norm_lib prev) lib (map norm_cell done) args = Ok (norm_cell c).
Proof. exact cell_w_roundtrip. Qed.
Print Assumptions C03_emit_roundtrip_cell_writable.
(* ONE LIBRARY of a file libs = prev ++ Lc :: after whose earlier libraries are writable *)
Theorem C03_emit_roundtrip_library : forall libs prev Lc after x,
  libs = prev ++ Lc :: after -> uniq_ci (map li_ident libs) = true -> prev_ok prev ->
  lib_w prev Lc = true ->
  ident_taken (li_ident Lc) (map li_ident prev) = false -> name_taken (li_name Lc) (map li_name prev) = false ->
  lib_sexp [] libs Lc = EmOk x ->
  exists args, x = SList (KW "Library" :: args) /\ parse_library (map norm_lib prev) args = Ok (norm_lib Lc).
Proof. exact lib_w_roundtrip. Qed.
Print Assumptions C03_emit_roundtrip_library.
(* THE WHOLE FILE at document level: every writable value; the document written (header, status with
   timestamp and program metadata, all libraries, design) is read back as norm_file n *)
Theorem C03_emit_roundtrip_file : forall ts prog n d,
  writable n = true -> params_w ts prog = true -> emit_file ts prog [] n = EmOk d ->
  atoms_ascii d = true -> elab_file d = Ok (norm_file n).
Proof. exact file_roundtrip. Qed.
Print Assumptions C03_emit_roundtrip_file.

(* every writable value IS written (no EmRaises / EmUnsupported), its document is ASCII and its own text *)
From SV Require Import Proofs.EdifEmitTotal.
Theorem C03_emit_total : forall ts prog n, writable n = true -> params_w ts prog = true ->
  exists d, emit_file ts prog [] n = EmOk d /\ atoms_ascii d = true /\ sexp_ok d = true.
Proof. exact emit_total. Qed.
Print Assumptions C03_emit_total.

(* THE GENERAL STATEMENT over the decidable class [writable] (Fmt/EdifEmit.v: what the reader checks
   on the written file, minus the remaining open findings: bit-like scalar names, bus names starting
   with a backslash, non-ASCII text, line breaks in strings): for every writable netlist value and
   admissible timestamp / program parameters the writer model writes a TEXT, and the reader model
   (tokenizer, parenthesis reader, whole-file elaboration) reads that text back as norm_file n -
   same libraries, cells, ports, instances with references and properties, cables with the same pins
   wire by wire, same top instance; only the view is called "netlist" and a bus carries the array
   flag. PROVED (C03_emit_roundtrip_full_holds). It is a statement about the two MODELS; the models
   are tied to the code on every run (harness/edif_emit.py: composer output == emit_file; whole-file
   tie: elab_text == sdn.parse), and every run still evaluates writable n -> rt_check n and
   writable n -> the implementation reads its own file back to the same netlist. *)
Definition C03_emit_roundtrip_full : Prop := forall ts prog n,
  writable n = true -> params_w ts prog = true ->
  exists t, emit_text ts prog [] n = EmOk t /\ elab_text t = Ok (norm_file n).
Theorem C03_emit_roundtrip_full_holds : C03_emit_roundtrip_full.
Proof. exact emit_roundtrip_full. Qed.
Print Assumptions C03_emit_roundtrip_full_holds.
