(* C15 - Rejected input fails cleanly and leaves no process-wide residue. Property theorems only. *)
From Coq Require Import String.
From Coq Require Import List.
From SV Require Import Base.Base IR.State Fmt.Policy Proofs.PolicyProofs.
From SV Require Fmt.EdifLex Fmt.EdifFile Fmt.EdifFileSpec Proofs.EdifFileWf.

(* whatever the reader body does - return or raise, on any input - the active naming policy after
   the call is the one before it *)
Theorem C15_policy_restored : forall A f (b : body A) p,
  (f = FEblif -> policy_neutral b) -> fst (parse_call f b p) = p.
Proof. exact @parse_call_restores. Qed.
Print Assumptions C15_policy_restored.

(* ... hence after any sequence of parses of valid, truncated or corrupted inputs *)
Theorem C15_session_restored : forall A (calls : list (fmt * body A)) p,
  (forall f b, In (f, b) calls -> f = FEblif -> policy_neutral b) -> session calls p = p.
Proof. exact @session_restores. Qed.
Print Assumptions C15_session_restored.

(* ... and an EDIF/Verilog parse behaves the same whatever policy earlier calls left behind *)
Theorem C15_fresh_process_behaviour : forall A f (b : body A) p q,
  f <> FEblif -> snd (parse_call f b p) = snd (parse_call f b q).
Proof. exact @parse_call_outcome_independent. Qed.
Print Assumptions C15_fresh_process_behaviour.

(* EDIF reader, "a damaged file makes the reader raise, never return a half-built netlist, never
   loop": on the whole-file model (Fmt/EdifFile.v, from characters: tokenize, read_first, elab_file;
   tied to sdn.parse on valid and corrupted files by harness/edif_file.py in every run of C05)
   - for EVERY text, whatever is returned is well formed: references resolve inside the result,
     every pin on a wire is an existing bit of an existing port, no pin is on two wires, sibling
     identifiers are distinct case-insensitively, the top instance references a declared cell;
   - the model cannot loop: every function of it is structurally recursive on the token list /
     the children lists (no fuel), so elab_text is total by construction.
   What the code does NOT guarantee: an "(instance n)" without viewRef is accepted and left without
   a reference (open finding C05-K14) - [C15_edif_bare_instance_accepted]; with every instance
   carrying its viewRef the result is fully well formed - [C15_edif_wf_file]. *)
Theorem C15_edif_wf_or_error : forall (text : str) (n : EdifFile.nvfile), EdifFile.elab_text text = EdifFile.Ok n -> EdifFileSpec.wf_core n.
Proof. exact EdifFileWf.elab_text_wf_core. Qed.
Print Assumptions C15_edif_wf_or_error.

Theorem C15_edif_wf_or_error_tokens : forall (toks : list str) (n : EdifFile.nvfile), EdifFile.elab_tokens toks = EdifFile.Ok n -> EdifFileSpec.wf_core n.
Proof. exact EdifFileWf.elab_tokens_wf_core. Qed.
Print Assumptions C15_edif_wf_or_error_tokens.

Theorem C15_edif_wf_file : forall (d : EdifLex.sexp) (n : EdifFile.nvfile),
  EdifFile.elab_file d = EdifFile.Ok n -> EdifFileSpec.all_referencedb n = true -> EdifFileSpec.wf_file n.
Proof. exact EdifFileWf.elab_file_wf. Qed.
Print Assumptions C15_edif_wf_file.

Definition C15_bare_instance_text : str := s2l
  "(edif n (edifVersion 2 0 0) (edifLevel 0) (keywordMap (keywordLevel 0))
    (library work (edifLevel 0) (technology (numberDefinition))
      (cell t (cellType GENERIC) (view netlist (viewType NETLIST) (interface (port x (direction INPUT)))
        (contents (instance u1) (net x (joined (portRef x))))))))".

Example C15_edif_bare_instance_accepted :
  exists n, EdifFile.elab_text C15_bare_instance_text = EdifFile.Ok n /\ EdifFileSpec.all_referencedb n = false.
Proof. eexists. split; vm_compute; reflexivity. Qed.

(* Runtime residue (not a theorem, see DESIGN.md): that the PYTHON recursive-descent loops
   terminate on every corrupted token stream is checked on the implementation only, by the
   corruption streams of harness/policy_check.py and harness/edif_file.py under a per-input
   timeout; Verilog and EBLIF readers: well-formedness of everything returned is checked on the
   implementation only. *)
Definition C15_full : Prop := forall A f (b : body A) p,
  (f = FEblif -> policy_neutral b) -> fst (parse_call f b p) = p.
