(* C15 - Rejected input fails cleanly and leaves no process-wide residue. Property theorems only. *)
From Coq Require Import List.
From SV Require Import Base.Base IR.State Fmt.Policy Proofs.PolicyProofs.

(* whatever the reader body does - return or raise, on any input - the active naming policy after
   the call is the one before it *)
Theorem C15_policy_restored : forall A f (b : body A) p,
  (f = FEblif -> policy_neutral b) -> fst (parse_call f b p) = p.
Proof. exact @parse_call_restores. Qed.
Print Assumptions C15_policy_restored.

(* ... hence after any sequence of parses of valid, truncated or corrupted inputs *)
Theorem C15_session_restored : forall A (calls : list (fmt * body A)) p,
  (forall f b, In (f, b) calls -> f = FEblif -> policy_neutral b) -> session calls p = p.
Proof. exact @session_restores. Qed.
Print Assumptions C15_session_restored.

(* ... and an EDIF/Verilog parse behaves the same whatever policy earlier calls left behind *)
Theorem C15_fresh_process_behaviour : forall A f (b : body A) p q,
  f <> FEblif -> snd (parse_call f b p) = snd (parse_call f b q).
Proof. exact @parse_call_outcome_independent. Qed.
Print Assumptions C15_fresh_process_behaviour.

(* Runtime residue (not a theorem, see DESIGN.md): that the Python recursive-descent loops
   terminate on every corrupted token stream and never hand back a half-built structure is
   checked on the implementation only, by the corruption stream of harness/policy_check.py
   under a per-input timeout with a well-formedness check of everything returned. *)
Definition C15_full : Prop := forall A f (b : body A) p,
  (f = FEblif -> policy_neutral b) -> fst (parse_call f b p) = p.
