(* C15 - Rejected input fails cleanly and leaves no process-wide residue. Property theorems only. *)
From Coq Require Import String.
From Coq Require Import List.
From SV Require Import Base.Base IR.State Fmt.Policy Proofs.PolicyProofs.
From SV Require Fmt.EdifLex Fmt.EdifFile Fmt.EdifFileSpec Proofs.EdifFileWf.
From SV Require Fmt.VDoc Fmt.VElab Fmt.VSpec Proofs.VElabWf Fmt.Blif Fmt.BlifRead Fmt.BlifSpec Proofs.BlifC18.

(* whatever the reader body does - return or raise, on any input - the active naming policy after
   the call is the one before it *)
Theorem C15_policy_restored : forall A f (b : body A) p,
  (f = FEblif -> policy_neutral b) -> fst (parse_call f b p) = p.
Proof. exact @parse_call_restores. Qed.
Print Assumptions C15_policy_restored.

(* ... hence after any sequence of parses of valid, truncated or corrupted inputs *)
Theorem C15_session_restored : forall A (calls : list (fmt * body A)) p,
  (forall f b, In (f, b) calls -> f = FEblif -> policy_neutral b) -> session calls p = p.
Proof. exact @session_restores. Qed.
Print Assumptions C15_session_restored.

(* ... and an EDIF/Verilog parse behaves the same whatever policy earlier calls left behind *)
Theorem C15_fresh_process_behaviour : forall A f (b : body A) p q,
  f <> FEblif -> snd (parse_call f b p) = snd (parse_call f b q).
Proof. exact @parse_call_outcome_independent. Qed.
Print Assumptions C15_fresh_process_behaviour.

(* EDIF reader, "a damaged file makes the reader raise, never return a half-built netlist, never
   loop": on the whole-file model (Fmt/EdifFile.v, from characters: tokenize, read_first, elab_file;
   tied to sdn.parse on valid and corrupted files by harness/edif_file.py in every run of C05 and on
   the corrupted texts of every run of C15)
   - for EVERY text, whatever is returned is fully well formed ([wf_file]): references resolve inside
     the result, every pin on a wire is an existing bit of an existing port, no pin is on two wires,
     sibling identifiers are distinct case-insensitively, the top instance references a declared cell,
     every instance has a reference, every port has at least one pin;
   - the end of the file is strict: the accepted token streams are exactly one balanced form, so every
     proper prefix of an accepted stream (a truncated file, in particular one that lacks its last
     parentheses) and every accepted stream followed by further tokens is refused;
   - the model cannot loop: every function of it is structurally recursive on the token list /
     the children lists (no fuel), so elab_text is total by construction. *)
Theorem C15_edif_wf_or_error : forall (text : str) (n : EdifFile.nvfile), EdifFile.elab_text text = EdifFile.Ok n -> EdifFileSpec.wf_file n.
Proof. exact EdifFileWf.elab_text_wf. Qed.
Print Assumptions C15_edif_wf_or_error.

Theorem C15_edif_wf_or_error_tokens : forall (toks : list str) (n : EdifFile.nvfile), EdifFile.elab_tokens toks = EdifFile.Ok n -> EdifFileSpec.wf_file n.
Proof. exact EdifFileWf.elab_tokens_wf. Qed.
Print Assumptions C15_edif_wf_or_error_tokens.

Theorem C15_edif_wf_file : forall (d : EdifLex.sexp) (n : EdifFile.nvfile),
  EdifFile.elab_file d = EdifFile.Ok n -> EdifFileSpec.wf_file n.
Proof. exact EdifFileWf.elab_file_wf. Qed.
Print Assumptions C15_edif_wf_file.

Theorem C15_edif_truncated_rejected : forall (toks : list str) (n : EdifFile.nvfile) (k : nat),
  EdifFile.elab_tokens toks = EdifFile.Ok n -> k < length toks ->
  exists e, EdifFile.elab_tokens (firstn k toks) = EdifFile.Err e.
Proof. exact EdifFileWf.elab_tokens_truncated. Qed.
Print Assumptions C15_edif_truncated_rejected.

Theorem C15_edif_trailing_rejected : forall (toks : list str) (n : EdifFile.nvfile) (extra : list str),
  EdifFile.elab_tokens toks = EdifFile.Ok n -> extra <> nil ->
  exists e, EdifFile.elab_tokens (toks ++ extra) = EdifFile.Err e.
Proof. exact EdifFileWf.elab_tokens_trailing. Qed.
Print Assumptions C15_edif_trailing_rejected.

Definition C15_edif_text (contents tail : string) : str := s2l
  ("(edif n (edifVersion 2 0 0) (edifLevel 0) (keywordMap (keywordLevel 0))
    (library work (edifLevel 0) (technology (numberDefinition))
      (cell t (cellType GENERIC) (view netlist (viewType NETLIST) (interface (port x (direction INPUT)))
        (contents " ++ contents ++ "(net x (joined (portRef x)))))))
    (design t (cellRef t (libraryRef work" ++ tail).

Definition C15_accepted (r : EdifFile.result EdifFile.nvfile) : bool := match r with EdifFile.Ok _ => true | EdifFile.Err _ => false end.

(* the hypotheses of the two theorems above are satisfiable: a complete file is accepted ... *)
Example C15_edif_complete_file_accepted : C15_accepted (EdifFile.elab_text (C15_edif_text "" "))))")) = true.
Proof. vm_compute. reflexivity. Qed.

(* ... the same file without its last two parentheses, with garbage in their place, or with a token after its
   last parenthesis is refused (all three were accepted before the reader was repaired: finding K16) *)
Example C15_edif_damaged_end_rejected :
  EdifFile.elab_text (C15_edif_text "" "))") = EdifFile.Err EdifFile.FeEof /\
  EdifFile.elab_text (C15_edif_text "" ")) garbage ( ( ""unterminated") = EdifFile.Err EdifFile.FeEof /\
  EdifFile.elab_text (C15_edif_text "" ")))) garbage") = EdifFile.Err EdifFile.FeShape.
Proof. repeat split; vm_compute; reflexivity. Qed.

(* an instance without viewRef is refused (it was accepted and left without a reference: finding K14) *)
Example C15_edif_bare_instance_rejected :
  EdifFile.elab_text (C15_edif_text "(instance u1) " "))))") = EdifFile.Err EdifFile.FeShape.
Proof. vm_compute. reflexivity. Qed.

(* The readers of the other two formats, at document level: whatever the reader model returns - for EVERY document,
   damaged or not - is a well-formed, self-contained netlist; anything else is an error value (the models are total:
   structural recursion / explicit fuel, so they cannot hang). These are the C06 / C18 well-formedness theorems, restated
   here because they are the "completed structure or clean failure" clause of this property for Verilog and EBLIF. The
   document-level models are tied to sdn.parse on damaged inputs by the C06 (mutated out-of-class documents) and C18
   (damaged files) runs and by the corruption streams of this check. *)
Theorem C15_verilog_wf_or_error : forall (d : SV.Fmt.VDoc.vdoc) n,
  SV.Fmt.VElab.elab d = SV.Fmt.VElab.Ok n -> SV.Fmt.VSpec.wf_nv n.
Proof. exact SV.Proofs.VElabWf.elab_wf. Qed.
Print Assumptions C15_verilog_wf_or_error.

Theorem C15_eblif_wf_or_error : forall d n,
  SV.Fmt.BlifRead.elab d = SV.Fmt.Blif.Ok n -> SV.Fmt.BlifSpec.WF n.
Proof. exact SV.Proofs.BlifC18.wf_all. Qed.
Print Assumptions C15_eblif_wf_or_error.

(* Runtime residue (not a theorem, see DESIGN.md): that the PYTHON recursive-descent loops
   terminate on every corrupted token stream is checked on the implementation only, by the
   corruption streams of harness/policy_check.py and harness/edif_file.py under a per-input
   timeout; Verilog and EBLIF readers: well-formedness of everything returned is checked on the
   implementation only. *)
Definition C15_full : Prop := forall A f (b : body A) p,
  (f = FEblif -> policy_neutral b) -> fst (parse_call f b p) = p.
