(* C07 - Clones are faithful, self-contained and independent of the original. Property theorems only. *)
From Coq Require Import List ZArith String.
From SV Require Import Base.Base IR.State IR.NS IR.Ops Xform.Clone Proofs.CloneSmall Proofs.C01_full Proofs.Inv1a Proofs.Inv2a Proofs.CloneFrame Proofs.CloneStart Proofs.NsInv Proofs.InvW Proofs.UniqInv Proofs.CloneFaith Proofs.CloneFull Proofs.CloneNetInv Proofs.CloneDefStruct Proofs.CloneLibInv Proofs.CloneAnyInv Proofs.CloneData Proofs.CloneDataNet Proofs.Locality Proofs.LocalityStep Proofs.LocalityHist Proofs.LocalityClone Proofs.LocalityOrig Proofs.LocalityDrefs Proofs.LocalityRefs Proofs.LocalityNet.
Import ListNotations.

(* cloning a wire: one fresh element, no pins listed, nothing else changes *)
Theorem C07_clone_wire : forall s w,
  let r := fst (clone_wire s w) in let w' := snd (clone_wire s w) in
  snd r = None /\ w' = next s /\ wpins (fst r) w' = nil /\ frame_but s (fst r) w'.
Proof. exact clone_wire_spec. Qed.
Print Assumptions C07_clone_wire.

(* cloning an inner pin: one fresh element, not connected, nothing else changes *)
Theorem C07_clone_pin : forall s i,
  let r := fst (clone_pin s i) in let i' := snd (clone_pin s i) in
  snd r = None /\ i' = next s /\ ipwire (fst r) i' = None /\ frame_but s (fst r) i'.
Proof. exact clone_pin_spec. Qed.
Print Assumptions C07_clone_pin.

(* The frame and closure clauses for every kind of root (netlist, library, definition, port, cable,
   wire, pin, instance), in every state reachable by editing calls: cloning changes no field of any
   object that existed before the call - kind, all seven containers and their order, parents, wire
   pins, pin wires, references, outer-pin tables, top instance, bundle attributes, data, namespace
   tables (osame; reference sets are the documented exception: copies of instances register with
   the definitions they reference) - and every containment link of an object created by the call
   leads to an object created by the call (kclosed). *)
Theorem C07_frame_and_closure : forall ops e,
  let s := run ops init in
  let s' := fst (fst (clone_any s e)) in
  osame (next s) s s' /\ kclosed (next s) s'.
Proof. exact clone_reachable. Qed.
Print Assumptions C07_frame_and_closure.

(* the same from the three start conditions, for any state *)
Theorem C07_frame_and_closure_from : forall s e,
  StartOK s -> CloneOK s (fst (fst (clone_any s e))).
Proof. exact clone_any_ok. Qed.
Print Assumptions C07_frame_and_closure_from.

(* the statement in the shape it was first written down (netlist roots) *)
Theorem C07_full : forall s n, StartOK s ->
  let r := fst (clone_netlist s n) in
  (forall x, x < next s ->
     (forall rl, kids (fst r) rl x = kids s rl x /\ par (fst r) rl x = par s rl x) /\
     wpins (fst r) x = wpins s x /\ ipwire (fst r) x = ipwire s x /\ iref (fst r) x = iref s x /\
     ipins (fst r) x = ipins s x /\ data (fst r) x = data s x) /\
  (forall x rl c, next s <= x -> In c (kids (fst r) rl x) -> next s <= c).
Proof.
  intros s n HS. destruct (clone_netlist_ok s n HS) as [O K]. cbn zeta. split.
  - intros x Hx. split; [intro rl; split; [apply (os_kids _ _ _ O rl x Hx)|apply (os_par _ _ _ O rl x Hx)]|].
    split; [apply (os_wpins _ _ _ O x Hx)|]. split; [apply (os_ipwire _ _ _ O x Hx)|]. split; [apply (os_iref _ _ _ O x Hx)|].
    split; [apply (os_ipins _ _ _ O x Hx)|apply (os_data _ _ _ O x Hx)].
  - intros x rl c Hx Hc. apply (K x rl c Hx Hc).
Qed.
Print Assumptions C07_full.

(* "the copy is a well-formed structure": in every state reachable by editing calls, a completed
   Definition.clone leaves every container - of the original design and of the copy - listing exactly
   the elements that name it as parent, once, and every definition listing exactly the instances that
   reference it, once, and every member of a container having the kind its relation asks for: the copied child instances are registered with the definitions they reference,
   and the copy itself is referenced by nothing. (The implementation's Definition.clone is the
   building block of uniquify; the other roots are covered by the frame/closure theorems above and by
   the correspondence runs.) *)
Theorem C07_definition_clone_well_formed : forall ops d,
  let s := run ops init in
  d < next s -> snd (fst (clone_definition s d)) = None ->
  Inv1a (fst (fst (clone_definition s d))) /\ Inv2a (fst (fst (clone_definition s d))) /\ InvT (fst (fst (clone_definition s d))).
Proof. exact clone_definition_reachable. Qed.
Print Assumptions C07_definition_clone_well_formed.

(* "every link - instance references, reference sets, outer-pin/inner-pin pairs, pin-wire joins -
   resolves inside the copy, so the copy is well-formed": in every reachable state a completed
   Definition.clone leaves the whole structural invariant of C01/C02 in force for the whole store -
   every wire of the copy lists exactly the (copied) pins that report it, once; every copied instance's
   outer-pin table mirrors the ports of the definition it references; and the same still holds for
   every object of the original design. *)
Theorem C07_definition_clone_keeps_invariant : forall ops d,
  let s := run ops init in
  d < next s -> kind_of s d = Some KDefinition -> snd (fst (clone_definition s d)) = None ->
  Inv (fst (fst (clone_definition s d))).
Proof. exact clone_definition_reachable_inv. Qed.
Print Assumptions C07_definition_clone_keeps_invariant.

(* "the copy is well-formed" for every kind of root: in every state reachable by editing calls, a
   completed clone() of ANY element - netlist (whose instances instantiate its own definitions),
   library, definition, port, cable, wire, pin or instance - leaves the whole structural invariant of
   C01/C02 in force for the whole store. For the small elements the side connections are cut (copied
   pins point at no wire, copied wires list no pin, a copied instance keeps its outer pins without
   wires and is registered with the definition it references). *)
Theorem C07_clone_any_keeps_invariant : forall ops e,
  let s := run ops init in
  (kind_of s e = Some KNetlist -> Closed s e) ->
  snd (fst (clone_any s e)) = None -> Inv (fst (fst (clone_any s e))).
Proof. exact clone_any_reachable_inv. Qed.
Print Assumptions C07_clone_any_keeps_invariant.

(* the same for Library.clone: in every state reachable by editing calls a completed clone of a library
   leaves the whole structural invariant in force, with no further hypothesis: references of copied
   instances to definitions of the library are redirected to the copies, references that leave the
   library stay and the copied instances are registered with those outside definitions ("the
   bookkeeping on shared definitions (their reference sets) updated exactly as documented"), and the
   reference sets of the copied definitions keep only copies. *)
Theorem C07_library_clone_keeps_invariant : forall ops l,
  let s := run ops init in
  kind_of s l = Some KLibrary -> snd (fst (clone_library s l)) = None -> Inv (fst (fst (clone_library s l))).
Proof. exact clone_library_reachable_inv. Qed.
Print Assumptions C07_library_clone_keeps_invariant.

(* the same for Netlist.clone, the deep copy of a whole design: in every state reachable by editing
   calls, a completed clone of a netlist whose instances (the children of its definitions and its top
   instance) all instantiate definitions of that netlist leaves the whole structural invariant in
   force - for the original design and for the copy: containers and parents agree everywhere
   (including the library list of the copied netlist), every definition lists exactly the instances
   that reference it (so the copied definitions list the copied instances and the original ones the
   original instances, nothing crosses), every wire lists exactly the pins that report it, and every
   instance's outer-pin table mirrors the ports of the definition it references. The closedness
   hypothesis is needed: an instance of a definition outside the netlist keeps that reference in the
   copy without being entered in the outside definition's reference set. *)
Theorem C07_netlist_clone_keeps_invariant : forall ops n,
  let s := run ops init in
  kind_of s n = Some KNetlist -> Closed s n -> snd (fst (clone_netlist s n)) = None ->
  Inv (fst (fst (clone_netlist s n))).
Proof. exact clone_netlist_reachable_inv. Qed.
Print Assumptions C07_netlist_clone_keeps_invariant.

(* "a structurally identical copy (same ... ordering ... and connections) ... in which every link -
   instance references, reference sets ... - resolves inside the copy": under the same hypotheses
   there is a one-to-one map M from the objects of the netlist onto fresh objects of the same kinds
   such that the copy of the netlist lists, in order, the images of its libraries; the copy of each
   library the images of its definitions; the copy of each definition the images of its ports,
   cables and child instances; the copy of each port / cable the images of its pins / wires; the
   copy of each instance references the image of the definition its source references; and the
   reference set of the copy of each definition consists exactly of the images of the instances
   that reference the source; and the connections are the images of the connections: the wire
   pointer of each copied pin is the image of the wire pointer of its source, the outer-pin table of
   each copied instance lists, in order, the images of the keys (inner pins) with the images of the
   wires, and each copied wire lists, in order, the images of the pins its source lists (an outer
   pin (x, i) becoming (M x, M i)). *)
Theorem C07_netlist_clone_structure : forall ops n,
  let s := run ops init in
  kind_of s n = Some KNetlist -> Closed s n -> snd (fst (clone_netlist s n)) = None ->
  exists M, NetStruct s n (fst (fst (clone_netlist s n))) (snd (clone_netlist s n)) M.
Proof. exact clone_netlist_reachable_struct. Qed.
Print Assumptions C07_netlist_clone_structure.

(* ... and from any state that satisfies the invariants the editing calls maintain *)
Theorem C07_netlist_clone_keeps_invariant_from : forall s0 n,
  UF s0 -> StartOK s0 -> (forall x e, iref s0 x = Some e -> kind_of s0 e = Some KDefinition) ->
  kind_of s0 n = Some KNetlist -> (forall t, top s0 n = Some t -> kind_of s0 t = Some KInstance) -> Closed s0 n ->
  snd (fst (clone_netlist s0 n)) = None -> Inv (fst (fst (clone_netlist s0 n))).
Proof. exact clone_netlist_inv. Qed.
Print Assumptions C07_netlist_clone_keeps_invariant_from.

(* the copy made by Definition.clone has the structure and the connections of the original: a
   one-to-one map M from the definition, its ports, pins, cables, wires and child instances onto
   fresh objects of the same kinds; the copy is detached (no parent); its port / cable / child lists
   and the pin / wire lists below them are the images, in order; the copied child instances
   instantiate the SAME definitions as their sources and keep the same keys (inner pins of those
   definitions) with the images of the wires; each copied pin points at the image of its wire, each
   copied wire lists, in order, the images of the pins its source lists. *)
Theorem C07_definition_clone_structure : forall ops d,
  let s := run ops init in
  d < next s -> kind_of s d = Some KDefinition -> snd (fst (clone_definition s d)) = None ->
  exists M, DefStruct s d (fst (fst (clone_definition s d))) (snd (clone_definition s d)) M.
Proof. exact clone_definition_reachable_struct. Qed.
Print Assumptions C07_definition_clone_structure.

(* "same names and data": in every reachable state, for the memo M that Definition._clone builds (the
   one-to-one map of C07_definition_clone_structure, now named: clone_memo) and every pair (a, b) of
   it: if a is a first-class element (the definition, a port, a cable, a child instance - the kinds
   that have a dictionary) the dictionary of b after the clone is cdict (data a): the dictionary of a
   before the clone, entry by entry in the same order, except that - when the definition carries a
   naming policy - the '.NS' entry is deleted and appended again with the definition's policy as value
   (FirstClassElement._reapply_naming_policy deletes and re-assigns '.NS' on the root, the namespace
   manager drops and re-applies it on every element below); if a is a port or a cable, b has the
   same is_downto / is_scalar / lower_index / direction. Names ('.NAME'), EDIF identifiers
   ('EDIF.identifier') and user properties are therefore carried over unchanged (the readings below). *)
Theorem C07_definition_clone_data : forall ops d,
  let s := run ops init in
  d < next s -> kind_of s d = Some KDefinition -> snd (fst (clone_definition s d)) = None ->
  DefStruct s d (fst (fst (clone_definition s d))) (snd (clone_definition s d)) (clone_memo s d) /\
  DefData s d (fst (fst (clone_definition s d))) (clone_memo s d).
Proof. exact clone_definition_reachable_data. Qed.
Print Assumptions C07_definition_clone_data.

(* the same from any state satisfying the invariants of the editing API *)
Theorem C07_definition_clone_data_from : forall s0 d,
  UF s0 -> d < next s0 -> kind_of s0 d = Some KDefinition -> snd (fst (clone_definition s0 d)) = None ->
  DefData s0 d (fst (fst (clone_definition s0 d))) (clone_memo s0 d).
Proof. exact clone_definition_data. Qed.
Print Assumptions C07_definition_clone_data_from.

(* the data statement read key by key: for a pair (a, b) of the memo with a first-class,
   (1) every key other than '.NS' has in b the value it has in a; (2) the entries other than '.NS' are
   the same list, in the same order; (3) if the definition carries the policy v, the dictionary of b is
   exactly that list followed by ('.NS', v); (4) if it carries none, the dictionary of b is the dictionary of a. *)
Theorem C07_definition_clone_data_keys : forall s0 d sF M a b k,
  DefData s0 d sF M -> In (a, b) M -> kind_of s0 a = Some k -> has_data k = true ->
  (forall key, key <> str_NS -> sassoc key (data sF b) = sassoc key (data s0 a)) /\
  sassoc_del str_NS (data sF b) = sassoc_del str_NS (data s0 a) /\
  (forall v, sassoc str_NS (data s0 d) = Some v -> data sF b = sassoc_del str_NS (data s0 a) ++ [(str_NS, v)]) /\
  (sassoc str_NS (data s0 d) = None -> data sF b = data s0 a).
Proof.
  intros s0 d sF M a b k D Hab Hk Hd. split; [intros key Hne; apply (clone_key_same s0 d sF M D a b k Hab Hk Hd key Hne)|].
  split; [apply (clone_user_data_same s0 d sF M D a b k Hab Hk Hd)|].
  split; [intros v Hv; apply (clone_ns_policy s0 d sF M D a b k Hab Hk Hd v Hv)|apply (clone_no_policy s0 d sF M D a b k Hab Hk Hd)].
Qed.
Print Assumptions C07_definition_clone_data_keys.

(* non-vacuity: a named cell with an EDIF identifier and a property, a named child with a property, a
   named cable with a property, a named two-pin input port with lower index 3, not downto; the clone
   completes, the memo pairs 5->12 (definition) 9->13 (port) 7->16 (cable) 6->18 (child), and the
   dictionaries of the copies are the originals with '.NS' moved to the end; the port attributes follow *)
Example C07_definition_clone_data_sample :
  let ops := [ ONew KNetlist None []; OCreate RLibs 0 (Some (s2l "work"%string)) [] 0 None;
               OCreate RDefs 1 (Some (s2l "leaf"%string)) [] 0 None; OCreate RPorts 2 (Some (s2l "A"%string)) [] 1 None;
               OCreate RDefs 1 (Some (s2l "top"%string)) [(str_IDENT, VStr (s2l "top"%string)); (s2l "k"%string, VInt 3)] 0 None;
               OCreate RChildren 5 (Some (s2l "u1"%string)) [(s2l "INIT"%string, VStr (s2l "8'h00"%string))] 0 (Some 2);
               OCreate RCables 5 (Some (s2l "n1"%string)) [(s2l "w"%string, VBool true)] 1 None;
               OCreate RPorts 5 (Some (s2l "P"%string)) [(s2l "pp"%string, VNone)] 2 None;
               OSetDownto 9 false; OSetLower 9 3%Z; OSetDirection 9 DIn; OConnect 8 (POut 6 4) None ] in
  let s := run ops init in
  let r := clone_definition s 5 in
  let sF := fst (fst r) in
  next s = 12 /\ kind_of s 5 = Some KDefinition /\ snd (fst r) = None /\ snd r = 12 /\
  clone_memo s 5 = [(6, 18); (8, 17); (7, 16); (11, 15); (10, 14); (9, 13); (5, 12)] /\
  data s 5 = [(str_NS, VStr str_DEFAULT); (str_NAME, VStr (s2l "top"%string)); (str_IDENT, VStr (s2l "top"%string)); (s2l "k"%string, VInt 3)] /\
  data sF 12 = [(str_NAME, VStr (s2l "top"%string)); (str_IDENT, VStr (s2l "top"%string)); (s2l "k"%string, VInt 3); (str_NS, VStr str_DEFAULT)] /\
  data sF 18 = [(str_NAME, VStr (s2l "u1"%string)); (s2l "INIT"%string, VStr (s2l "8'h00"%string)); (str_NS, VStr str_DEFAULT)] /\
  data sF 16 = [(str_NAME, VStr (s2l "n1"%string)); (s2l "w"%string, VBool true); (str_NS, VStr str_DEFAULT)] /\
  data sF 13 = [(str_NAME, VStr (s2l "P"%string)); (s2l "pp"%string, VNone); (str_NS, VStr str_DEFAULT)] /\
  bflags sF 13 = (false, true, 3%Z, DIn) /\ bflags s 9 = (false, true, 3%Z, DIn).
Proof. vm_compute. repeat split. Qed.

(* the same for Netlist.clone, the deep copy of a whole design, under the hypotheses of
   C07_netlist_clone_structure and for the memo of that theorem, now named (netlist_memo = the memo
   Netlist._clone ends with): for every pair (a, b) with a first-class, the dictionary of b is cdict of
   the dictionary of a ('.NS' deleted and appended again with the netlist's policy) when a lies below the
   netlist - the netlist itself, its libraries, their definitions, the ports, cables and child instances
   of those: what apply_namespace walks - and is the dictionary of a unchanged otherwise (the one case: a
   top instance that is not a child of any definition; its copy is not visited by the re-applied
   policy); ports and cables keep their bundle attributes. *)
Theorem C07_netlist_clone_data : forall ops n,
  let s := run ops init in
  kind_of s n = Some KNetlist -> Closed s n -> snd (fst (clone_netlist s n)) = None ->
  NetStruct s n (fst (fst (clone_netlist s n))) (snd (clone_netlist s n)) (netlist_memo s n) /\
  NetData s n (fst (fst (clone_netlist s n))) (netlist_memo s n).
Proof. exact clone_netlist_reachable_data. Qed.
Print Assumptions C07_netlist_clone_data.

(* without the closedness hypothesis (and from any state with fresh identifiers and consistent
   containers), in terms of the copy: a pair whose copy lies below the copied netlist has cdict of the
   source dictionary, any other pair the source dictionary itself *)
Theorem C07_netlist_clone_data_from : forall s0 n,
  Fresh.Fresh s0 -> Inv1a s0 -> n < next s0 -> snd (fst (clone_netlist s0 n)) = None ->
  forall a b, In (a, b) (netlist_memo s0 n) -> a < next s0 ->
    PairData s0 n (fst (fst (clone_netlist s0 n))) (snd (clone_netlist s0 n)) a b.
Proof. exact clone_netlist_data. Qed.
Print Assumptions C07_netlist_clone_data_from.

(* Library.clone: for every pair (a, b) of the memo Library._clone builds and every kind k of b: if k is
   first-class, the dictionary of b is cdict (w.r.t. the library's policy) of the dictionary of a when b
   lies below the copied library, and the dictionary of a otherwise; ports and cables keep their attributes *)
Theorem C07_library_clone_data : forall ops l,
  let s := run ops init in
  l < next s -> snd (fst (clone_library s l)) = None ->
  forall a b, In (a, b) (library_memo s l) -> a < next s ->
    PairData s l (fst (fst (clone_library s l))) (snd (clone_library s l)) a b.
Proof. exact clone_library_reachable_data. Qed.
Print Assumptions C07_library_clone_data.

(* the small roots: clone() of a port, a cable or an instance carries the dictionary (with its '.NS'
   entry, in place: nothing is re-applied) and, for bundles, the attributes *)
Theorem C07_small_clone_data : forall s0 e, e < next s0 ->
  (snd (clone_port s0 e) = next s0 /\ data (fst (fst (clone_port s0 e))) (next s0) = data s0 e /\
   bflags (fst (fst (clone_port s0 e))) (next s0) = bflags s0 e) /\
  (snd (clone_cable s0 e) = next s0 /\ data (fst (fst (clone_cable s0 e))) (next s0) = data s0 e /\
   bflags (fst (fst (clone_cable s0 e))) (next s0) = bflags s0 e) /\
  (snd (clone_instance s0 e) = next s0 /\ data (fst (fst (clone_instance s0 e))) (next s0) = data s0 e).
Proof.
  intros s0 e He. split; [|split].
  - destruct (clone_port_data s0 e He) as [A [B C]]. rewrite A in B, C. split; [exact A|split; assumption].
  - destruct (clone_cable_data s0 e He) as [A [B C]]. rewrite A in B, C. split; [exact A|split; assumption].
  - destruct (clone_instance_data s0 e He) as [A B]. rewrite A in B. split; assumption.
Qed.
Print Assumptions C07_small_clone_data.

(* non-vacuity of the netlist statement: a named netlist with a property, a library, a leaf cell, a cell
   with a named child carrying a property, and a stand-alone top instance (9) carrying a key; the clone
   completes; netlist 0 -> 10 and library 1 -> 11 get '.NS' moved to the end, the top instance 9 -> 19 is
   not below the netlist and keeps its dictionary as it is *)
Example C07_netlist_clone_data_sample :
  let ops := [ ONew KNetlist (Some (s2l "design"%string)) [(s2l "rev"%string, VInt 2)];
               OCreate RLibs 0 (Some (s2l "work"%string)) [] 0 None;
               OCreate RDefs 1 (Some (s2l "leaf"%string)) [] 0 None; OCreate RPorts 2 (Some (s2l "A"%string)) [] 1 None;
               OCreate RDefs 1 (Some (s2l "top"%string)) [(str_IDENT, VStr (s2l "top"%string))] 0 None;
               OCreate RChildren 5 (Some (s2l "u1"%string)) [(s2l "INIT"%string, VStr (s2l "8'h00"%string))] 0 (Some 2);
               OCreate RCables 5 (Some (s2l "n1"%string)) [] 1 None; OConnect 8 (POut 6 4) None;
               OSetTop 0 (TopDef 5); ODSet 9 (s2l "k"%string) (VBool true) ] in
  let s := run ops init in
  let sF := fst (fst (clone_netlist s 0)) in
  next s = 10 /\ kind_of s 0 = Some KNetlist /\ closedb s 0 = true /\ snd (fst (clone_netlist s 0)) = None /\
  netlist_memo s 0 = [(9, 19); (6, 18); (8, 17); (7, 16); (5, 15); (4, 14); (3, 13); (2, 12); (1, 11); (0, 10)] /\
  subtree s 0 = [0; 1; 2; 3; 5; 7; 6] /\
  data s 0 = [(str_NS, VStr str_DEFAULT); (str_NAME, VStr (s2l "design"%string)); (s2l "rev"%string, VInt 2)] /\
  data sF 10 = [(str_NAME, VStr (s2l "design"%string)); (s2l "rev"%string, VInt 2); (str_NS, VStr str_DEFAULT)] /\
  data sF 11 = [(str_NAME, VStr (s2l "work"%string)); (str_NS, VStr str_DEFAULT)] /\
  data sF 18 = [(str_NAME, VStr (s2l "u1"%string)); (s2l "INIT"%string, VStr (s2l "8'h00"%string)); (str_NS, VStr str_DEFAULT)] /\
  data s 9 = [(str_NS, VStr str_DEFAULT); (s2l "k"%string, VBool true)] /\ data sF 19 = data s 9.
Proof. vm_compute. repeat split. Qed.

(* faithfulness of Definition._clone, the statement the invariant rests on: the memo maps the copied
   objects of the source injectively to fresh objects; each copied pin points at the image of the wire
   its source points at, each copied wire lists the images of the pins its source lists, each copied
   instance carries its source's outer-pin table and reference with wires replaced by their images;
   fresh objects that are not such images carry nothing; pin-wire fields of old objects are unchanged *)
Theorem C07_definition_clone_faithful : forall s0 d G m d',
  Inv1a s0 -> InvT s0 -> Fresh.Fresh s0 -> FieldT.FT s0 -> d < next s0 -> kind_of s0 d = Some KDefinition ->
  def_clone1 (s0, nil) d = ((G, m, d'), None) -> Faithful s0 G m.
Proof. exact def_clone1_faithful. Qed.
Print Assumptions C07_definition_clone_faithful.

(* non-vacuity of the hypotheses: a cell with a wired child instance is cloned; the copy's child (11)
   references the same leaf cell and is registered with it next to the original child (6) *)
Example C07_definition_clone_sample :
  let ops := [ ONew KNetlist None []; OCreate RLibs 0 None [] 0 None; OCreate RDefs 1 None [] 0 None;
               OCreate RPorts 2 None [] 1 None; OCreate RDefs 1 None [] 0 None; OCreate RChildren 5 None [] 0 (Some 2);
               OCreate RCables 5 None [] 1 None; OConnect 8 (POut 6 4) None ] in
  let s := run ops init in
  let r := clone_definition s 5 in
  next s = 9 /\ kind_of s 5 = Some KDefinition /\ snd (fst r) = None /\ snd r = 9 /\ kids (fst (fst r)) RChildren 9 = [12] /\
  iref (fst (fst r)) 12 = Some 2 /\ drefs (fst (fst r)) 2 = [6; 12] /\ drefs (fst (fst r)) 9 = [] /\
  wpins (fst (fst r)) 11 = [POut 12 4].
Proof. vm_compute. repeat split. Qed.

(* non-vacuity: a netlist with a leaf cell, a top cell instantiating it through a wired outer pin and a
   top instance; its clone is a second netlist whose links all stay inside the copy *)
Example C07_sample :
  let ops := [ ONew KNetlist None []; OCreate RLibs 0 None [] 0 None; OCreate RDefs 1 None [] 0 None;
               OCreate RPorts 2 None [] 1 None; OCreate RDefs 1 None [] 0 None; OCreate RChildren 5 None [] 0 (Some 2);
               OCreate RCables 5 None [] 1 None; OConnect 8 (POut 6 4) None; OSetTop 0 (TopDef 5) ] in
  let s := run ops init in
  let s' := fst (fst (clone_any s 0)) in
  next s = 10 /\ snd (fst (clone_any s 0)) = None /\ snd (clone_any s 0) = 10 /\
  kids s' RLibs 10 = [11] /\ top s' 10 = Some 19 /\ iref s' 18 = Some 12 /\ iref s' 19 = Some 15 /\
  wpins s' 17 = [POut 18 14] /\ wpins s' 8 = [POut 6 4] /\ drefs s' 2 = [6].
Proof. vm_compute. repeat split. Qed.

(* non-vacuity of the netlist theorem: the design of C07_sample is a netlist, is closed, and its clone completes *)
Example C07_netlist_clone_sample :
  let ops := [ ONew KNetlist None []; OCreate RLibs 0 None [] 0 None; OCreate RDefs 1 None [] 0 None;
               OCreate RPorts 2 None [] 1 None; OCreate RDefs 1 None [] 0 None; OCreate RChildren 5 None [] 0 (Some 2);
               OCreate RCables 5 None [] 1 None; OConnect 8 (POut 6 4) None; OSetTop 0 (TopDef 5) ] in
  let s := run ops init in
  kind_of s 0 = Some KNetlist /\ Closed s 0 /\ snd (fst (clone_netlist s 0)) = None /\ net_insts s 0 = [6; 9].
Proof. split; [reflexivity|]. split; [apply closedb_ok; vm_compute; reflexivity|]. split; vm_compute; reflexivity. Qed.

(* clone() of any element keeps the structural invariant in every state reached by ANY mixed history of
   editing calls, completed clones of the eight kinds, completed uniquify and flatten runs - not only in
   states reachable by editing calls (C07_clone_any_keeps_invariant). Proofs/XHistAll.v. *)
From Coq Require Import NArith.
From SV Require Import Xform.Xform Proofs.XHistAll.
Theorem C07_clone_any_after_any_history : forall l u f x e,
  xrun_all l (mkX init u f) = Some x -> (kind_of (st x) e = Some KNetlist -> Closed (st x) e) ->
  snd (fst (clone_any (st x) e)) = None -> Inv (fst (fst (clone_any (st x) e))).
Proof. exact clone_any_after_history. Qed.
Print Assumptions C07_clone_any_after_any_history.

(* after a completed clone of any element, any further mixed history keeps the whole store - the original
   and the copy - well-formed: containers and parents agree and are typed, pin-wire links agree, reference
   sets and outer-pin tables mirror the definitions *)
Theorem C07_then_any_history : forall l0 e l u f x0 x',
  xrun_all l0 (mkX init u f) = Some x0 ->
  clone_pre (st x0) e = true -> snd (fst (clone_any (st x0) e)) = None ->
  xrun_all l (mkX (fst (fst (clone_any (st x0) e))) (uniq_ctr x0) (flat_ctr x0)) = Some x' ->
  Inv (st x') /\ InvT (st x').
Proof. exact clone_then_any_history. Qed.
Print Assumptions C07_then_any_history.

(* non-vacuity: a design with a leaf cell, a middle cell and a top cell; Netlist.clone completes (the design is closed);
   then Library.clone, Port.clone, two edits of the copied netlist, uniquify and flatten of the copy and a clone of the
   flattened copy all complete *)
Example C07_then_any_history_sample :
  let ops := [ ONew KNetlist None []; OCreate RLibs 0 None [] 0 None; OCreate RDefs 1 (Some [76%N]) [] 0 None;
               OCreate RPorts 2 (Some [112%N]) [] 1 None; OCreate RDefs 1 (Some [77%N]) [] 0 None;
               OCreate RChildren 5 (Some [105%N]) [] 0 (Some 2); OCreate RCables 5 (Some [99%N]) [] 1 None;
               OConnect 8 (POut 6 4) None; OCreate RDefs 1 (Some [84%N]) [] 0 None;
               OCreate RChildren 9 (Some [97%N]) [] 0 (Some 5); OCreate RChildren 9 (Some [98%N]) [] 0 (Some 5);
               OSetTop 0 (TopDef 9) ] in
  let l := [ YClone 1; YClone 3; YEdit (ODisconnect 20 (POut 21 17)); YEdit (OCreate RCables 18 (Some [100%N]) [] 1 None);
             YUniquify 20 13; YFlatten 50 13; YClone 13 ] in
  match xrun_all (map YEdit ops) (mkX init 0 0) with
  | Some x0 =>
      clone_pre (st x0) 0 = true /\ snd (fst (clone_any (st x0) 0)) = None /\ snd (clone_any (st x0) 0) = 13 /\
      match xrun_all l (mkX (fst (fst (clone_any (st x0) 0))) (uniq_ctr x0) (flat_ctr x0)) with
      | Some x => next (st x) = 66 /\ kids (st x) RDefs 14 = [15; 18; 41; 22] /\ kids (st x) RChildren 22 = [46; 21] /\
                  top (st x) 13 = Some 25 /\ kids (st x) RDefs 1 = [2; 5; 9] /\ kids (st x) RPins 37 = [38]
      | None => False
      end
  | None => False
  end.
Proof. vm_compute. repeat split. Qed.


(* ---- INDEPENDENCE: "later edits ... of either netlist never show in the other" ----
   Regions (Proofs/Locality.v): a region is a set P of identifiers; [RClosed P s] - every link stored in
   an object of P (containers and parents, pin -> wire, wire -> pins, an outer pin counting through its
   instance, outer-pin table -> wires, reference set -> instances, netlist -> top instance) leads into P
   and identifiers not yet allocated belong to P (objects created by calls on P join P). The pointer
   instance -> definition is the documented outward link and is not required to stay inside.
   LOCALITY: for every public editing call whose argument objects lie in a closed region P - accepted or
   refused - every field of every object outside P (kind, the seven containers in order, parents, wire
   pins, pin wire, reference, outer-pin table, top, is-top, bundle attributes, direction, data
   dictionary, namespace table; [out_eq]; reference sets are the documented exception) is unchanged, and
   P is still closed afterwards. *)
Theorem C07_locality : forall P s o,
  RClosed P s -> op_in P o -> out_eq P s (fst (step s o)) /\ RClosed P (fst (step s o)).
Proof. exact step_local. Qed.
Print Assumptions C07_locality.

(* ... and over every history of such calls, by induction with the closedness carried along *)
Theorem C07_independent_of_closed_region : forall P s ops,
  RClosed P s -> Forall (op_in P) ops -> out_eq P s (run ops s) /\ RClosed P (run ops s).
Proof. exact history_independent. Qed.
Print Assumptions C07_independent_of_closed_region.

(* after a clone of any kind of root the new objects are closed under containment and contain every
   identifier allocated later - the containment part of "the copy's region is closed" *)
Theorem C07_copy_region_containment : forall s s', CloneOK s s' ->
  (forall x, next s' <= x -> copy_region (next s) x) /\
  (forall r x c, copy_region (next s) x -> In c (kids s' r x) -> copy_region (next s) c).
Proof. exact copy_region_kids. Qed.
Print Assumptions C07_copy_region_containment.

(* CLOSURE: after a completed Netlist.clone, in every reachable state, the region of the copy - the objects
   created by the call and everything allocated later - is closed under ALL links (containment both ways,
   pin-wire joins both ways, outer-pin tables, reference sets, top instance), so it is separated from the
   objects that existed before. (CI of the frame proof for containment and top; every other link has a
   back pointer by Inv of the state after the clone, old objects are unchanged, and nothing in the state
   before the clone points at an unallocated identifier.) *)
Theorem C07_netlist_clone_copy_region_closed : forall ops n,
  let s := run ops init in
  kind_of s n = Some KNetlist -> Closed s n -> snd (fst (clone_netlist s n)) = None ->
  RClosed (copy_region (next s)) (fst (fst (clone_netlist s n))).
Proof. exact netlist_clone_copy_region_closed. Qed.
Print Assumptions C07_netlist_clone_copy_region_closed.

(* the same from the invariants, for the clone of any state and any memo of the frame proof *)
Theorem C07_copy_region_closed_from : forall s sF m,
  UF s -> Inv sF -> CI (next s) s sF m -> RClosed (copy_region (next s)) sF.
Proof. exact copy_region_closed. Qed.
Print Assumptions C07_copy_region_closed_from.

(* INDEPENDENCE, copy side: after a completed Netlist.clone in any reachable state, for EVERY history h of
   editing calls - accepted or refused - whose argument objects belong to the copy (or were created by
   earlier calls of h), every field of every object that existed before the clone is exactly as the clone
   left it: edits of the copy never show in the original. *)
Theorem C07_edits_of_copy_never_show_in_original : forall ops n h,
  let s := run ops init in
  let sF := fst (fst (clone_netlist s n)) in
  kind_of s n = Some KNetlist -> Closed s n -> snd (fst (clone_netlist s n)) = None ->
  Forall (op_in (copy_region (next s))) h ->
  out_eq (copy_region (next s)) sF (run h sF) /\ RClosed (copy_region (next s)) (run h sF).
Proof. exact netlist_clone_copy_edits_independent. Qed.
Print Assumptions C07_edits_of_copy_never_show_in_original.

(* non-vacuity: a two-level design (leaf cell with a port, top cell with a child of the leaf, a cable
   connected to the child's outer pin, a two-pin port, a top instance) is cloned (copy = objects 13..25);
   the copy is then edited by a history that creates a cable and connects its wire, disconnects the child's
   outer pin, renames the leaf, widens the leaf by a port (which gives every instance of the COPY's leaf a
   new outer pin), removes the child and sets a property on the netlist: all calls are accepted, the copy
   changes, and the original is as it was *)
Example C07_edits_of_copy_sample :
  let ops := [ ONew KNetlist None []; OCreate RLibs 0 (Some (s2l "work"%string)) [] 0 None;
               OCreate RDefs 1 (Some (s2l "leaf"%string)) [] 0 None; OCreate RPorts 2 (Some (s2l "A"%string)) [] 1 None;
               OCreate RDefs 1 (Some (s2l "top"%string)) [] 0 None;
               OCreate RChildren 5 (Some (s2l "u1"%string)) [] 0 (Some 2);
               OCreate RCables 5 (Some (s2l "n1"%string)) [] 1 None;
               OCreate RPorts 5 (Some (s2l "P"%string)) [] 2 None;
               OConnect 8 (POut 6 4) None; OSetTop 0 (TopDef 5) ] in
  let s := run ops init in
  let sF := fst (fst (clone_netlist s 0)) in
  let h := [ OCreate RCables 18 (Some (s2l "n2"%string)) [] 1 None; OConnect 27 (PIn 20) None;
             ODisconnect 23 (POut 24 17); OSetName 15 (Some (s2l "leaf_edited"%string));
             OCreate RPorts 15 (Some (s2l "B"%string)) [] 1 None; ORemove RChildren 18 24;
             ODSet 13 (s2l "k"%string) (VInt 7) ] in
  (kind_of s 0 = Some KNetlist /\ closedb s 0 = true /\ snd (fst (clone_netlist s 0)) = None /\ next s = 13 /\ next sF = 26) /\
  Forall (op_in (copy_region (next s))) h /\
  (kids sF RCables 18 = [22] /\ kids (run h sF) RCables 18 = [22; 26] /\ ipwire (run h sF) 20 = Some 27 /\
   wpins sF 23 = [POut 24 17] /\ wpins (run h sF) 23 = [] /\ kids (run h sF) RPorts 15 = [16; 28] /\
   kids sF RChildren 18 = [24] /\ kids (run h sF) RChildren 18 = [] /\ next (run h sF) = 30) /\
  (kids (run h sF) RCables 5 = [7] /\ wpins (run h sF) 8 = [POut 6 4] /\ ipins (run h sF) 6 = [(4, Some 8)] /\
   kids (run h sF) RPorts 2 = [3] /\ kids (run h sF) RChildren 5 = [6] /\ drefs (run h sF) 2 = [6] /\
   data (run h sF) 2 = data s 2 /\ data (run h sF) 0 = data s 0).
Proof.
  cbv zeta. split; [vm_compute; repeat split|]. split; [|vm_compute; repeat split].
  replace (next (run _ init)) with 13 by (vm_compute; reflexivity).
  repeat (constructor; [cbn; unfold copy_region; repeat split; intros; try discriminate; try (apply PeanoNat.Nat.leb_le; reflexivity)|]).
  constructor.
Qed.

(* INDEPENDENCE, original side: the region of the original after the clone - the objects that existed
   before the call and everything allocated after it - is closed as well (no reference set of an old
   definition lists an object of the copy: C07_netlist_clone_keeps_old_reference_sets below, from the final
   filter of Netlist._clone_rip), and then for EVERY history of editing calls on objects of the
   original (or created by those calls) every field of every object of the copy is unchanged. *)
(* Netlist.clone of a closed netlist does not even touch the reference sets of the objects that existed
   before the call: the exception of C07_frame_and_closure does not arise for netlist roots *)
Theorem C07_netlist_clone_keeps_old_reference_sets : forall ops n,
  let s := run ops init in
  kind_of s n = Some KNetlist -> Closed s n -> snd (fst (clone_netlist s n)) = None ->
  forall y, y < next s -> drefs (fst (fst (clone_netlist s n))) y = drefs s y.
Proof. exact clone_netlist_reachable_old_drefs. Qed.
Print Assumptions C07_netlist_clone_keeps_old_reference_sets.

Theorem C07_netlist_clone_orig_region_closed : forall ops n,
  let s := run ops init in
  let sF := fst (fst (clone_netlist s n)) in
  kind_of s n = Some KNetlist -> Closed s n -> snd (fst (clone_netlist s n)) = None ->
  RClosed (orig_region (next s) (next sF)) sF.
Proof. exact netlist_clone_orig_region_closed. Qed.
Print Assumptions C07_netlist_clone_orig_region_closed.

Theorem C07_edits_of_original_never_show_in_copy : forall ops n h,
  let s := run ops init in
  let sF := fst (fst (clone_netlist s n)) in
  kind_of s n = Some KNetlist -> Closed s n -> snd (fst (clone_netlist s n)) = None ->
  Forall (op_in (orig_region (next s) (next sF))) h ->
  out_eq (orig_region (next s) (next sF)) sF (run h sF) /\ RClosed (orig_region (next s) (next sF)) (run h sF).
Proof. exact netlist_clone_orig_edits_independent. Qed.
Print Assumptions C07_edits_of_original_never_show_in_copy.

(* non-vacuity, original side: the same design and clone; the ORIGINAL is edited (leaf widened by a port -
   its instance 6 gets an outer pin, the copy's instance 24 does not -, the cable's wire disconnected, the
   top cell renamed, a new child of the leaf created): the original changes, the copy is as the clone left it *)
Example C07_edits_of_original_sample :
  let ops := [ ONew KNetlist None []; OCreate RLibs 0 (Some (s2l "work"%string)) [] 0 None;
               OCreate RDefs 1 (Some (s2l "leaf"%string)) [] 0 None; OCreate RPorts 2 (Some (s2l "A"%string)) [] 1 None;
               OCreate RDefs 1 (Some (s2l "top"%string)) [] 0 None;
               OCreate RChildren 5 (Some (s2l "u1"%string)) [] 0 (Some 2);
               OCreate RCables 5 (Some (s2l "n1"%string)) [] 1 None;
               OCreate RPorts 5 (Some (s2l "P"%string)) [] 2 None;
               OConnect 8 (POut 6 4) None; OSetTop 0 (TopDef 5) ] in
  let s := run ops init in
  let sF := fst (fst (clone_netlist s 0)) in
  let h := [ OCreate RPorts 2 (Some (s2l "B"%string)) [] 1 None; ODisconnect 8 (POut 6 4);
             OSetName 5 (Some (s2l "top_edited"%string)); OCreate RChildren 5 (Some (s2l "u2"%string)) [] 0 (Some 2) ] in
  (norefb (next s) (next sF) sF = true /\ next s = 13 /\ next sF = 26) /\
  Forall (op_in (orig_region (next s) (next sF))) h /\
  (map fst (ipins sF 6) = [4] /\ map fst (ipins (run h sF) 6) = [4; 27] /\ wpins (run h sF) 8 = [] /\
   kids (run h sF) RChildren 5 = [6; 28] /\ drefs (run h sF) 2 = [6; 28]) /\
  (map fst (ipins (run h sF) 24) = [17] /\ wpins (run h sF) 23 = [POut 24 17] /\ kids (run h sF) RPorts 15 = [16] /\
   kids (run h sF) RChildren 18 = [24] /\ drefs (run h sF) 15 = [24] /\ data (run h sF) 18 = data sF 18).
Proof.
  cbv zeta. split; [vm_compute; repeat split|]. split; [|vm_compute; repeat split].
  replace (next (run _ init)) with 13 by (vm_compute; reflexivity).
  replace (next (fst (fst (clone_netlist _ 0)))) with 26 by (vm_compute; reflexivity).
  repeat (constructor; [cbn; unfold orig_region; repeat split; intros; try discriminate;
                        try match goal with H : Some _ = Some _ |- _ => injection H as <- end;
                        try (left; apply PeanoNat.Nat.ltb_lt; reflexivity); try (right; apply PeanoNat.Nat.leb_le; reflexivity)|]).
  constructor.
Qed.

(* LOCALITY including the reference sets: when the references of the region stay inside it as well
   (RefIn: true of both regions after Netlist.clone; false of the copy made by Definition.clone /
   Library.clone, whose children reference outside definitions - the documented exception), a call on the
   region changes no reference set outside it either, and RefIn is preserved. *)
Theorem C07_locality_with_reference_sets : forall P s o, op_in P o ->
  RClosed P s -> RefIn P s ->
  (out_eq P s (fst (step s o)) /\ RClosed P (fst (step s o))) /\ (dr_eq P s (fst (step s o)) /\ RefIn P (fst (step s o))).
Proof. exact step_loc2. Qed.
Print Assumptions C07_locality_with_reference_sets.

(* The independence clause at full strength for Netlist.clone: in every reachable state, after a completed
   clone of a closed netlist, for every history of editing calls (accepted or refused) on objects of the
   copy - resp. of the original - (objects created by the history join the side it works on), EVERY field
   of EVERY object of the other side, reference sets included, is exactly as the clone left it. *)
Definition C07_independent_full : Prop :=
  forall ops0 n h,
  let s := run ops0 init in
  let sF := fst (fst (clone_netlist s n)) in
  kind_of s n = Some KNetlist -> Closed s n -> snd (fst (clone_netlist s n)) = None ->
  (* edits of the copy never show in the original *)
  (Forall (op_in (copy_region (next s))) h ->
     out_eq (copy_region (next s)) sF (run h sF) /\ forall x, x < next s -> drefs (run h sF) x = drefs sF x) /\
  (* edits of the original never show in the copy *)
  (Forall (op_in (fun x => x < next s \/ next sF <= x)) h ->
     out_eq (fun x => x < next s \/ next sF <= x) sF (run h sF) /\
     forall x, next s <= x -> x < next sF -> drefs (run h sF) x = drefs sF x).

(* SEPARATION: after a completed Netlist.clone the region of the copy and the region of the original are
   both closed under every link and share no allocated object; in particular the footprint of the copy -
   everything reachable from the new netlist through containers, parents, pin-wire joins, outer-pin
   tables, reference sets and the top instance - consists of objects created by the call *)
Theorem C07_netlist_clone_regions_separated : forall ops n,
  let s := run ops init in
  let sF := fst (fst (clone_netlist s n)) in
  kind_of s n = Some KNetlist -> Closed s n -> snd (fst (clone_netlist s n)) = None ->
  Separated (copy_region (next s)) (orig_region (next s) (next sF)) sF.
Proof. exact netlist_clone_separated. Qed.
Print Assumptions C07_netlist_clone_regions_separated.

Theorem C07_netlist_clone_footprint_is_new : forall ops n y,
  let s := run ops init in
  let sF := fst (fst (clone_netlist s n)) in
  kind_of s n = Some KNetlist -> Closed s n -> snd (fst (clone_netlist s n)) = None ->
  footprint sF (snd (clone_netlist s n)) y -> next s <= y.
Proof. exact netlist_clone_footprint_disjoint. Qed.
Print Assumptions C07_netlist_clone_footprint_is_new.

Theorem C07_independent : C07_independent_full.
Proof. exact netlist_clone_independent. Qed.
Print Assumptions C07_independent.

(* What stays outside: (1) for Definition.clone / Library.clone / Instance.clone the copy's region is closed
   except for the outward references; C07_locality and C07_independent_of_closed_region apply to any region
   shown closed (C07_copy_region_closed_from reduces that to the running invariant CI of the frame proof,
   which is exported for netlist roots only - clone_netlist_ci), so "edits of the copy never show in the
   original except reference-set growth" is proved for those roots only relative to RClosed of their copy;
   (2) the transformations uniquify / flatten as "later edits" (the harness applies them; the model's
   histories here are the 23 editing calls); (3) OSetPolicy changes the process-wide default naming policy,
   which is not a field of any object and is therefore not part of out_eq. *)
