(* C07 - Clones are faithful, self-contained and independent of the original. Property theorems only. *)
From Coq Require Import List.
From SV Require Import Base.Base IR.State IR.NS IR.Ops Xform.Clone Proofs.CloneSmall.

(* cloning a wire: one fresh element, no pins listed, nothing else changes *)
Theorem C07_clone_wire : forall s w,
  let r := fst (clone_wire s w) in let w' := snd (clone_wire s w) in
  snd r = None /\ w' = next s /\ wpins (fst r) w' = nil /\ frame_but s (fst r) w'.
Proof. exact clone_wire_spec. Qed.
Print Assumptions C07_clone_wire.

(* cloning an inner pin: one fresh element, not connected, nothing else changes *)
Theorem C07_clone_pin : forall s i,
  let r := fst (clone_pin s i) in let i' := snd (clone_pin s i) in
  snd r = None /\ i' = next s /\ ipwire (fst r) i' = None /\ frame_but s (fst r) i'.
Proof. exact clone_pin_spec. Qed.
Print Assumptions C07_clone_pin.

(* Full statement for a netlist root (closed: every link of the copy resolves to ids allocated by
   the clone; frame: no field of an older object changes). Checked on every run by the
   correspondence of the whole three-phase clone model with the implementation and by the Clone
   oracle (identity sets, canonical structure, well-formedness, independence under later
   edits/uniquify/flatten); the Coq proof is not finished. *)
Definition C07_full : Prop := forall s n,
  let r := fst (clone_netlist s n) in
  snd r = None ->
  (forall x, x < next s ->
     (forall rl, kids (fst r) rl x = kids s rl x /\ par (fst r) rl x = par s rl x) /\
     wpins (fst r) x = wpins s x /\ ipwire (fst r) x = ipwire s x /\ iref (fst r) x = iref s x /\
     ipins (fst r) x = ipins s x /\ data (fst r) x = data s x) /\
  (forall x rl c, next s <= x -> In c (kids (fst r) rl x) -> next s <= c).
