(* C07 - Clones are faithful, self-contained and independent of the original. Property theorems only. *)
From Coq Require Import List.
From SV Require Import Base.Base IR.State IR.NS IR.Ops Xform.Clone Proofs.CloneSmall Proofs.C01_full Proofs.CloneFrame Proofs.CloneStart.
Import ListNotations.

(* cloning a wire: one fresh element, no pins listed, nothing else changes *)
Theorem C07_clone_wire : forall s w,
  let r := fst (clone_wire s w) in let w' := snd (clone_wire s w) in
  snd r = None /\ w' = next s /\ wpins (fst r) w' = nil /\ frame_but s (fst r) w'.
Proof. exact clone_wire_spec. Qed.
Print Assumptions C07_clone_wire.

(* cloning an inner pin: one fresh element, not connected, nothing else changes *)
Theorem C07_clone_pin : forall s i,
  let r := fst (clone_pin s i) in let i' := snd (clone_pin s i) in
  snd r = None /\ i' = next s /\ ipwire (fst r) i' = None /\ frame_but s (fst r) i'.
Proof. exact clone_pin_spec. Qed.
Print Assumptions C07_clone_pin.

(* The frame and closure clauses for every kind of root (netlist, library, definition, port, cable,
   wire, pin, instance), in every state reachable by editing calls: cloning changes no field of any
   object that existed before the call - kind, all seven containers and their order, parents, wire
   pins, pin wires, references, outer-pin tables, top instance, bundle attributes, data, namespace
   tables (osame; reference sets are the documented exception: copies of instances register with
   the definitions they reference) - and every containment link of an object created by the call
   leads to an object created by the call (kclosed). *)
Theorem C07_frame_and_closure : forall ops e,
  let s := run ops init in
  let s' := fst (fst (clone_any s e)) in
  osame (next s) s s' /\ kclosed (next s) s'.
Proof. exact clone_reachable. Qed.
Print Assumptions C07_frame_and_closure.

(* the same from the three start conditions, for any state *)
Theorem C07_frame_and_closure_from : forall s e,
  StartOK s -> CloneOK s (fst (fst (clone_any s e))).
Proof. exact clone_any_ok. Qed.
Print Assumptions C07_frame_and_closure_from.

(* the statement in the shape it was first written down (netlist roots) *)
Theorem C07_full : forall s n, StartOK s ->
  let r := fst (clone_netlist s n) in
  (forall x, x < next s ->
     (forall rl, kids (fst r) rl x = kids s rl x /\ par (fst r) rl x = par s rl x) /\
     wpins (fst r) x = wpins s x /\ ipwire (fst r) x = ipwire s x /\ iref (fst r) x = iref s x /\
     ipins (fst r) x = ipins s x /\ data (fst r) x = data s x) /\
  (forall x rl c, next s <= x -> In c (kids (fst r) rl x) -> next s <= c).
Proof.
  intros s n HS. destruct (clone_netlist_ok s n HS) as [O K]. cbn zeta. split.
  - intros x Hx. split; [intro rl; split; [apply (os_kids _ _ _ O rl x Hx)|apply (os_par _ _ _ O rl x Hx)]|].
    split; [apply (os_wpins _ _ _ O x Hx)|]. split; [apply (os_ipwire _ _ _ O x Hx)|]. split; [apply (os_iref _ _ _ O x Hx)|].
    split; [apply (os_ipins _ _ _ O x Hx)|apply (os_data _ _ _ O x Hx)].
  - intros x rl c Hx Hc. apply (K x rl c Hx Hc).
Qed.
Print Assumptions C07_full.

(* non-vacuity: a netlist with a leaf cell, a top cell instantiating it through a wired outer pin and a
   top instance; its clone is a second netlist whose links all stay inside the copy *)
Example C07_sample :
  let ops := [ ONew KNetlist None []; OCreate RLibs 0 None [] 0 None; OCreate RDefs 1 None [] 0 None;
               OCreate RPorts 2 None [] 1 None; OCreate RDefs 1 None [] 0 None; OCreate RChildren 5 None [] 0 (Some 2);
               OCreate RCables 5 None [] 1 None; OConnect 8 (POut 6 4) None; OSetTop 0 (TopDef 5) ] in
  let s := run ops init in
  let s' := fst (fst (clone_any s 0)) in
  next s = 10 /\ snd (fst (clone_any s 0)) = None /\ snd (clone_any s 0) = 10 /\
  kids s' RLibs 10 = [11] /\ top s' 10 = Some 19 /\ iref s' 18 = Some 12 /\ iref s' 19 = Some 15 /\
  wpins s' 17 = [POut 18 14] /\ wpins s' 8 = [POut 6 4] /\ drefs s' 2 = [6].
Proof. vm_compute. repeat split. Qed.
