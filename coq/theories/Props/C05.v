(* C05 - the EDIF reader builds exactly the design the file describes.
   Property theorems only; each is closed by [exact] of a lemma proved under Proofs/Edif*.v.

   What is proved (reader half of the mechanisms, each unbounded): the tokenizer and a generic
   reader invert the printer and never yield an empty token; the exact condition under which a net
   (rename id "name") is taken for bit i of a bus; folding multibit_add_cable over the bits of a bus
   in ANY order with ANY bits missing gives one cable with bit i at position i - lower and empty
   wires in the gaps; a run of bit nets is read as exactly that cable; (member p x) reads pin x.
   Whole file (Fmt/EdifFile.v: elab_file, the reader construct by construct, tied to sdn.parse on every
   run by harness/edif_file.py): [C05_full_reader_wf] every result is fully well formed ([wf_file]:
   references resolve, pins exist, no pin on two wires, sibling identifiers distinct, top declared,
   EVERY instance referenced, EVERY port with at least one pin), for ALL documents;
   [C05_full_reader_sound] on supported documents the result is what the document
   denotes ([denote_file], Fmt/EdifFileDenote.v); [C05_reader_sound_all] for all documents
   everything but the cable assembly is what the document denotes and the cables are read_nets of
   the denoted nets; [C05_nets_sound]/[C05_nets_complete] the cable assembly of one cell is sound
   and complete for the declarative meaning under [nets_ok].
   What is NOT proved: the completeness half of [C05_full] at file level (supported d -> denote d n
   -> the reader accepts d with the same structure): it needs the converse of every construct
   lemma of Proofs/EdifFileSound.v plus "declared before use" in [supported]; the first half of
   [C05_full] for UNSUPPORTED documents is false on the faithful model (open findings C05-K10,
   K13): [C05_full_refuted], from a computed witness, which is why [supported] excludes them.
   Repaired K7 / K11: net names containing * or ? are ordinary names (exact lookups; the model no
   longer declines them); a bit given by several nets holds the pins of all of them and nothing
   moves ([C05_multibit_assemble_all] without NoDup, [nets_ok] no longer asks for different
   indices, the old refutation witness is the positive [C05_duplicate_bit_document_read]).
   Repaired K4: bit identifiers starting with "&_" are bits like any others ([C05_bit_ident_exact] is
   unconditional, [C05_bitname_inverse] / [C05_bus_read] lose the identifier side condition,
   [C05_amp_bits_merged] is the former witness). Repaired K9: names starting with a backslash are
   split like any others ([C05_bit_name_exact] unconditional, [name_ok] is gone from every theorem,
   [C05_nets_complete] needs no hypothesis on the names: [C05_net_bit_total]). Still open on the
   bit-net side: K10, K13 ([nets_ok]).
   Repaired reader defects (K14, K15, K16), now positive statements: an instance without viewRef and an
   array port of size < 1 are refused ([C05_instances_referenced_ports_nonempty], examples
   [C05_bare_instance_rejected], [C05_array_size_zero_rejected]); everything after the design construct
   is read - [denote_file] ranges over ALL library items of the body, wherever the design stands
   ([C05_library_after_design_read]); the keywords and parentheses of (cellRef x (libraryRef y)) are
   checked, a second design is refused. *)
From Coq Require Import String.
From Coq Require Import List NArith Bool Permutation.
From SV Require Import Base.Base Fmt.EdifLex Fmt.EdifName Fmt.EdifCable Fmt.EdifBus Fmt.EdifNets
  Fmt.EdifNetsSpec Fmt.EdifFile Fmt.EdifFileSpec Fmt.EdifFileDenote
  Proofs.EdifLexProofs Proofs.EdifNameProofs Proofs.EdifCableProofs Proofs.EdifBusProofs
  Proofs.EdifFileWf Proofs.EdifNetsDenote Proofs.EdifFileSound Proofs.EdifFileText Proofs.EdifFileWitness.
Import ListNotations.

(* tokenizer + reader: text printed from a document (any trailing delimiter) tokenizes to the
   document's token sequence, which reads back as the document *)
Theorem C05_tokenize_print : forall x rest, sexp_ok x = true -> delim rest ->
  tokenize (print x ++ rest) = flatten x ++ tokenize rest.
Proof. exact tokenize_print_app. Qed.
Print Assumptions C05_tokenize_print.

Theorem C05_read_flatten : forall x, atoms_ok x = true -> read (flatten x) = Some x.
Proof. exact read_flatten_atoms. Qed.
Print Assumptions C05_read_flatten.

Theorem C05_lex_print : forall x, sexp_ok x = true -> read (tokenize (print x)) = Some x.
Proof. exact lex_print. Qed.
Print Assumptions C05_lex_print.

Theorem C05_tokens_nonempty : forall s t, In t (tokenize s) -> t <> [].
Proof. exact tokens_nonempty. Qed.
Print Assumptions C05_tokens_nonempty.

Example C05_tokenize_drops_newlines_in_quotes : ltac:(let t := type of tokenize_drops_newlines_in_quotes in exact t).
Proof. exact tokenize_drops_newlines_in_quotes. Qed.
Example C05_tokenize_quote_joins_buffer : ltac:(let t := type of tokenize_quote_joins_buffer in exact t).
Proof. exact tokenize_quote_joins_buffer. Qed.

(* which nets are bits: complete characterisation of separate_name_and_index on the two forms *)
Theorem C05_bit_name_exact : forall (name : str) (i : N),
  sep_bracket (bit_name name i) = Some (Some i, name).
Proof. exact bitname_bracket_full. Qed.
Print Assumptions C05_bit_name_exact.

Theorem C05_bit_ident_exact : forall (ident : str) (i : N),
  sep_underscore (bit_ident ident i) = (Some i, ident).
Proof. exact bitname_underscore_full. Qed.
Print Assumptions C05_bit_ident_exact.

Theorem C05_bitname_inverse : forall (ident name : str) (i : N),
  net_bit (bit_ident ident i) (bit_name name i) = Some (Some i, name, ident).
Proof. exact bitname_inverse. Qed.
Print Assumptions C05_bitname_inverse.

(* a name that does not end in ']' or '[' is never taken for a bit *)
Theorem C05_scalar_name_not_bit : forall name : str,
  name <> [] -> last name 0%N <> c_rbr -> last name 0%N <> c_lbr ->
  sep_bracket name = Some (None, name).
Proof. exact scalar_name_not_bit_last. Qed.
Print Assumptions C05_scalar_name_not_bit.

(* a net name ending in '[' is not a bus bit (repaired: the reader used to raise IndexError) *)
Theorem C05_name_ending_in_bracket_is_scalar : forall p : str,
  sep_bracket (p ++ [c_lbr]) = Some (None, p ++ [c_lbr]).
Proof. exact scalar_name_lbr_not_bit. Qed.
Print Assumptions C05_name_ending_in_bracket_is_scalar.
Example C05_name_ending_in_bracket_example : sep_bracket (s2l "a[") = Some (None, s2l "a[").
Proof. vm_compute. reflexivity. Qed.

(* multibit merge: any order, any bits missing *)
Theorem C05_multibit_assemble : forall P (bits : list (N * list P)) c,
  NoDup (idxs bits) -> assemble bits = Some c ->
     c_lower c = min_idx (idxs bits)
  /\ N.of_nat (length (c_wires c)) = (max_idx (idxs bits) - min_idx (idxs bits) + 1)%N
  /\ c_array c = true
  /\ forall i, wire_of c i = lookup i bits.
Proof. exact multibit_assemble. Qed.
Print Assumptions C05_multibit_assemble.

(* any bits at all - a bit may be given by several nets (repaired K11): bit i holds the pins of ALL
   nets of bit i in file order, lower index and width are least bit and span *)
Theorem C05_multibit_assemble_all : forall P (bits : list (N * list P)) c,
  assemble bits = Some c ->
     c_lower c = min_idx (idxs bits)
  /\ N.of_nat (length (c_wires c)) = (max_idx (idxs bits) - min_idx (idxs bits) + 1)%N
  /\ c_array c = true
  /\ forall i, wire_of c i = gather i bits.
Proof. exact multibit_assemble_all. Qed.
Print Assumptions C05_multibit_assemble_all.

Theorem C05_multibit_subset : forall P (full bits' rest : list (N * list P)) c,
  NoDup (idxs full) -> Permutation full (bits' ++ rest) -> assemble bits' = Some c ->
     c_lower c = min_idx (idxs bits')
  /\ N.of_nat (length (c_wires c)) = (max_idx (idxs bits') - min_idx (idxs bits') + 1)%N
  /\ (forall i w, In (i, w) bits' ->
        (c_lower c <= i)%N /\ (N.to_nat (i - c_lower c) < length (c_wires c))%nat /\
        nth (N.to_nat (i - c_lower c)) (c_wires c) [] = w /\ lookup i full = w)
  /\ (forall i, (min_idx (idxs bits') <= i <= max_idx (idxs bits'))%N ->
        ~ In i (idxs bits') -> nth (N.to_nat (i - c_lower c)) (c_wires c) [] = []).
Proof. exact multibit_subset. Qed.
Print Assumptions C05_multibit_subset.

(* the nets "id_i_"/"name[i]" of a bus, whichever bits are present and in whatever order, are read
   as ONE cable (name, id) = the cable [assemble] describes *)
Theorem C05_bus_read : forall P ident name (bits : list (N * list P)) nets c,
  NoDup (idxs bits) -> bits <> [] ->
  nets = map (fun '(i, w) => (bit_ident ident i, bit_name name i, w)) bits ->
  read_cable nets = Some (name, ident, c) ->
     c_lower c = min_idx (idxs bits)
  /\ N.of_nat (length (c_wires c)) = (max_idx (idxs bits) - min_idx (idxs bits) + 1)%N
  /\ c_array c = true
  /\ (forall i, wire_of c i = lookup i bits)
  /\ (forall n, (n < length (c_wires c))%nat ->
        nth n (c_wires c) [] = lookup (c_lower c + N.of_nat n) bits).
Proof. exact bus_subset_positions. Qed.
Print Assumptions C05_bus_read.

Theorem C05_bus_read_exists : forall P ident name (bits : list (N * list P)) nets,
  NoDup (idxs bits) -> bits <> [] ->
  nets = map (fun '(i, w) => (bit_ident ident i, bit_name name i, w)) bits ->
  exists c, read_cable nets = Some (name, ident, c).
Proof. exact bus_subset_read. Qed.
Print Assumptions C05_bus_read_exists.

Example C05_multibit_example : ltac:(let t := type of multibit_example in exact t).
Proof. exact multibit_example. Qed.

(* the former refutation witness (K11, repaired; seen on bundled float_demo.edf): a second net for the bit
   that is the cable's current lower index joins that bit - it used to be PREPENDED, shifting every bit *)
Example C05_duplicate_lower_bit_joins : ltac:(let t := type of multibit_duplicate_lower_joins in exact t).
Proof. exact multibit_duplicate_lower_joins. Qed.

(* repaired K4 (bundled leon3mp_hierarchical.edf, written by Vivado): bits whose identifier starts with "&_"
   are merged like any others - [C05_bitname_inverse], [C05_bit_ident_exact] and [C05_bus_read] no longer
   exclude them; the former witness ("_x" with identifier "&_x") is read as one cable *)
Example C05_amp_bits_merged : ltac:(let t := type of bus_amp_ident_read in exact t).
Proof. exact bus_amp_ident_read. Qed.

(* (member p x) *)
Theorem C05_member_reads_position : forall haswire pins k p,
  NoDup pins -> member_read pins k = Some p -> haswire p = true ->
  member_inner haswire pins p = Some k /\ member_outer pins p = [k].
Proof. exact member_index_inverse. Qed.
Print Assumptions C05_member_reads_position.

(* The statements at full strength over an abstract whole-file reader; instantiated below. *)
Record edif_reader := {
  nv : Type;
  supported : sexp -> Prop;           (* the supported subset of EDIF 2 0 0 *)
  denote : sexp -> nv -> Prop;        (* declarative meaning of a document *)
  same_struct : nv -> nv -> Prop;
  wf : nv -> Prop;                    (* well-formed and self-contained *)
  elab : sexp -> option nv }.

Definition C05_full (M : edif_reader) : Prop :=
  (forall d n, elab M d = Some n -> denote M d n /\ wf M n) /\
  (forall d n, supported M d -> denote M d n -> exists n', elab M d = Some n' /\ same_struct M n n').

(* ---- the whole-file model ---- *)
Definition edif_file_reader : edif_reader := {|
  nv := nvfile;
  supported := fun d => EdifFileDenote.supported d = true;
  denote := denote_file;
  same_struct := @eq nvfile;
  wf := wf_file;
  elab := fun d => match elab_file d with Ok n => Some n | Err _ => None end |}.

(* every document: what the reader returns is well formed (references resolve inside the result,
   every pin on a wire exists, no pin on two wires, sibling identifiers distinct, top declared,
   every instance has a reference, every port at least one pin) *)
Theorem C05_full_reader_wf : forall d n, elab edif_file_reader d = Some n -> wf edif_file_reader n.
Proof.
  intros d n. cbn. destruct (elab_file d) as [m|] eqn:E; [|discriminate].
  intro H; inversion H; subst. exact (elab_file_wf d n E).
Qed.
Print Assumptions C05_full_reader_wf.

(* supported documents: the result is what the document denotes - first half of C05_full *)
Theorem C05_full_reader_sound : forall d n, supported edif_file_reader d ->
  elab edif_file_reader d = Some n -> denote edif_file_reader d n /\ wf edif_file_reader n.
Proof.
  intros d n Hs. cbn in *. destruct (elab_file d) as [m|] eqn:E; [|discriminate].
  intro H; inversion H; subst. split; [exact (elab_file_sound d n Hs E)|exact (elab_file_wf d n E)].
Qed.
Print Assumptions C05_full_reader_sound.

(* WITHOUT the restriction to supported documents the first half of C05_full is false on the
   faithful model: the document [k13_doc] (scalar net x, then bit x[0]) is accepted and its
   result is not what it denotes; [supported] excludes exactly this shape (finding C05-K13) *)
Theorem C05_full_refuted : ~ C05_full edif_file_reader.
Proof.
  intros [H _]. destruct (H k13_doc k13_res) as [Hd _].
  - change (match elab_file k13_doc with Ok n => Some n | Err _ => None end = Some k13_res).
    rewrite k13_accepted. reflexivity.
  - exact (k13_not_denoted Hd).
Qed.
Print Assumptions C05_full_refuted.

Example C05_refuting_document_is_unsupported : EdifFileDenote.supported k13_doc = false.
Proof. vm_compute. reflexivity. Qed.

(* the former refuting document (K11, repaired: bits x[0], x[1], then x[0] again) is now supported and is
   read as ONE cable x, lower index 0, wires of 2 pins and 1 pin *)
Example C05_duplicate_bit_document_read : ltac:(let t := type of dup_doc_read_as_one_bus in exact t).
Proof. exact dup_doc_read_as_one_bus. Qed.

(* all documents: objects, references, pin designators and top are what the document declares; the
   cables of each cell are read_nets of the denoted nets *)
Theorem C05_reader_sound_all : forall d n, elab_file d = Ok n -> denote_file_with conn_read d n.
Proof. exact elab_file_sound_read. Qed.
Print Assumptions C05_reader_sound_all.

(* from the characters of the file: for a document printed in the composer's layout, what the
   token-level entry of the model returns is sound for the document *)
Theorem C05_text_sound : forall l n, sexp_ok (SList l) = true -> EdifFileDenote.supported (SList l) = true ->
  elab_text (print (SList l)) = Ok n -> denote_file (SList l) n /\ wf_file n.
Proof. exact elab_text_print_sound. Qed.
Print Assumptions C05_text_sound.

(* the nets of one cell: the reader's assembly is the declarative meaning, and it never fails on
   nets that satisfy nets_ok and whose names do not make separate_name_and_index raise *)
Theorem C05_nets_sound : forall (P : Type) (nets : list (net P)) (s : list (entry P)),
  nets_ok nets -> read_nets [] nets = Some s -> denote_conn nets s.
Proof. exact nets_sound. Qed.
Print Assumptions C05_nets_sound.

(* (repaired K9: no net name makes the reader raise any more - the former hypothesis
   forall nt, In nt nets -> net_bit (n_ident nt) (n_name nt) <> None holds for every net, [C05_net_bit_total]) *)
Theorem C05_nets_complete : forall (P : Type) (nets : list (net P)),
  nets_ok nets -> exists s, read_nets [] nets = Some s.
Proof. exact nets_complete_all. Qed.
Print Assumptions C05_nets_complete.

Theorem C05_net_bit_total : forall ident name : str, net_bit ident name <> None.
Proof. exact net_bit_total. Qed.
Print Assumptions C05_net_bit_total.

(* repaired K9: the former witness - bus "\x" written bit by bit as "\x[i]" - is read as one cable; the
   escaped scalar "\x[3] " is no bit *)
Example C05_backslash_bits_merged : ltac:(let t := type of bus_backslash_read in exact t).
Proof. exact bus_backslash_read. Qed.

(* a concrete supported document: two libraries, an array port, a renamed instance, member portRefs
   with out-of-order bus bits; it is accepted, every instance is referenced, the bus q of cell top
   is one array cable of width 2 *)
Definition C05_example_text : str := s2l
  "(edif demo (edifVersion 2 0 0) (edifLevel 0) (keywordMap (keywordLevel 0))
    (external prims (edifLevel 0) (technology (numberDefinition))
      (cell BUF (cellType GENERIC) (view netlist (viewType NETLIST) (interface (port I (direction INPUT)) (port O (direction OUTPUT))))))
    (library work (edifLevel 0) (technology (numberDefinition))
      (cell top (cellType GENERIC) (view netlist (viewType NETLIST)
        (interface (port a (direction INPUT)) (port (array (rename q ""q[1:0]"") 2) (direction OUTPUT)))
        (contents (instance u1 (viewRef netlist (cellRef BUF (libraryRef prims))))
                  (instance (rename u2 ""u[2]"") (viewRef NETLIST (cellRef buf (libraryRef PRIMS))) (property INIT (string ""0F"")))
                  (net a (joined (portRef a) (portRef I (instanceRef u1)) (portRef I (instanceRef U2))))
                  (net (rename q_1_ ""q[1]"") (joined (portRef (member q 0)) (portRef O (instanceRef u2))))
                  (net (rename q_0_ ""q[0]"") (joined (portRef (member q 1)) (portRef O (instanceRef u1))))))))
    (design top (cellRef top (libraryRef work))))".

Example C05_example_supported_and_read :
  match read_first (tokenize C05_example_text) with
  | Some (d, O, []) =>
    EdifFileDenote.supported d = true /\
    match elab_file d with
    | Ok n => all_referencedb n = true /\ List.length (nf_libs n) = 2%nat /\ elab_text C05_example_text = Ok n /\
              option_map tp_cell (nf_top n) = Some (s2l "top") /\
              match nf_libs n with
              | [_; W] => match li_cells W with
                          | [T] => map (fun e => (List.length (c_wires (e_cab e)), c_lower (e_cab e))) (ce_cabs T) = [(1%nat, 0%N); (2%nat, 0%N)]
                          | _ => False end
              | _ => False end
    | Err _ => False
    end
  | _ => False
  end.
Proof. vm_compute. repeat split; reflexivity. Qed.

(* ---- the repaired reader (former findings K14, K15, K16) ---- *)
(* for all documents: whatever is returned has every instance referenced and no port without pins *)
Theorem C05_instances_referenced_ports_nonempty : forall d n, elab_file d = Ok n ->
  all_referenced n /\ ports_nonempty n.
Proof. exact elab_file_full. Qed.
Print Assumptions C05_instances_referenced_ports_nonempty.

Definition C05_text_with (itf contents tail : string) : str := s2l
  ("(edif n (edifVersion 2 0 0) (edifLevel 0) (keywordMap (keywordLevel 0))
    (library work (edifLevel 0) (technology (numberDefinition))
      (cell leaf (cellType GENERIC) (view netlist (viewType NETLIST) (interface (port a (direction INPUT)))))
      (cell t (cellType GENERIC) (view netlist (viewType NETLIST) (interface " ++ itf ++ ") (contents " ++ contents ++ "))))" ++ tail).

Definition libs_and_top (r : result nvfile) : option (list str * option (str * str)) :=
  match r with
  | Ok n => Some (map li_ident (nf_libs n), option_map (fun t => (tp_lib t, tp_cell t)) (nf_top n))
  | Err _ => None
  end.

(* the hypotheses are satisfiable: the base text is accepted *)
Example C05_repaired_base_accepted :
  libs_and_top (elab_text (C05_text_with "(port x (direction INPUT))" "(instance u1 (viewRef netlist (cellRef leaf)))"
                                         " (design t (cellRef t (libraryRef work))))"))
  = Some ([s2l "work"], Some (s2l "work", s2l "t")).
Proof. vm_compute. reflexivity. Qed.

(* K14: (instance u1) with nothing after the name *)
Example C05_bare_instance_rejected :
  elab_text (C05_text_with "(port x (direction INPUT))" "(instance u1)" " (design t (cellRef t (libraryRef work))))") = Err FeShape.
Proof. vm_compute. reflexivity. Qed.

(* K15: an array port of size 0 / of negative size *)
Example C05_array_size_zero_rejected :
  elab_text (C05_text_with "(port (array y 0) (direction OUTPUT))" "" " (design t (cellRef t (libraryRef work))))") = Err FeShape
  /\ elab_text (C05_text_with "(port (array y -2) (direction OUTPUT))" "" " (design t (cellRef t (libraryRef work))))") = Err FeShape.
Proof. split; vm_compute; reflexivity. Qed.

(* K16: a library declared after the design construct is part of the result; properties written inside the
   design construct are skipped *)
Example C05_library_after_design_read :
  libs_and_top (elab_text (C05_text_with "(port x (direction INPUT))" ""
     " (design t (cellRef t (libraryRef work)) (property part (string ""xc7"")))
       (library later (edifLevel 0) (technology (numberDefinition))))"))
  = Some ([s2l "work"; s2l "later"], Some (s2l "work", s2l "t")).
Proof. vm_compute. reflexivity. Qed.

(* K16: the keywords of the design's reference are checked, a second design is refused, a design naming a
   library that is declared only after it is refused *)
Example C05_design_construct_checked :
  elab_text (C05_text_with "(port x (direction INPUT))" "" " (design t (foo t (libraryRef work))))") = Err FeShape
  /\ elab_text (C05_text_with "(port x (direction INPUT))" "" " (design t (cellRef t (bar work))))") = Err FeShape
  /\ elab_text (C05_text_with "(port x (direction INPUT))" ""
       " (design t (cellRef t (libraryRef work))) (design t2 (cellRef leaf (libraryRef work))))") = Err FeMultiple
  /\ elab_text (C05_text_with "(port x (direction INPUT))" ""
       " (design t (cellRef c2 (libraryRef later))) (library later (edifLevel 0) (technology (numberDefinition)) (cell c2 (cellType GENERIC))))")
     = Err FeUndeclared.
Proof. repeat split; vm_compute; reflexivity. Qed.
