(* C05 - the EDIF reader builds exactly the design the file describes.
   Property theorems only; each is closed by [exact] of a lemma proved under Proofs/Edif*.v.

   What is proved (reader half of the mechanisms, each unbounded): the tokenizer and a generic
   reader invert the printer and never yield an empty token; the exact condition under which a net
   (rename id "name") is taken for bit i of a bus; folding multibit_add_cable over the bits of a bus
   in ANY order with ANY bits missing gives one cable with bit i at position i - lower and empty
   wires in the gaps; a run of bit nets is read as exactly that cable; (member p x) reads pin x.
   What is NOT proved: the whole-file statements [C05_full] (soundness/completeness of the reader
   against a declarative semantics, well-formedness of the result). They are evaluated on the
   implementation by harness/edif_check.py (test evidence, not proof). *)
From Coq Require Import List NArith Bool Permutation.
From SV Require Import Base.Base Fmt.EdifLex Fmt.EdifName Fmt.EdifCable Fmt.EdifBus
  Proofs.EdifLexProofs Proofs.EdifNameProofs Proofs.EdifCableProofs Proofs.EdifBusProofs.
Import ListNotations.

(* tokenizer + reader: text printed from a document (any trailing delimiter) tokenizes to the
   document's token sequence, which reads back as the document *)
Theorem C05_tokenize_print : forall x rest, sexp_ok x = true -> delim rest ->
  tokenize (print x ++ rest) = flatten x ++ tokenize rest.
Proof. exact tokenize_print_app. Qed.
Print Assumptions C05_tokenize_print.

Theorem C05_read_flatten : forall x, atoms_ok x = true -> read (flatten x) = Some x.
Proof. exact read_flatten_atoms. Qed.
Print Assumptions C05_read_flatten.

Theorem C05_lex_print : forall x, sexp_ok x = true -> read (tokenize (print x)) = Some x.
Proof. exact lex_print. Qed.
Print Assumptions C05_lex_print.

Theorem C05_tokens_nonempty : forall s t, In t (tokenize s) -> t <> [].
Proof. exact tokens_nonempty. Qed.
Print Assumptions C05_tokens_nonempty.

Example C05_tokenize_drops_newlines_in_quotes : ltac:(let t := type of tokenize_drops_newlines_in_quotes in exact t).
Proof. exact tokenize_drops_newlines_in_quotes. Qed.
Example C05_tokenize_quote_joins_buffer : ltac:(let t := type of tokenize_quote_joins_buffer in exact t).
Proof. exact tokenize_quote_joins_buffer. Qed.

(* which nets are bits: complete characterisation of separate_name_and_index on the two forms *)
Theorem C05_bit_name_exact : forall (name : str) (i : N),
  sep_bracket (bit_name name i) =
  if negb (N.eqb (hd c_lbr name) c_bsl) || Nat.eqb (length (split_on c_space name)) 2
  then Some (Some i, name) else Some (None, bit_name name i).
Proof. exact bitname_bracket_full. Qed.
Print Assumptions C05_bit_name_exact.

Theorem C05_bit_ident_exact : forall (ident : str) (i : N),
  sep_underscore (bit_ident ident i) =
  if negb (starts_amp_us (ident ++ [c_us])) || is_empty (last (split_on c_us ident) [])
  then (Some i, ident) else (None, bit_ident ident i).
Proof. exact bitname_underscore_full. Qed.
Print Assumptions C05_bit_ident_exact.

Theorem C05_bitname_inverse : forall (ident name : str) (i : N),
  starts_amp_us (ident ++ [c_us]) = false ->
  (match name with c :: _ => c <> c_bsl | [] => True end) ->
  net_bit (bit_ident ident i) (bit_name name i) = Some (Some i, name, ident).
Proof. exact bitname_inverse. Qed.
Print Assumptions C05_bitname_inverse.

(* a name that does not end in ']' or '[' is never taken for a bit *)
Theorem C05_scalar_name_not_bit : forall name : str,
  name <> [] -> last name 0%N <> c_rbr -> last name 0%N <> c_lbr ->
  sep_bracket name = Some (None, name).
Proof. exact scalar_name_not_bit_last. Qed.
Print Assumptions C05_scalar_name_not_bit.

(* a net name ending in '[' makes the reader raise IndexError (rejected input, see C15) *)
Theorem C05_name_ending_in_bracket_raises : forall p : str,
  (match p with c :: _ => c <> c_bsl | [] => True end) ->
  sep_bracket (p ++ [c_lbr]) = None.
Proof. exact scalar_name_lbr_error. Qed.
Print Assumptions C05_name_ending_in_bracket_raises.

(* multibit merge: any order, any bits missing *)
Theorem C05_multibit_assemble : forall P (bits : list (N * list P)) c,
  NoDup (idxs bits) -> assemble bits = Some c ->
     c_lower c = min_idx (idxs bits)
  /\ N.of_nat (length (c_wires c)) = (max_idx (idxs bits) - min_idx (idxs bits) + 1)%N
  /\ c_array c = true
  /\ forall i, wire_of c i = lookup i bits.
Proof. exact multibit_assemble. Qed.
Print Assumptions C05_multibit_assemble.

Theorem C05_multibit_subset : forall P (full bits' rest : list (N * list P)) c,
  NoDup (idxs full) -> Permutation full (bits' ++ rest) -> assemble bits' = Some c ->
     c_lower c = min_idx (idxs bits')
  /\ N.of_nat (length (c_wires c)) = (max_idx (idxs bits') - min_idx (idxs bits') + 1)%N
  /\ (forall i w, In (i, w) bits' ->
        (c_lower c <= i)%N /\ (N.to_nat (i - c_lower c) < length (c_wires c))%nat /\
        nth (N.to_nat (i - c_lower c)) (c_wires c) [] = w /\ lookup i full = w)
  /\ (forall i, (min_idx (idxs bits') <= i <= max_idx (idxs bits'))%N ->
        ~ In i (idxs bits') -> nth (N.to_nat (i - c_lower c)) (c_wires c) [] = []).
Proof. exact multibit_subset. Qed.
Print Assumptions C05_multibit_subset.

(* the nets "id_i_"/"name[i]" of a bus, whichever bits are present and in whatever order, are read
   as ONE cable (name, id) = the cable [assemble] describes *)
Theorem C05_bus_read : forall P ident name (bits : list (N * list P)) nets c,
  ident_ok ident -> name_ok name -> NoDup (idxs bits) -> bits <> [] ->
  nets = map (fun '(i, w) => (bit_ident ident i, bit_name name i, w)) bits ->
  read_cable nets = Some (name, ident, c) ->
     c_lower c = min_idx (idxs bits)
  /\ N.of_nat (length (c_wires c)) = (max_idx (idxs bits) - min_idx (idxs bits) + 1)%N
  /\ c_array c = true
  /\ (forall i, wire_of c i = lookup i bits)
  /\ (forall n, (n < length (c_wires c))%nat ->
        nth n (c_wires c) [] = lookup (c_lower c + N.of_nat n) bits).
Proof. exact bus_subset_positions. Qed.
Print Assumptions C05_bus_read.

Theorem C05_bus_read_exists : forall P ident name (bits : list (N * list P)) nets,
  ident_ok ident -> name_ok name -> NoDup (idxs bits) -> bits <> [] ->
  nets = map (fun '(i, w) => (bit_ident ident i, bit_name name i, w)) bits ->
  exists c, read_cable nets = Some (name, ident, c).
Proof. exact bus_subset_read. Qed.
Print Assumptions C05_bus_read_exists.

Example C05_multibit_example : ltac:(let t := type of multibit_example in exact t).
Proof. exact multibit_example. Qed.

(* why NoDup is needed: a second net for the bit that is the cable's current lower index is
   PREPENDED, shifting every other bit by one (seen on bundled float_demo.edf) *)
Example C05_refuted_duplicate_lower_bit : ltac:(let t := type of multibit_duplicate_lower_shifts in exact t).
Proof. exact multibit_duplicate_lower_shifts. Qed.

(* bits whose identifier starts with "&_" (and does not end in "_") are NOT merged *)
Theorem C05_refuted_amp_bits : forall ident name i,
  starts_amp_us (ident ++ [c_us]) = true -> (forall p, ident <> p ++ [c_us]) -> name_ok name ->
  net_bit (bit_ident ident i) (bit_name name i) = Some (None, name, bit_ident ident i).
Proof. exact bus_amp_lost. Qed.
Print Assumptions C05_refuted_amp_bits.

(* (member p x) *)
Theorem C05_member_reads_position : forall haswire pins k p,
  NoDup pins -> member_read pins k = Some p -> haswire p = true ->
  member_inner haswire pins p = Some k /\ member_outer pins p = [k].
Proof. exact member_index_inverse. Qed.
Print Assumptions C05_member_reads_position.

(* The statements at full strength, over a whole-file model that does not exist yet. NOT PROVED. *)
Record edif_reader := {
  nv : Type;
  supported : sexp -> Prop;           (* the supported subset of EDIF 2 0 0 *)
  denote : sexp -> nv -> Prop;        (* declarative meaning of a document *)
  same_struct : nv -> nv -> Prop;
  wf : nv -> Prop;                    (* well-formed and self-contained *)
  elab : sexp -> option nv }.

Definition C05_full (M : edif_reader) : Prop :=
  (forall d n, elab M d = Some n -> denote M d n /\ wf M n) /\
  (forall d n, supported M d -> denote M d n -> exists n', elab M d = Some n' /\ same_struct M n n').
