(* C01 - IR ownership and pin-wire links stay mutually consistent under any edit history.
   Property theorems only; each is closed by [exact] of a lemma proved under Proofs/. *)
From Coq Require Import List Permutation.
From SV Require Import Base.Base IR.State IR.NS IR.Ops Proofs.Inv1a Proofs.C01_lemmas.

(* containment half, one step: any op, any arguments, any outcome except the stuck one *)
Theorem C01_containment_step : forall s o,
  Inv1a s -> snd (step s o) <> Some XStuck -> Inv1a (fst (step s o)).
Proof. exact step_inv1a. Qed.
Print Assumptions C01_containment_step.

(* containment half, every prefix of every history from the empty heap *)
Theorem C01_containment_reachable : forall ops1 ops2,
  never_stuck (ops1 ++ ops2) init -> Inv1a (run ops1 init).
Proof. exact run_inv1a_prefix. Qed.
Print Assumptions C01_containment_reachable.

(* reorder assignments only permute; a refused reorder changes nothing *)
Theorem C01_reorder : forall s r p l,
  Inv1a s ->
  let res := op_reorder s r p l in
  (snd res = None -> Permutation (kids s r p) (kids (fst res) r p) /\ kids (fst res) r p = l) /\
  (snd res <> None -> fst res = s).
Proof. exact reorder_permutes. Qed.
Print Assumptions C01_reorder.
