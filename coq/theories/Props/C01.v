(* C01 - IR ownership and pin-wire links stay mutually consistent under any edit history.
   Property theorems only; each is closed by [exact] of a lemma proved under Proofs/. *)
From Coq Require Import List Permutation NArith.
From SV Require Import Base.Base IR.State IR.NS IR.Ops Proofs.Inv1a Proofs.C01_lemmas
  Proofs.Inv2a Proofs.InvP Proofs.InvW Proofs.C01_full.

(* one step: ANY op of the model of the public mutators, any arguments (valid or not, proxy outer
   pins included), any outcome (accepted / refused by an assert / refused by the naming rules):
   the full invariant is kept and the call is never stuck half-way through a bulk update *)
Theorem C01_step : forall s o, Inv s -> Inv (fst (step s o)) /\ snd (step s o) <> Some XStuck.
Proof. exact step_inv. Qed.
Print Assumptions C01_step.

(* every prefix of every history from the empty heap *)
Theorem C01_reachable : forall ops, Inv (run ops init).
Proof. exact reachable_inv. Qed.
Print Assumptions C01_reachable.

(* ... which says: every container lists exactly the elements that name it as parent, once *)
Theorem C01_containers : forall s, Inv s ->
  (forall r p x, In x (kids s r p) <-> par s r x = Some p) /\ (forall r p, NoDup (kids s r p)).
Proof. intros s H. split; [exact (inv_container s H)|exact (inv_container_once s H)]. Qed.
Print Assumptions C01_containers.

(* ... and a wire lists exactly the pins that report it (for an outer pin: the pin stored by its
   instance for that inner pin), once *)
Theorem C01_pins_and_wires : forall s, Inv s ->
  (forall w p, In p (wpins s w) <-> pin_wire s p = Some w) /\ (forall w, NoDup (wpins s w)).
Proof. intros s H. split; [exact (inv_wire_pins s H)|exact (inv_wire_once s H)]. Qed.
Print Assumptions C01_pins_and_wires.

(* reorder assignments only permute; a refused reorder changes nothing *)
Theorem C01_reorder : forall s r p l,
  Inv1a s ->
  let res := op_reorder s r p l in
  (snd res = None -> Permutation (kids s r p) (kids (fst res) r p) /\ kids (fst res) r p = l) /\
  (snd res <> None -> fst res = s).
Proof. exact reorder_permutes. Qed.
Print Assumptions C01_reorder.

(* the containment half alone needs no other invariant (kept from the first proof round) *)
Theorem C01_containment_step : forall s o,
  Inv1a s -> snd (step s o) <> Some XStuck -> Inv1a (fst (step s o)).
Proof. exact step_inv1a. Qed.
Print Assumptions C01_containment_step.

(* the hypotheses are satisfiable by a non-trivial reachable state *)
Example C01_nonvacuous :
  let s := run sample_ops init in
  wpins s 7 = (POut 5 2 :: PIn 3 :: nil) /\ keys s 5 = (2 :: 3 :: nil) /\ drefs s 0 = (5 :: nil) /\
  pin_wire s (POut 5 2) = Some 7.
Proof. exact sample_reachable. Qed.

(* "whatever sequence of calls is made": histories that mix editing calls (any outcome) with the
   transformations - Definition.clone, uniquify, flatten, each run to completion. From the empty
   store, after any such history the whole invariant holds (containers, parents, pin-wire links,
   reference sets, outer-pin tables); [xrun] gives None only when a transformation raised or its
   walk ran out of fuel. Proofs/XHistory.v over Proofs/CloneFull.v (clone, uniquify) and
   Proofs/XformInv.v (flatten). *)
From SV Require Import Xform.Clone Xform.Xform Proofs.XHistory.
Theorem C01_mixed_histories : forall l u f x', xrun l (mkX init u f) = Some x' -> Inv (st x').
Proof. exact xrun_inv. Qed.
Print Assumptions C01_mixed_histories.

(* non-vacuity: edits, a clone, uniquify, another edit, flatten and a clone of the flattened top all complete *)
Example C01_mixed_sample :
  let ops := (ONew KNetlist None nil :: OCreate RLibs 0 None nil 0 None :: OCreate RDefs 1 (Some (76%N :: nil)) nil 0 None ::
              OCreate RPorts 2 (Some (112%N :: nil)) nil 1 None :: OCreate RDefs 1 (Some (77%N :: nil)) nil 0 None ::
              OCreate RChildren 5 (Some (105%N :: nil)) nil 0 (Some 2) :: OCreate RCables 5 (Some (99%N :: nil)) nil 1 None ::
              OConnect 8 (POut 6 4) None :: OCreate RDefs 1 (Some (84%N :: nil)) nil 0 None ::
              OCreate RChildren 9 (Some (97%N :: nil)) nil 0 (Some 5) :: OCreate RChildren 9 (Some (98%N :: nil)) nil 0 (Some 5) ::
              OSetTop 0 (TopDef 9) :: nil) in
  let h := (map XEdit ops ++ XCloneDef 5 :: XUniquify 20 0 :: XEdit (ODisconnect 8 (POut 6 4)) :: XFlatten 50 0 :: XCloneDef 9 :: nil)%list in
  match xrun h (mkX init 0 0) with
  | Some x => next (st x) = 28 /\ kids (st x) RChildren 9 = (20 :: 6 :: nil) /\ kids (st x) RDefs 1 = (2 :: 5 :: 17 :: 9 :: nil)
  | None => False
  end.
Proof. vm_compute. repeat split. Qed.

(* ... and over histories in which clone() is called on ANY element: a netlist (whose instances
   reference definitions of the netlist - [ystep] gives None otherwise), a library, a definition, a
   port, a cable, a wire, a pin or an instance. Any sequence of public editing calls (accepted or
   refused), completed clone() calls of the eight kinds, completed uniquify runs and completed flatten
   runs, from the empty store, leaves the whole invariant in force. The closed invariant is
   G = Inv /\ typed containment /\ nothing above the allocation counter /\ typed fields /\ references
   point at definitions /\ top instances are instances (Proofs/XHistAll.v over Proofs/CloneAux.v,
   CloneAuxLib.v, CloneTq.v). *)
From SV Require Import Proofs.CloneNetInv Proofs.XHistAll.
Theorem C01_all_mixed_histories : forall l u f x', xrun_all l (mkX init u f) = Some x' -> Inv (st x').
Proof. exact xrun_all_inv. Qed.
Print Assumptions C01_all_mixed_histories.

(* the histories of C01_mixed_histories are among them *)
Theorem C01_all_mixed_histories_extend : forall l x x', xrun l x = Some x' -> xrun_all (map yop_of l) x = Some x'.
Proof. exact xrun_all_of_xrun. Qed.
Print Assumptions C01_all_mixed_histories_extend.

(* non-vacuity: edits, Netlist.clone, Library.clone, Port.clone, two edits of the copied netlist (a wire of the copy is
   disconnected, a cable is created in a copied definition), uniquify and flatten of the copy, a clone of the flattened
   copy - all complete *)
Example C01_all_mixed_sample :
  let ops := (ONew KNetlist None nil :: OCreate RLibs 0 None nil 0 None :: OCreate RDefs 1 (Some (76%N :: nil)) nil 0 None ::
              OCreate RPorts 2 (Some (112%N :: nil)) nil 1 None :: OCreate RDefs 1 (Some (77%N :: nil)) nil 0 None ::
              OCreate RChildren 5 (Some (105%N :: nil)) nil 0 (Some 2) :: OCreate RCables 5 (Some (99%N :: nil)) nil 1 None ::
              OConnect 8 (POut 6 4) None :: OCreate RDefs 1 (Some (84%N :: nil)) nil 0 None ::
              OCreate RChildren 9 (Some (97%N :: nil)) nil 0 (Some 5) :: OCreate RChildren 9 (Some (98%N :: nil)) nil 0 (Some 5) ::
              OSetTop 0 (TopDef 9) :: nil) in
  let h := (map YEdit ops ++ YClone 0 :: YClone 1 :: YClone 3 :: YEdit (ODisconnect 20 (POut 21 17)) ::
            YEdit (OCreate RCables 18 (Some (100%N :: nil)) nil 1 None) :: YUniquify 20 13 :: YFlatten 50 13 :: YClone 13 :: nil)%list in
  match xrun_all h (mkX init 0 0) with
  | Some x => next (st x) = 66 /\ kids (st x) RLibs 13 = (14 :: nil) /\ kids (st x) RDefs 14 = (15 :: 18 :: 41 :: 22 :: nil) /\
              kids (st x) RChildren 22 = (46 :: 21 :: nil) /\ top (st x) 13 = Some 25 /\ kids (st x) RDefs 26 = (27 :: 30 :: 34 :: nil) /\
              kind_of (st x) 37 = Some KPort /\ kids (st x) RPins 37 = (38 :: nil) /\ wpins (st x) 20 = nil /\ kids (st x) RDefs 1 = (2 :: 5 :: 9 :: nil)
  | None => False
  end.
Proof. vm_compute. repeat split. Qed.
