(* C01 - IR ownership and pin-wire links stay mutually consistent under any edit history.
   Property theorems only; each is closed by [exact] of a lemma proved under Proofs/. *)
From Coq Require Import List Permutation.
From SV Require Import Base.Base IR.State IR.NS IR.Ops Proofs.Inv1a Proofs.C01_lemmas
  Proofs.Inv2a Proofs.InvP Proofs.InvW Proofs.C01_full.

(* one step: ANY op of the model of the public mutators, any arguments (valid or not, proxy outer
   pins included), any outcome (accepted / refused by an assert / refused by the naming rules):
   the full invariant is kept and the call is never stuck half-way through a bulk update *)
Theorem C01_step : forall s o, Inv s -> Inv (fst (step s o)) /\ snd (step s o) <> Some XStuck.
Proof. exact step_inv. Qed.
Print Assumptions C01_step.

(* every prefix of every history from the empty heap *)
Theorem C01_reachable : forall ops, Inv (run ops init).
Proof. exact reachable_inv. Qed.
Print Assumptions C01_reachable.

(* ... which says: every container lists exactly the elements that name it as parent, once *)
Theorem C01_containers : forall s, Inv s ->
  (forall r p x, In x (kids s r p) <-> par s r x = Some p) /\ (forall r p, NoDup (kids s r p)).
Proof. intros s H. split; [exact (inv_container s H)|exact (inv_container_once s H)]. Qed.
Print Assumptions C01_containers.

(* ... and a wire lists exactly the pins that report it (for an outer pin: the pin stored by its
   instance for that inner pin), once *)
Theorem C01_pins_and_wires : forall s, Inv s ->
  (forall w p, In p (wpins s w) <-> pin_wire s p = Some w) /\ (forall w, NoDup (wpins s w)).
Proof. intros s H. split; [exact (inv_wire_pins s H)|exact (inv_wire_once s H)]. Qed.
Print Assumptions C01_pins_and_wires.

(* reorder assignments only permute; a refused reorder changes nothing *)
Theorem C01_reorder : forall s r p l,
  Inv1a s ->
  let res := op_reorder s r p l in
  (snd res = None -> Permutation (kids s r p) (kids (fst res) r p) /\ kids (fst res) r p = l) /\
  (snd res <> None -> fst res = s).
Proof. exact reorder_permutes. Qed.
Print Assumptions C01_reorder.

(* the containment half alone needs no other invariant (kept from the first proof round) *)
Theorem C01_containment_step : forall s o,
  Inv1a s -> snd (step s o) <> Some XStuck -> Inv1a (fst (step s o)).
Proof. exact step_inv1a. Qed.
Print Assumptions C01_containment_step.

(* the hypotheses are satisfiable by a non-trivial reachable state *)
Example C01_nonvacuous :
  let s := run sample_ops init in
  wpins s 7 = (POut 5 2 :: PIn 3 :: nil) /\ keys s 5 = (2 :: 3 :: nil) /\ drefs s 0 = (5 :: nil) /\
  pin_wire s (POut 5 2) = Some 7.
Proof. exact sample_reachable. Qed.
