(* C14 - A refused edit changes nothing. Property theorems only. *)
From Coq Require Import List NArith.
From SV Require Import Base.Base IR.State IR.NS IR.Ops Proofs.Refused Proofs.InvW Proofs.Fresh Proofs.RefusedFull.
Import ListNotations.

(* every non-allocating editing call (add/remove/bulk remove/reorder of all seven containers,
   connect/disconnect(s), reference change, name and data assignment, top instance, bundle
   attributes) that is refused - by a precondition or by the naming rules - returns the very state
   it started from: containment, order, connections, reference sets, data, namespace tables and
   even the announcement log are untouched *)
Theorem C14_refused_changes_nothing : forall s o,
  plain_op o = true -> refusal (step s o) -> fst (step s o) = s.
Proof. exact refused_changes_nothing. Qed.
Print Assumptions C14_refused_changes_nothing.

(* the full statement, every public call included (constructors, compound constructors
   create_*(name, pins/wires/reference), top_instance = definition, deletions of data entries):
   in every state reachable from the empty world, a refused call leaves every object that existed
   before the call exactly as it was - old_eq is equality of every field of the model (kind,
   all seven containers and their order, parents, wire pins, pin wires, references, reference sets,
   outer-pin tables, top, bundle attributes, direction, data dictionaries, namespace tables) at every
   identifier allocated before the call, and of the naming policy. A half-built element (identifier
   >= next s) is therefore registered in no container, reference set or name table of the netlists. *)
Theorem C14_full : forall ops o,
  let s := run ops init in
  refusal (step s o) -> old_eq s (fst (step s o)).
Proof. exact reachable_refused_old. Qed.
Print Assumptions C14_full.

(* the same from the three invariants, for states not built from the empty world *)
Theorem C14_full_inv : forall s o,
  Fresh s -> FreshD s -> Inv s -> refusal (step s o) -> old_eq s (fst (step s o)).
Proof. exact refused_old. Qed.
Print Assumptions C14_full_inv.

(* non-vacuity: a compound constructor that allocates and is then refused by the naming rules
   (second library named "a"): the state differs from the one before, old objects do not *)
Example C14_refused_compound :
  let ops := [ONew KNetlist None []; OCreate RLibs 0 (Some [97%N]) [] 0 None] in
  let s := run ops init in
  let o := OCreate RLibs 0 (Some [97%N]) [] 0 None in
  snd (step s o) = Some XValue /\ next (fst (step s o)) = S (next s) /\ kids (fst (step s o)) RLibs 0 = [1].
Proof. vm_compute. repeat split. Qed.
