(* C14 - A refused edit changes nothing. Property theorems only. *)
From Coq Require Import List.
From SV Require Import Base.Base IR.State IR.NS IR.Ops Proofs.Refused.

(* every non-allocating editing call (add/remove/bulk remove/reorder of all seven containers,
   connect/disconnect(s), reference change, name and data assignment, top instance, bundle
   attributes) that is refused - by a precondition or by the naming rules - returns the very state
   it started from: containment, order, connections, reference sets, data, namespace tables and
   even the announcement log are untouched *)
Theorem C14_refused_changes_nothing : forall s o,
  plain_op o = true -> refusal (step s o) -> fst (step s o) = s.
Proof. exact refused_changes_nothing. Qed.
Print Assumptions C14_refused_changes_nothing.

(* the compound constructors allocate before they can be refused; for them the statement is
   "old objects unchanged, new ones registered nowhere"; checked on the implementation by the
   Frame oracle and on the model by the correspondence run; Coq proof not finished *)
Definition C14_full : Prop := forall s o x,
  snd (step s o) = Some x -> x <> XStuck ->
  let s' := fst (step s o) in
  forall e, e < next s ->
    (forall r, kids s' r e = kids s r e /\ par s' r e = par s r e) /\
    wpins s' e = wpins s e /\ ipwire s' e = ipwire s e /\ iref s' e = iref s e /\
    drefs s' e = drefs s e /\ ipins s' e = ipins s e /\ data s' e = data s e.
