(* C16 - Writing a netlist does not change it and is repeatable. Property theorems only.
   The EDIF writer's documented side effects are (1) dependency ordering of libraries and cells,
   (2) recording of generated identifiers, (3) defaulting an absent netlist name; these theorems
   say that the pre-pass loses nothing and is idempotent, hence a second composition writes the
   same text. The Verilog and EBLIF writers have no pre-pass; that they leave the netlist alone, the
   byte-equality of repeated outputs and "complete and closed on return" are decided on the
   implementation by harness/purity_check.py (identity-level snapshots). *)
From Coq Require Import List Permutation.
From SV Require Import Base.Base Fmt.EdifTopo Proofs.EdifTopoProofs Names.Edifify Proofs.NamesAssign Proofs.PurityProofs.

(* (1) the reorder is a permutation (nothing dropped or duplicated) that puts every dependency
   before its user, for any iteration order of the dependency sets *)
Theorem C16_reorder_is_sorted_permutation : forall deps objs,
  NoDup objs -> closed_in deps objs -> ranked deps ->
  exists out, topological_sort deps objs = Some out /\ Permutation objs out /\
    forall o d, In o out -> In d (deps o) -> precedes d o out.
Proof. exact toposort_perm_sorted. Qed.
Print Assumptions C16_reorder_is_sorted_permutation.

(* (1') ... and is the identity on an already ordered list: the second write reorders nothing *)
Theorem C16_reorder_idempotent : forall deps objs,
  NoDup objs ->
  (forall l1 o l2 d, objs = l1 ++ o :: l2 -> In d (deps o) -> In d l1) ->
  topological_sort deps objs = Some objs.
Proof. exact toposort_fixpoint. Qed.
Print Assumptions C16_reorder_idempotent.

(* (2) identifier recording keeps names and length, never touches an element that already carries
   an identifier ... *)
Theorem C16_identifiers_only_added : forall i objs e r,
  nth_error objs i = Some e -> s_ident e = Some r -> add_rename_property i objs = Ok objs.
Proof. exact add_rename_keeps_existing. Qed.
Print Assumptions C16_identifiers_only_added.

Theorem C16_names_kept : forall objs out,
  assign_all objs = Ok out -> length out = length objs /\ forall j, name_at out j = name_at objs j.
Proof. exact assign_all_names. Qed.
Print Assumptions C16_names_kept.

(* (2') ... and is idempotent: composing again records nothing new *)
Theorem C16_identifier_pass_idempotent : forall objs out,
  assign_all objs = Ok out -> assign_all out = Ok out.
Proof. exact assign_all_idempotent. Qed.
Print Assumptions C16_identifier_pass_idempotent.

(* the statement at full strength (all formats, all fields of all objects) is decided on the
   implementation only *)
Definition C16_full : Prop := forall objs out,
  assign_all objs = Ok out -> assign_all out = Ok out.

(* Verilog: the document-level writer model (Fmt/VEmit.v emit, tied to Composer on every C04 run) is a function of
   the netlist VALUE and the options alone: it has no state and returns no netlist, so a second composition of the
   same (unchanged) value writes the same document. That the real composer leaves the netlist alone is decided on
   the implementation (harness/purity_check.py). *)
From SV Require Fmt.VDoc Fmt.VEmit Proofs.VEmitRound.
Theorem C16_verilog_write_repeatable : forall o n (r1 r2 : SV.Fmt.VEmit.wres SV.Fmt.VDoc.vdoc),
  SV.Fmt.VEmit.emit o n = r1 -> SV.Fmt.VEmit.emit o n = r2 -> r1 = r2.
Proof. exact SV.Proofs.VEmitRound.emit_deterministic. Qed.
Print Assumptions C16_verilog_write_repeatable.

(* ------------------------------------------------------------------------------------------ *)
(* The whole-file writer model (Fmt/EdifEmit.v): the document is a function of the netlist value,
   the timestamp fields and the program metadata, nothing else. After a write the value is in
   dependency order ([ordered], evaluated on the value of every composed netlist of every C03 / C16
   run together with prepass v = Some v); on such a value the pre-pass of the next write changes
   nothing, so the second document is the first one up to the timestamp parameter. *)
From SV Require Import Fmt.EdifFile Fmt.EdifEmit Proofs.EdifEmitProofs.

Theorem C16_prepass_fixpoint : forall n, ordered n = true -> prepass n = Some n.
Proof. exact prepass_ordered. Qed.
Print Assumptions C16_prepass_fixpoint.

Theorem C16_emit_second_write : forall ts prog fl n n1, prepass n = Some n1 -> ordered n1 = true ->
  prepass n1 = Some n1 /\
  forall n2, prepass n1 = Some n2 -> emit_file ts prog fl n2 = emit_file ts prog fl n1.
Proof. exact emit_second_write. Qed.
Print Assumptions C16_emit_second_write.

(* NOT PROVED: the modelled reordering always ends in dependency order (needs the re-indexing of the
   dependency function along the permutation; C16_reorder_is_sorted_permutation is the statement
   on handles). With it, emit_file (prepass (prepass n)) = emit_file (prepass n) for every n. *)
Definition C16_prepass_idempotent_full : Prop := forall n n1,
  prepass n = Some n1 -> ordered n1 = true.

(* PROVED under the conditions the EDIF namespace guarantees (library identifiers pairwise different,
   cell identifiers of a library pairwise different, case-insensitively) and "no cell instantiates
   itself" (on such a netlist the real pre-pass does not return): the reordering ends in dependency
   order, so the pre-pass is idempotent and the second document is the first one:
   emit_file (prepass (prepass n)) = emit_file (prepass n). The unconditional
   C16_prepass_idempotent_full stays a Definition (with duplicate identifiers the lookups by
   identifier of the value model do not determine the objects). *)
From SV Require Import Fmt.EdifTopo Proofs.EdifTopoProofs Proofs.EdifPrepass.
Theorem C16_prepass_result_ordered : forall n n1,
  uniq_ci (map li_ident (nf_libs n)) = true ->
  (forall L, In L (nf_libs n) -> uniq_ci (map ce_ident (li_cells L)) = true /\ irreflexive (cell_deps L)) ->
  prepass n = Some n1 -> ordered n1 = true.
Proof. exact prepass_result_ordered. Qed.
Print Assumptions C16_prepass_result_ordered.

Theorem C16_prepass_idempotent : forall n n1,
  uniq_ci (map li_ident (nf_libs n)) = true ->
  (forall L, In L (nf_libs n) -> uniq_ci (map ce_ident (li_cells L)) = true /\ irreflexive (cell_deps L)) ->
  prepass n = Some n1 -> prepass n1 = Some n1.
Proof. exact prepass_idempotent. Qed.
Print Assumptions C16_prepass_idempotent.

Theorem C16_emit_prepass_idempotent : forall ts prog fl n n1 n2,
  uniq_ci (map li_ident (nf_libs n)) = true ->
  (forall L, In L (nf_libs n) -> uniq_ci (map ce_ident (li_cells L)) = true /\ irreflexive (cell_deps L)) ->
  prepass n = Some n1 -> prepass n1 = Some n2 -> emit_file ts prog fl n2 = emit_file ts prog fl n1.
Proof. exact emit_prepass_idempotent. Qed.
Print Assumptions C16_emit_prepass_idempotent.
