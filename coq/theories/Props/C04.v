(* C04 - Structural Verilog write-then-read returns the same netlist. Property theorems only.
   Proved: the index mechanisms of the round trip, each for ALL cable ranges (Z), widths and wire lists:
   slice text, declaration text, concatenation (run-length grouping), low-end alignment, and their
   composition for one written instance port (slice-or-concatenation decision included).
   and the assign clause (every accepted assign is written and read back as the same assignment instance).
   Not proved: the document-level statement C04_full below (module headers/aliases, options) - the document-level writer is not modelled (the reader is: Fmt/VElab.v); that level is covered by the
   oracle of harness/verilog_check.py on the implementation only. Character-level tokenisation is not modelled. *)
From Coq Require Import List ZArith Bool Permutation.
From SV Require Import Base.Base Fmt.VBits Fmt.VExpr Fmt.VDoc Fmt.VElab
  Proofs.VerilogLists Proofs.VerilogSlice Proofs.VerilogGrow Proofs.VerilogPort Proofs.VerilogAssign.
Import ListNotations.
Open Scope Z_scope.

(* (a) for every cable (lower index, width, downto) and every [h:l] inside it, the text the writer emits for
   wires l..h and the reader's get_wires_from_cable on that text select the same wires, MSB first *)
Theorem C04_slice_inverse : forall (A : Type) (ws : list A) (lo : Z) (downto : bool) (l h : Z),
  lo <= l -> l <= h -> h <= lo + Z.of_nat (length ws) - 1 ->
  exists b t,
    write_brackets lo (Z.of_nat (length ws)) (Some l) (Some h) = Some b /\
    get_wires lo ws (fst (read_brackets b)) (snd (read_brackets b)) = Some t /\
    length t = Z.to_nat (h - l + 1) /\
    forall k, (k < length t)%nat -> nth_error t k = nth_error ws (Z.to_nat (h - Z.of_nat k - lo)).
Proof. exact slice_inverse_lemma. Qed.
Print Assumptions C04_slice_inverse.

Example C04_slice_inverse_witness :
  (-2 <= 1 /\ 1 <= 3 /\ 3 <= -2 + Z.of_nat (length [10;11;12;13;14;15;16]%nat) - 1) /\
  write_brackets (-2) 7 (Some 1) (Some 3) = Some (BRange 3 1) /\
  get_wires (-2) [10;11;12;13;14;15;16]%nat (Some 3) (Some 1) = Some [15;14;13]%nat.
Proof. vm_compute. repeat split; discriminate. Qed.

(* "[msb:lsb]" written for a port or cable declaration is read back as the same base index and width *)
Theorem C04_decl_inverse : forall lo width, 1 <= width ->
  exists b, write_decl lo width = Some b /\
    populate (fst (read_brackets b)) (snd (read_brackets b)) = (lo, width).
Proof. exact decl_inverse_lemma. Qed.
Print Assumptions C04_decl_inverse.

(* (b) _write_concatenation: for ANY list of wires (several cables, repeated wires, ascending or descending
   runs, gaps = None), the emitted pieces expanded by the reader are the original list *)
Theorem C04_concat_inverse : forall (e : env) (ws : list (option wire)),
  (forall c i, In (Some (c, i)) ws -> in_cable e c i) ->
  exists t, write_concat e ws = Some t /\ read_concat e t = Some (somes ws).
Proof. exact concat_inverse_lemma. Qed.
Print Assumptions C04_concat_inverse.

Example C04_concat_inverse_witness :
  let e : env := fun c => if Nat.eqb c 0 then (2, 4%nat) else (0, 1%nat) in
  let ws := [Some (0%nat, 5); Some (0%nat, 4); Some (1%nat, 0); Some (0%nat, 4); Some (0%nat, 5); None; Some (0%nat, 2)] in
  (forall c i, In (Some (c, i)) ws -> in_cable e c i) /\
  write_concat e ws = Some [(0%nat, BRange 5 4); (1%nat, BNone); (0%nat, BIdx 4); (0%nat, BIdx 5); (0%nat, BIdx 2)].
Proof.
  split; [|vm_compute; reflexivity].
  intros c i H. cbn in H. unfold in_cable.
  repeat (destruct H as [H|H]; [inversion H; subst; vm_compute; split; discriminate|]); try discriminate; contradiction.
Qed.

(* (c) the reader's offset len(pins) - len(wires) on the reverse-sorted pins: the wire list (MSB first) of any
   width <= port width lands on the low end, wire i of m on pin m-1-i, in whatever order the pins come *)
Theorem C04_lowend_align : forall (W : Type) (ws : list W) (pins : list nat) (n : nat),
  Permutation pins (seq 0 n) -> (length ws <= n)%nat ->
  align Z.of_nat pins ws = Some (combine ws (rev (seq 0 (length ws)))).
Proof. exact lowend_align_lemma. Qed.
Print Assumptions C04_lowend_align.

(* composition for one instance port: ShapeInv (unconnected pins only at the high end) in, same pin
   assignment out, whichever of slice / whole cable / single bit / concatenation / empty the writer chose *)
Theorem C04_port_emit_inverse : forall (e : env) (cs : list wire) (r : nat) (pins : list nat),
  (forall c i, In (c, i) cs -> in_cable e c i) ->
  Permutation pins (seq 0 (length cs + r)) ->
  exists txt t,
    emit_port e (map Some cs ++ repeat None r) = Some txt /\ read_port e txt = Some t /\
    align Z.of_nat pins t = Some (combine (rev cs) (rev (seq 0 (length cs)))).
Proof. exact port_emit_inverse_lemma. Qed.
Print Assumptions C04_port_emit_inverse.

Example C04_port_emit_inverse_witness :
  let e : env := fun c => if Nat.eqb c 0 then (2, 4%nat) else (0, 1%nat) in
  emit_port e [Some (0%nat, 3); Some (0%nat, 4); None] = Some (PPlain 0%nat (BRange 4 3)) /\
  emit_port e [Some (0%nat, 3); Some (1%nat, 0); Some (0%nat, 4)] =
    Some (PConcat [(0%nat, BIdx 4); (1%nat, BNone); (0%nat, BIdx 3)]) /\
  Permutation [2;0;1]%nat (seq 0 3).
Proof. split; [vm_compute; reflexivity|]. split; [vm_compute; reflexivity|]. cbn. apply perm_trans with [0;2;1]%nat; [apply perm_swap|constructor; apply perm_swap]. Qed.

(* assign statements (repaired: former finding V04-assign-compose-assert, the reader wired a multi-bit assign most
   significant bit first and _write_assignment then refused the netlist). For the model of connect_wires_for_assign +
   _write_assignment: EVERY assign of two typed atoms (identifier, bit- or part-select; any cables, bases, widths,
   equal or not) is written as one slice per side, and the reader makes of that text the same assignment instance:
   the same (o wire, i wire) on every pin. *)
Theorem C04_assign_roundtrip : forall e lhs rhs, atom_typed e lhs -> atom_typed e rhs ->
  exists pins co bo ci bi,
    read_assign e lhs rhs = Some pins /\
    write_assign e pins = Some ((co, bo), (ci, bi)) /\
    read_assign e (brk_atom co bo) (brk_atom ci bi) = Some pins.
Proof. exact assign_roundtrip_lemma. Qed.
Print Assumptions C04_assign_roundtrip.

(* the clause "the text written for what the reader built is always accepted" (was C04_assign_clause_refuted) *)
Theorem C04_assign_clause_holds : assign_writable.
Proof. exact assign_writable_holds_lemma. Qed.
Print Assumptions C04_assign_clause_holds.

(* regression witness of the former refutation: assign a[1:0] = b[1:0] (corpus/verilog/c04-multi-bit-assign.json);
   and slices of different bases in cables that do not start at 0: assign a[5:3] = b[-1:-3] *)
Example C04_assign_multibit_witness :
  let e : env := fun c => if Nat.eqb c 0 then (2, 4%nat) else (-3, 5%nat) in
  read_assign wit_env (APart 0%nat 1 0) (APart 1%nat 1 0) = Some [((0%nat, 0), (1%nat, 0)); ((0%nat, 1), (1%nat, 1))] /\
  write_assign wit_env [((0%nat, 0), (1%nat, 0)); ((0%nat, 1), (1%nat, 1))] = Some ((0%nat, BRange 1 0), (1%nat, BRange 1 0)) /\
  read_assign e (APart 0%nat 5 3) (APart 1%nat (-1) (-3)) =
    Some [((0%nat, 3), (1%nat, -3)); ((0%nat, 4), (1%nat, -2)); ((0%nat, 5), (1%nat, -1))] /\
  write_assign e [((0%nat, 3), (1%nat, -3)); ((0%nat, 4), (1%nat, -2)); ((0%nat, 5), (1%nat, -1))] =
    Some ((0%nat, BRange 5 3), (1%nat, BRange (-1) (-3))).
Proof. vm_compute. repeat split; reflexivity. Qed.

Theorem C04_assign_single_bit : forall e c i c2 i2,
  atom_typed e (ABit c i) -> atom_typed e (ABit c2 i2) ->
  exists pins bo bi, read_assign e (ABit c i) (ABit c2 i2) = Some pins /\ pins = [((c, i), (c2, i2))] /\
    write_assign e pins = Some ((c, bo), (c2, bi)) /\
    read_piece e c bo = Some [(c, i)] /\ read_piece e c2 bi = Some [(c2, i2)].
Proof. exact assign_single_bit_lemma. Qed.
Print Assumptions C04_assign_single_bit.

(* The statement at full strength. The reader is the document-level model Fmt/VElab.v elab (tied to
   VerilogParser on every run of C06); emit: the document-level model of Composer._compose over Fmt/VDoc.v
   (not written: the write side of the round trip is covered by the oracle of harness/verilog_check.py on the
   implementation and by the mechanism theorems above). *)
Definition C04_full (emit : vopts -> nv -> vdoc) : Prop :=
  forall d n o, elab d = Ok n -> o_definition_list o = None -> o_write_blackbox o = true ->
    exists n', elab (emit o n) = Ok n' /\ same_netlist n n'.

(* ---------------------------------------------------------------------------------------------------------------
   The document-level WRITER (Fmt/VEmit.v emit : vopts -> nv -> wres vdoc, the model of Composer._compose; tied to
   the composer on every C04 run by harness/verilog_emit.py: the text of the real composer, read token by token into
   a vdoc, equals emit of the ordered value of the same netlist). Writer and reader compose: emit writes the document
   type that VElab.elab reads.
   Proved: the VERIFIED CHECKER of one round trip - rt_check o n = true certifies that the document written for n
   under the options o is accepted by the reader and gives a netlist with the same top, and per written module the
   same ordered ports (name, direction, width, lower index), the same instances (definition, parameters,
   attributes), bit by bit the same connectivity and the same assignment instances (per pin the o and the i bit). The run evaluates rt_check (extracted) on every netlist it
   writes and compares the verdict with the real write/read cycle; `writable` (the class of the general statement)
   is evaluated too and must imply rt_check.
   Not proved: the general statement C04_emit_roundtrip_full (for every writable value the round trip succeeds). *)
From SV Require Import Fmt.VSpec Fmt.VEmit Proofs.VEmitRound.

Theorem C04_emit_roundtrip_checked : forall o n,
  rt_check o n = true -> exists d n', emit o n = WOk d /\ elab d = Ok n' /\ same_conn o n n'.
Proof. exact rt_check_sound. Qed.
Print Assumptions C04_emit_roundtrip_checked.

(* the boolean comparison used by the checker decides the relation of the property *)
Theorem C04_same_conn_decided : forall o n n', same_conn_b o n n' = true -> same_conn o n n'.
Proof. exact same_conn_b_sound. Qed.
Print Assumptions C04_same_conn_decided.

Theorem C04_same_conn_def_decided : forall a b, same_conn_def_b a b = true -> same_conn_def a b.
Proof. exact same_conn_def_sound. Qed.
Print Assumptions C04_same_conn_def_decided.

(* a three-level design (VEmitRound.ex_src: 4-bit and 3-bit buses, a concatenation on a partially connected port,
   an unconnected port, a part select, an instance parameter, attributes, a single-bit assign, the 3-bit assign
   v[5:3] = w[-1:-3] between cables declared [6:2] and [0:-3]) read by the reader
   model, written by the writer model under two option sets (default; definition_list + defparam), read again *)
From Coq Require Import String.
Local Open Scope string_scope.
Example C04_emit_roundtrip_witness :
  match elab ex_src with
  | Ok n =>
      writable ex_opts n = true /\ rt_check ex_opts n = true /\ rt_check ex_opts_dp n = true /\
      match emit ex_opts n with
      | WOk (m :: _) =>
          nth_error (vm_body m) 12 =
            Some (IInst (S_ "sub") (S_ "u1") [(S_ "W", S_ "3")] []
                    (CNamed [(S_ "x", Some (DCat [DBit (S_ "a") 1; DId (S_ "b")]));
                             (S_ "z", Some (DAtom (DPart (S_ "t") 1 0))); (S_ "q", None)]))
          /\ nth_error (vm_body m) 10 = Some (IAssign (DId (S_ "n1")) (DBit (S_ "a") 3))
          /\ nth_error (vm_body m) 11 = Some (IAssign (DPart (S_ "v") 5 3) (DPart (S_ "w") (-1) (-3)))
      | _ => False
      end
  | Err _ => False
  end.
Proof. vm_compute. repeat split; reflexivity. Qed.
Local Close Scope string_scope.
From Coq Require Import List.

(* The statement at full strength for the modelled writer: on the decidable class `writable` (every port of a
   written module has a direction and lies pin by pin on the cable of its own name; emit succeeds - which excludes
   assignment instances that are not one slice per side, unnamed ports and names that need escaping) the written document is accepted and gives the
   same connectivity. NOT proved; on every run `writable o n = true -> rt_check o n = true` is evaluated on every
   netlist written, and rt_check's verdict is a proof for that netlist (C04_emit_roundtrip_checked). *)
Definition C04_emit_roundtrip_full : Prop :=
  forall o n, wf_nv n -> writable o n = true ->
    exists d n', emit o n = WOk d /\ elab d = Ok n' /\ same_conn o n n'.

(* Per-construct lemmas of the writer model, lifting the mechanism theorems above to Fmt/VEmit.v / Fmt/VElab.v. *)
From SV Require Import Proofs.VEmitLemmas.

(* a cable declaration: the item emit writes for a cable of width >= 1 is read by the reader model's
   parse_cable_declaration (VElab.wire_decl), in a module that does not have the cable yet, as exactly that cable -
   name, lower index, width, type, attributes (lifts C04_decl_inverse) *)
Theorem C04_cable_decl_emit_inverse : forall c d,
  (1 <= nc_width c)%nat -> has_glob (nc_name c) = false -> find_cable (nc_name c) d = None ->
  exists rg, emit_cable c = WOk (IWire (nc_type c) rg [nc_name c] (nc_attrs c)) /\
    wire_decl (nc_type c) rg (nc_attrs c) [nc_name c] d =
      Ok (set_cables d (ed_cables d ++
            [{| ec_name := nc_name c;
                ec_b := {| b_lo := nc_lower c; b_items := seq 0 (nc_width c); b_next := nc_width c |};
                ec_type := Some (nc_type c); ec_attrs := dict_of (nc_attrs c) |}])).
Proof. exact emit_cable_elab. Qed.
Print Assumptions C04_cable_decl_emit_inverse.

(* a header port of the class `writable` is written by its name alone *)
Theorem C04_header_plain : forall d p,
  port_plain d p = true -> exists nm, np_label p = LName nm /\ emit_header_port d p = WOk (HPort None None nm).
Proof. exact header_plain. Qed.
Print Assumptions C04_header_plain.

(* one named port connection of an instance (lifts C04_port_emit_inverse to emit_conn): pins in port order on the
   wires cs (any cables, any order), r unconnected pins at the high end: the connection written - empty, id, id[i],
   id[h:l] or {...} as the composer chooses - is read back and aligned so that the wire of pin k is on pin k again *)
Theorem C04_conn_emit_inverse : forall d iname p nm (cs : list wire) (r : nat) (pins : list nat),
  np_label p = LName nm -> (1 <= np_width p)%nat ->
  pin_wires d (EInst iname (np_label p)) p = map Some cs ++ repeat None r ->
  (forall c i, In (c, i) cs -> in_cable (def_env d) c i) ->
  Permutation pins (seq 0 (length cs + r)) ->
  exists txt t,
    emit_conn d iname p = WOk (nm, ptext_expr d txt) /\ read_port (def_env d) txt = Some t /\
    align Z.of_nat pins t = Some (combine (rev cs) (rev (seq 0 (length cs)))).
Proof. exact conn_emit_inverse. Qed.
Print Assumptions C04_conn_emit_inverse.

(* the skeleton of what emit writes, for EVERY netlist value: the document is the list of the written modules in the
   order of the _write_module calls, each from the definition of its name; a module carries the definition's name,
   `celldefine flag, parameters, attributes, one header entry per port in port order; a primitive has port
   declarations only *)
Theorem C04_emit_document : forall o n d,
  emit o n = WOk d ->
  Forall2 (fun x m => exists dd, find_ndef n x = Some dd /\ emit_module o n dd = WOk m /\ vm_name m = x)
          (written_order o n) d.
Proof. exact emit_document. Qed.
Print Assumptions C04_emit_document.

Theorem C04_emit_module_skeleton : forall o n dd m,
  emit_module o n dd = WOk m ->
  vm_name m = nd_name dd /\ vm_cell m = is_prim dd /\ vm_params m = nd_params dd /\ vm_attrs m = nd_attrs dd /\
  Forall2 (fun p h => emit_header_port dd p = WOk h) (nd_ports dd) (vm_header m) /\
  (is_prim dd = true -> emit_body_ports dd (nd_ports dd) [] = WOk (vm_body m)).
Proof. exact emit_module_skeleton. Qed.
Print Assumptions C04_emit_module_skeleton.

(* the header of a module of the class `writable` is the list of its port names, in port order *)
Theorem C04_writable_header : forall o n dd m,
  forallb (port_plain dd) (nd_ports dd) = true -> emit_module o n dd = WOk m ->
  Forall2 (fun p h => exists nm, np_label p = LName nm /\ h = HPort None None nm) (nd_ports dd) (vm_header m).
Proof. exact writable_header. Qed.
Print Assumptions C04_writable_header.

(* Assignment instances (progress on C04_emit_roundtrip_full, assign clause). For EVERY list of pins - not only one
   that comes from a reading, as in C04_assign_roundtrip - when _write_assignment writes (does not raise: the pins of
   each side are one ascending run of one cable), the reader's assign on the two slices written gives exactly these
   pins again, pin by pin; lifted to emit_assign: every `assign` item emit writes is read back as the (o wire, i
   wire) pairs of the instance it was written for. With C04_assign_roundtrip: an instance the reader built is
   always written (C04_emit_assign_inverse). *)
Theorem C04_write_assign_reread : forall e pins co bo ci bi,
  write_assign e pins = Some ((co, bo), (ci, bi)) ->
  read_assign e (brk_atom co bo) (brk_atom ci bi) = Some pins.
Proof. exact write_assign_reread. Qed.
Print Assumptions C04_write_assign_reread.

Theorem C04_emit_assign_reread : forall d prs lhs rhs,
  emit_assign d prs = WOk (IAssign lhs rhs) ->
  exists pins co bo ci bi,
    assign_wires d prs = WOk pins /\ lhs = piece_atom d (co, bo) /\ rhs = piece_atom d (ci, bi) /\
    read_assign (def_env d) (brk_atom co bo) (brk_atom ci bi) = Some pins.
Proof. exact emit_assign_reread. Qed.
Print Assumptions C04_emit_assign_reread.

Theorem C04_emit_assign_inverse : forall d prs pins lhs rhs,
  prs <> [] -> assign_wires d prs = WOk pins ->
  atom_typed (def_env d) lhs -> atom_typed (def_env d) rhs ->
  read_assign (def_env d) lhs rhs = Some pins ->
  exists co bo ci bi,
    emit_assign d prs = WOk (IAssign (piece_atom d (co, bo)) (piece_atom d (ci, bi))) /\
    read_assign (def_env d) (brk_atom co bo) (brk_atom ci bi) = Some pins.
Proof. exact emit_assign_inverse. Qed.
Print Assumptions C04_emit_assign_inverse.
