(* C19 - Listeners are told of every structural change before it happens. Property theorems only. *)
From Coq Require Import List NArith.
From SV Require Import Base.Base IR.State IR.NS IR.Ops IR.Shadow Proofs.Refused Proofs.InvW Proofs.Fresh
  Proofs.C01_full Proofs.Mirror.
Import ListNotations.

(* no phantom announcements: a refused non-allocating call appends nothing to the announcement
   log (the log is a field of the state, so this is the log component of C14's theorem) *)
Theorem C19_no_phantom : forall s o,
  plain_op o = true -> refusal (step s o) -> log (fst (step s o)) = log s.
Proof. intros s o H1 H2. rewrite (refused_changes_nothing s o H1 H2). reflexivity. Qed.
Print Assumptions C19_no_phantom.

(* the mirror clause, one call: a listener (IR/Shadow.v: feed) that holds an exact mirror of
   containment, wire membership, instance references, top instances and element data before a
   call - any public editing call, accepted or refused, single, bulk or compound, including the
   implicit disconnections of port/pin removal and reference = None and the implicit re-keying of
   re-pointing - and that replays exactly the announcements made during the call, holds an exact
   mirror afterwards. (Announcements carry no positions: containers and wires are mirrored as sets.) *)
Theorem C19_mirror_step : forall s o sh,
  Inv s -> Fresh s -> mirror s sh ->
  mirror (fst (step s o)) (feed_all s sh (new_events s (fst (step s o)))).
Proof. exact step_mirror. Qed.
Print Assumptions C19_mirror_step.

(* every history from the empty world: the listener that started with the empty mirror and replayed
   the announcements of each call holds an exact mirror of the state reached *)
Theorem C19_mirror : forall ops,
  fst (run_mirror ops init sh_init) = run ops init /\
  mirror (run ops init) (snd (run_mirror ops init sh_init)).
Proof.
  intro ops. destruct (run_mirror_spec ops init sh_init inv_init fresh_init mirror_init) as [E M].
  split; [exact E|rewrite <- E; exact M].
Qed.
Print Assumptions C19_mirror.

(* non-vacuity: the sample history of C01 (instance, wired outer and inner pin) and what its mirror holds *)
Example C19_mirror_sample :
  let sh := snd (run_mirror sample_ops init sh_init) in
  sw sh 7 (POut 5 2) = true /\ sw sh 7 (PIn 3) = true /\ sr sh 5 = Some 0 /\ sk sh RChildren 4 5 = true /\ sk sh RPins 1 2 = true.
Proof. vm_compute. repeat split. Qed.
