(* C19 - Listeners are told of every structural change before it happens. Property theorems only. *)
From Coq Require Import List.
From SV Require Import Base.Base IR.State IR.NS IR.Ops Proofs.Refused.

(* no phantom announcements: a refused non-allocating call appends nothing to the announcement
   log (the log is a field of the state, so this is the log component of C14's theorem) *)
Theorem C19_no_phantom : forall s o,
  plain_op o = true -> refusal (step s o) -> log (fst (step s o)) = log s.
Proof. intros s o H1 H2. rewrite (refused_changes_nothing s o H1 H2). reflexivity. Qed.
Print Assumptions C19_no_phantom.
