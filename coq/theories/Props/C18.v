(* C18 - EBLIF files are read faithfully and survive write-then-read.
   Property theorems only; each is closed by [exact] of a lemma proved under Proofs/Blif*.v.
   Model: Fmt/Blif.v (documents, netlist value), BlifRead.v (reader), BlifWrite.v (writer),
   BlifSpec.v (WF, denote, supported, equiv).

   Status of the three clauses on the code as it is in /repo:
     well-formed and   proved for every accepted document, at full strength (C18_wf);
     self-contained
     reads faithfully  C18_sound_full is the statement.  Proved: the instance clauses (one instance per
                       statement, in order, with the named definition, kind, .cname/.attr/.param/truth
                       table; every named definition exists) for every supported document
                       (C18_sound_instances).  Not proved: the connectivity clause (ds_nets), the
                       library and direction clauses - they are checked by the correspondence run and the
                       design oracle only.  Outside the supported subset the statement is refuted
                       (C18_sound_refuted_*: statement lines the reader silently skips);
     write-then-read   C18_full is the statement; REFUTED (C18_roundtrip_refuted: the written file
                       of a supported document is rejected on re-reading). *)
From Coq Require Import List Permutation.
From SV Require Import Base.Base Fmt.Blif Fmt.BlifRead Fmt.BlifWrite Fmt.BlifSpec
  Proofs.BlifWF Proofs.BlifExec Proofs.BlifSound Proofs.BlifC18.

(* ---- well-formedness and self-containedness ---- *)
(* every accepted document, no restriction: model names distinct; every pin on a wire names a declared
   port bit of the model / of the instanced model; a pin is on one wire, once; every instance mirrors
   its definition; port and cable names distinct; no pin sits on a cable outside its model.
   (Before repair ececd91 of make_blackbox the last clause was refuted by every declared black box.) *)
Theorem C18_wf : forall d n, elab d = Ok n -> WF n.
Proof. exact wf_all. Qed.
Print Assumptions C18_wf.

(* the hypothesis holds for a flat design with buses, unconn, .names, .latch, instance data ... *)
Example C18_wf_example : exists n, elab doc_flat = Ok n /\ WF n /\
  length (b_models n) = 5 /\ exists m, find_model nm_top (b_models n) = Some m /\ length (m_insts m) = 4.
Proof. exact wf_example. Qed.
Print Assumptions C18_wf_example.

(* ... and for a design with a declared black box, which ends up as a leaf primitive *)
Example C18_wf_example_blackbox : exists n m, elab doc_blackbox = Ok n /\ WF n /\
  find_model i_ref_inv (b_models n) = Some m /\ m_lib m = LPrim /\ m_cables m = nil /\ length (m_ports m) = 2.
Proof. exact wf_example_blackbox. Qed.
Print Assumptions C18_wf_example_blackbox.

(* ---- the reader builds what the file says ---- *)
Definition C18_sound_full : Prop := forall d n, supported d = true -> elab d = Ok n -> denote d n.

(* proved part: for every supported document and every model it declares, the model exists, its
   instances are - in order - exactly the instance statements of its section with the named definition,
   the kind and the data that follows them, and every definition an instance names exists *)
Theorem C18_sound_instances : forall d n,
  supported d = true -> elab d = Ok n ->
  exists ss, grammar d = Some ss /\
    forall nm, In nm (model_names ss) ->
      (exists m, find_model nm (b_models n) = Some m) /\
      (forall m, find_model nm (b_models n) = Some m ->
         map isig_of_inst (m_insts m) = spec_insts nil (body_of nm nil ss)) /\
      (forall m x, find_model nm (b_models n) = Some m -> In x (m_insts m) ->
         exists r, find_model (i_ref x) (b_models n) = Some r).
Proof. exact sound_insts. Qed.
Print Assumptions C18_sound_instances.

(* the supported subset is inhabited by the example documents *)
Example C18_supported_example : supported doc_flat = true /\ supported doc_blackbox = true.
Proof. exact (conj doc_flat_supported doc_blackbox_supported). Qed.
Print Assumptions C18_supported_example.

(* outside the subset the reader accepts the file and builds something else: a comment line
   between an instance and its .cname loses the name; a blank line after .model loses the ports *)
Theorem C18_sound_refuted_comment_in_info : exists d n, supported d = false /\ elab d = Ok n /\ ~ denote d n.
Proof. exact sound_refuted_comment_in_info. Qed.
Print Assumptions C18_sound_refuted_comment_in_info.

Theorem C18_sound_refuted_header_gap : exists d n, supported d = false /\ elab d = Ok n /\ ~ denote d n.
Proof. exact sound_refuted_header_gap. Qed.
Print Assumptions C18_sound_refuted_header_gap.

(* ---- write-then-read ---- *)
Definition C18_full : Prop := C18_roundtrip_statement.
(* = forall d n, elab d = Ok n -> exists n', elab (emit n) = Ok n' /\ equiv n n' *)

Theorem C18_roundtrip_refuted : ~ C18_full.
Proof. exact roundtrip_refuted. Qed.
Print Assumptions C18_roundtrip_refuted.

(* on the example document the written file re-reads, with the same instances (name, definition, kind,
   data sizes) both ways and as many connected pins: the clause is satisfiable by a non-trivial input.
   No general write-then-read theorem is proved (it would need the writer's output to be characterised
   for every netlist in the image of the reader, and it is false without excluding the three classes of
   input listed in the engine report). *)
Example C18_roundtrip_example :
  exists n n' m m', elab doc_flat = Ok n /\ elab (emit n) = Ok n' /\
    find_model nm_top (b_models n) = Some m /\ find_model nm_top (b_models n') = Some m' /\
    insts_covered_b m m' = true /\ insts_covered_b m' m = true /\
    length (cable_pins (m_cables m)) = length (cable_pins (m_cables m')).
Proof. exact roundtrip_example. Qed.
Print Assumptions C18_roundtrip_example.
